// Package core loads /repo's current working tree (go/packages + go/ssa + call graph)
// and holds the report/evidence plumbing shared by every rule engine.
package core

import (
	"fmt"
	"go/token"
	"go/types"
	"os"
	"path/filepath"
	"sort"
	"strings"

	"golang.org/x/tools/go/callgraph"
	"golang.org/x/tools/go/callgraph/cha"
	"golang.org/x/tools/go/callgraph/vta"
	"golang.org/x/tools/go/packages"
	"golang.org/x/tools/go/ssa"
	"golang.org/x/tools/go/ssa/ssautil"
)

const ModPath = "github.com/sahandsafizadeh/qeep"

// Well-known package paths of the analysed module.
const (
	PkgTensor     = ModPath + "/tensor"
	PkgITensor    = ModPath + "/tensor/internal/tensor"
	PkgCPU        = ModPath + "/tensor/internal/cputensor"
	PkgGrad       = ModPath + "/tensor/internal/gradtrack"
	PkgValidator  = ModPath + "/tensor/internal/validator"
	PkgLayers     = ModPath + "/component/layers"
	PkgActs       = ModPath + "/component/layers/activations"
	PkgLosses     = ModPath + "/component/losses"
	PkgMetrics    = ModPath + "/component/metrics"
	PkgOptimizers = ModPath + "/component/optimizers"
	PkgInits      = ModPath + "/component/initializers"
)

type Program struct {
	RepoDir string
	Fset    *token.FileSet
	Pkgs    []*packages.Package          // packages of the analysed module (non-test)
	ByPath  map[string]*packages.Package // incl. dependencies
	Prog    *ssa.Program
	SSA     map[string]*ssa.Package // by package path (module packages + deps that have SSA)

	cgVTA *callgraph.Graph
	cgCHA *callgraph.Graph
	all   map[*ssa.Function]bool
}

// Load type-checks every package of the module under repoDir (tests excluded) and builds SSA
// for the whole program including dependencies.
func Load(repoDir string) (*Program, error) {
	abs, err := filepath.Abs(repoDir)
	if err != nil {
		return nil, err
	}
	env := append(os.Environ(), "GOFLAGS=-mod=mod", "GOPROXY=off", "GOSUMDB=off", "GOWORK=off", "GOTOOLCHAIN=local")
	cfg := &packages.Config{
		Mode:  packages.LoadAllSyntax,
		Dir:   abs,
		Env:   env,
		Tests: false,
	}
	pkgs, err := packages.Load(cfg, "./...")
	if err != nil {
		return nil, fmt.Errorf("packages.Load: %w", err)
	}
	if len(pkgs) == 0 {
		return nil, fmt.Errorf("no packages loaded from %s", abs)
	}
	var errs []string
	packages.Visit(pkgs, nil, func(p *packages.Package) {
		for _, e := range p.Errors {
			errs = append(errs, e.Error())
		}
	})
	if len(errs) > 0 {
		return nil, fmt.Errorf("type-check errors: %s", strings.Join(errs, "; "))
	}
	prog, spkgs := ssautil.AllPackages(pkgs, ssa.InstantiateGenerics)
	prog.Build()
	p := &Program{
		RepoDir: abs,
		Fset:    pkgs[0].Fset,
		Pkgs:    pkgs,
		ByPath:  map[string]*packages.Package{},
		Prog:    prog,
		SSA:     map[string]*ssa.Package{},
	}
	sort.Slice(p.Pkgs, func(i, j int) bool { return p.Pkgs[i].PkgPath < p.Pkgs[j].PkgPath })
	packages.Visit(pkgs, nil, func(q *packages.Package) { p.ByPath[q.PkgPath] = q })
	for _, sp := range spkgs {
		if sp != nil {
			p.SSA[sp.Pkg.Path()] = sp
		}
	}
	for _, sp := range prog.AllPackages() {
		if _, ok := p.SSA[sp.Pkg.Path()]; !ok {
			p.SSA[sp.Pkg.Path()] = sp
		}
	}
	return p, nil
}

// AllFunctions returns every function of the program (cached).
func (p *Program) AllFunctions() map[*ssa.Function]bool {
	if p.all == nil {
		p.all = ssautil.AllFunctions(p.Prog)
	}
	return p.all
}

// VTA returns the VTA call graph seeded with CHA.
func (p *Program) VTA() *callgraph.Graph {
	if p.cgVTA == nil {
		p.cgVTA = vta.CallGraph(p.AllFunctions(), p.CHA())
	}
	return p.cgVTA
}

func (p *Program) CHA() *callgraph.Graph {
	if p.cgCHA == nil {
		p.cgCHA = cha.CallGraph(p.Prog)
	}
	return p.cgCHA
}

// InModule reports whether fn belongs to a package of the analysed module.
func InModule(fn *ssa.Function) bool {
	if fn == nil {
		return false
	}
	pk := fn.Package()
	if pk == nil {
		if fn.Parent() != nil {
			return InModule(fn.Parent())
		}
		if o := fn.Origin(); o != nil && o != fn {
			return InModule(o)
		}
		// synthetic wrappers (bound methods, thunks): decide by the wrapped object
		if obj := fn.Object(); obj != nil && obj.Pkg() != nil {
			return strings.HasPrefix(obj.Pkg().Path(), ModPath)
		}
		return false
	}
	return strings.HasPrefix(pk.Pkg.Path(), ModPath)
}

// PkgPathOf returns the package path of fn (following parents for closures, origins for instances).
func PkgPathOf(fn *ssa.Function) string {
	for fn != nil {
		if pk := fn.Package(); pk != nil {
			return pk.Pkg.Path()
		}
		if fn.Parent() != nil {
			fn = fn.Parent()
			continue
		}
		if o := fn.Origin(); o != nil && o != fn {
			fn = o
			continue
		}
		break
	}
	return ""
}

// ModuleFunctions returns all source functions (incl. closures and methods) of the given module package paths
// (all module packages if none given), sorted by name.
func (p *Program) ModuleFunctions(pkgPaths ...string) []*ssa.Function {
	want := map[string]bool{}
	for _, pp := range pkgPaths {
		want[pp] = true
	}
	var out []*ssa.Function
	for fn := range p.AllFunctions() {
		if fn.Synthetic != "" && !strings.HasPrefix(fn.Synthetic, "instance of") {
			continue
		}
		if fn.Blocks == nil {
			continue
		}
		pp := PkgPathOf(fn)
		if !strings.HasPrefix(pp, ModPath) {
			continue
		}
		if len(want) > 0 && !want[pp] {
			continue
		}
		out = append(out, fn)
	}
	sort.Slice(out, func(i, j int) bool { return FuncKey(out[i]) < FuncKey(out[j]) })
	return out
}

// FuncKey is a stable, position-free name for a function: pkg-relative path + receiver + name (+$n for closures).
func FuncKey(fn *ssa.Function) string {
	if fn == nil {
		return "<nil>"
	}
	s := fn.String()
	s = strings.ReplaceAll(s, ModPath+"/", "")
	return s
}

// Func looks up a package-level function or method ("(*T).M" / "T.M" / "F") in a module package.
func (p *Program) Func(pkgPath, name string) *ssa.Function {
	sp := p.SSA[pkgPath]
	if sp == nil {
		return nil
	}
	if strings.HasPrefix(name, "(") || strings.Contains(name, ".") {
		// method: "(*T).M" or "T.M"
		ptr := false
		n := name
		if strings.HasPrefix(n, "(*") {
			ptr = true
			n = strings.TrimPrefix(n, "(*")
			n = strings.Replace(n, ")", "", 1)
		}
		parts := strings.SplitN(n, ".", 2)
		if len(parts) != 2 {
			return nil
		}
		tn, _ := sp.Pkg.Scope().Lookup(parts[0]).(*types.TypeName)
		if tn == nil {
			return nil
		}
		var T types.Type = tn.Type()
		if ptr {
			T = types.NewPointer(T)
		}
		sel := p.Prog.MethodSets.MethodSet(T).Lookup(sp.Pkg, parts[1])
		if sel == nil {
			return nil
		}
		return p.Prog.MethodValue(sel)
	}
	return sp.Func(name)
}

// Pos renders a position relative to the repository root.
func (p *Program) Pos(pos token.Pos) string {
	if !pos.IsValid() {
		return "-"
	}
	ps := p.Fset.Position(pos)
	rel, err := filepath.Rel(p.RepoDir, ps.Filename)
	if err != nil || strings.HasPrefix(rel, "..") {
		rel = ps.Filename
	}
	return fmt.Sprintf("%s:%d", rel, ps.Line)
}

// FuncPos returns a position for fn, falling back to its first positioned instruction.
func (p *Program) FuncPos(fn *ssa.Function) string {
	if fn.Pos().IsValid() {
		return p.Pos(fn.Pos())
	}
	for _, b := range fn.Blocks {
		for _, in := range b.Instrs {
			if in.Pos().IsValid() {
				return p.Pos(in.Pos())
			}
		}
	}
	return "-"
}
