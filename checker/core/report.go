package core

import (
	"bufio"
	"encoding/json"
	"fmt"
	"os"
	"path/filepath"
	"sort"
	"strings"
	"time"
)

type Status int

const (
	OK Status = iota
	Violated
	Undecided
	Info
)

func (s Status) String() string {
	switch s {
	case OK:
		return "discharged"
	case Violated:
		return "VIOLATED"
	case Undecided:
		return "undecided"
	default:
		return "info"
	}
}

// Obligation is one instance of one rule on one construct.  Rule+Construct+What is the stable key
// (no positions, no line numbers) used for known-finding matching.
type Obligation struct {
	Rule      string `json:"rule"`
	Construct string `json:"construct"`
	What      string `json:"what,omitempty"`
	Status    Status `json:"-"`
	StatusStr string `json:"status"`
	Pos       string `json:"pos,omitempty"`
	Detail    string `json:"detail,omitempty"`
	Witness   string `json:"witness,omitempty"`
}

func (o *Obligation) Key() string {
	k := o.Rule + "|" + o.Construct
	if o.What != "" {
		k += "|" + o.What
	}
	return k
}

// Report accumulates what one check run analysed.
type Report struct {
	Prop        string
	Tier        string
	Obls        []*Obligation
	Counts      map[string]int // rule-instance counters, e.g. "S1.attachment_sites"
	Minima      map[string]int // frozen minima for the counters
	Funcs       map[string]bool
	Assumptions []string
	NotDecided  []string
	Rules       []string // human description of the rules applied
	Evals       int      // instance-level evaluations behind the (aggregated) obligations
	samples     []any
	seenKey     map[string]bool
	// PremiseMode: Undecide is recorded as a note (set while a property runs an analysis borrowed as a premise)
	PremiseMode bool
	// PremiseKeep says which violations of a borrowed analysis still count in premise mode
	PremiseKeep func(rule, what, detail string) bool
}

func NewReport(prop, tier string) *Report {
	return &Report{Prop: prop, Tier: tier, Counts: map[string]int{}, Minima: map[string]int{}, Funcs: map[string]bool{}, seenKey: map[string]bool{}}
}

func (r *Report) add(o *Obligation) *Obligation {
	o.StatusStr = o.Status.String()
	// identical keys with identical status are merged (same construct reached through several instances)
	k := o.Key() + "#" + o.StatusStr
	if o.Status != OK && r.seenKey[k] {
		return o
	}
	r.seenKey[k] = true
	r.Obls = append(r.Obls, o)
	return o
}

func (r *Report) Pass(rule, construct, what, pos, detail string) {
	r.add(&Obligation{Rule: rule, Construct: construct, What: what, Status: OK, Pos: pos, Detail: detail})
}

func (r *Report) Violate(rule, construct, what, pos, detail, witness string) {
	if r.PremiseMode && !r.PremiseKeep(rule, what, detail) {
		// the borrowed whole-program dataflow analyses are conservative about aliasing through parameters; outside
		// their home properties (C10, C20) only their alias-independent findings count
		r.add(&Obligation{Rule: rule, Construct: construct, What: what, Status: Info, Pos: pos, Detail: "reported by the borrowed analysis, decided in its home properties C10/C20: " + detail})
		return
	}
	r.add(&Obligation{Rule: rule, Construct: construct, What: what, Status: Violated, Pos: pos, Detail: detail, Witness: witness})
}

func (r *Report) Undecide(rule, construct, what, pos, detail string) {
	if r.PremiseMode {
		// a whole-program premise analysis that could not classify a construct does not make the property that
		// borrows it undecided (its home properties run it in full); it is recorded
		r.add(&Obligation{Rule: rule, Construct: construct, What: what, Status: Info, Pos: pos, Detail: "premise not established for this construct (undecided in the borrowed analysis): " + detail})
		return
	}
	r.add(&Obligation{Rule: rule, Construct: construct, What: what, Status: Undecided, Pos: pos, Detail: detail})
}

func (r *Report) Note(rule, construct, what, pos, detail string) {
	r.add(&Obligation{Rule: rule, Construct: construct, What: what, Status: Info, Pos: pos, Detail: detail})
}

func (r *Report) Count(name string, n int) { r.Counts[name] += n }

// Min freezes the minimum instance count for a counter; checked at the end of the run.
func (r *Report) Min(name string, n int) {
	if n > r.Minima[name] {
		r.Minima[name] = n
	}
}

func (r *Report) Func(name string) { r.Funcs[name] = true }

func (r *Report) Sample(s any) {
	if len(r.samples) < 40 {
		r.samples = append(r.samples, s)
	}
}

func (r *Report) Assume(s string) {
	for _, a := range r.Assumptions {
		if a == s {
			return
		}
	}
	r.Assumptions = append(r.Assumptions, s)
}

func (r *Report) Rule(s string) {
	for _, a := range r.Rules {
		if a == s {
			return
		}
	}
	r.Rules = append(r.Rules, s)
}

func (r *Report) NotDecide(s string) {
	for _, a := range r.NotDecided {
		if a == s {
			return
		}
	}
	r.NotDecided = append(r.NotDecided, s)
}

/* ---------------- known findings ---------------- */

type KnownFinding struct {
	Kind     string `json:"kind"` // "finding" | "fixed"
	Property string `json:"property"`
	Key      string `json:"key"`  // Rule|Construct|What
	What     string `json:"what"` // human description incl. the failing input
	Commit   string `json:"commit,omitempty"`
}

func LoadKnownFindings(path string) ([]KnownFinding, error) {
	f, err := os.Open(path)
	if err != nil {
		if os.IsNotExist(err) {
			return nil, nil
		}
		return nil, err
	}
	defer f.Close()
	var out []KnownFinding
	sc := bufio.NewScanner(f)
	sc.Buffer(make([]byte, 1<<20), 1<<20)
	for sc.Scan() {
		line := strings.TrimSpace(sc.Text())
		if line == "" || strings.HasPrefix(line, "#") || strings.HasPrefix(line, "fixed:") {
			continue // "fixed:" lines document repaired defects and suppress nothing
		}
		var k KnownFinding
		if err := json.Unmarshal([]byte(line), &k); err != nil {
			return nil, fmt.Errorf("known findings: %w", err)
		}
		out = append(out, k)
	}
	return out, sc.Err()
}

/* ---------------- finishing a run ---------------- */

// Finish prints the verdict lines, writes replay files and the evidence file, and returns the exit code.
func (r *Report) Finish(verifDir string, known []KnownFinding, seed int64, start time.Time, loadErr error) int {
	evPath := filepath.Join(verifDir, "evidence", r.Prop+".json")
	_ = os.MkdirAll(filepath.Dir(evPath), 0o755)

	var undec []string
	if loadErr != nil {
		undec = append(undec, "loader: "+loadErr.Error())
	}
	// frozen minima
	var mins []string
	for k := range r.Minima {
		mins = append(mins, k)
	}
	sort.Strings(mins)
	for _, k := range mins {
		if r.Counts[k] < r.Minima[k] {
			undec = append(undec, fmt.Sprintf("instance count %s=%d below the frozen minimum %d (rule would pass vacuously)", k, r.Counts[k], r.Minima[k]))
		}
	}

	nViol, nKnown, nOK, nUndec := 0, 0, 0, 0
	var knownLines []string
	var violLines []string
	for _, o := range r.Obls {
		switch o.Status {
		case OK:
			nOK++
		case Undecided:
			nUndec++
			undec = append(undec, fmt.Sprintf("%s %s: %s (%s)", o.Key(), o.Pos, o.Detail, "idiom not understood"))
		case Violated:
			matched := false
			for _, k := range known {
				if k.Kind == "finding" && k.Property == r.Prop && k.Key == o.Key() {
					matched = true
					knownLines = append(knownLines, fmt.Sprintf("KNOWN-FINDING: property=%s %s at %s — %s", r.Prop, o.Key(), o.Pos, k.What))
					break
				}
			}
			if matched {
				nKnown++
				continue
			}
			nViol++
			rp := r.writeReplay(verifDir, o, nViol)
			violLines = append(violLines, fmt.Sprintf("VIOLATION property=%s replay=%s", r.Prop, rp))
			fmt.Printf("  violated: [%s] %s — %s", o.Key(), o.Pos, o.Detail)
			if o.Witness != "" {
				fmt.Printf(" — witness: %s", o.Witness)
			}
			fmt.Println()
		}
	}
	for _, l := range knownLines {
		fmt.Println(l)
	}
	for _, l := range violLines {
		fmt.Println(l)
	}
	for _, u := range undec {
		fmt.Printf("UNDECIDED property=%s %s\n", r.Prop, u)
	}

	// evidence
	total := nOK + nViol + nKnown + nUndec
	var funcs []string
	for f := range r.Funcs {
		funcs = append(funcs, f)
	}
	sort.Strings(funcs)
	var oblSamples []any
	oblSamples = append(oblSamples, r.samples...)
	// a few discharged obligations and every non-discharged one as written-out samples
	shown := 0
	for _, o := range r.Obls {
		if o.Status != OK || shown < 25 {
			oblSamples = append(oblSamples, o)
			if o.Status == OK {
				shown++
			}
		}
	}
	if len(oblSamples) == 0 {
		oblSamples = append(oblSamples, "no obligations were generated")
	}
	perRule := map[string]int{}
	distinct := map[string]bool{}
	for _, o := range r.Obls {
		if o.Status == Info {
			continue
		}
		perRule[o.Rule]++
		distinct[o.Key()] = true
	}
	expl := fmt.Sprintf("Static analysis of /repo's current source (go/packages + go/ssa, no repository code executed). "+
		"%d obligations over %d functions; %d discharged, %d violated (%d of them listed known findings), %d undecided. Rules: %s",
		total, len(funcs), nOK, nViol+nKnown, nKnown, nUndec, strings.Join(r.Rules, " || "))
	ev := map[string]any{
		"property_id": r.Prop,
		"tier":        r.Tier,
		"seed":        seed,
		"level":       "other",
		"wall_s":      time.Since(start).Seconds(),
		"violations":  nViol,
		"coverage": map[string]any{
			"explanation":         expl,
			"obligations":         total,
			"discharged":          nOK,
			"evaluations":         maxInt(total+r.Evals, 1),
			"distinct_nontrivial": len(distinct),
			"rule":                "evaluations = instance-level rule evaluations (one per rule, construct and abstract instance/path) plus structural obligations; obligations are aggregated per rule|construct|what key; distinct_nontrivial = number of distinct keys, each naming a construct of /repo resolved through the type checker",
			"obligations_by_rule": perRule,
			"rule_instances":      r.Counts,
			"instance_minima":     r.Minima,
			"functions_analysed":  funcs,
			"samples":             oblSamples,
			"known_findings":      knownLines,
			"undecided":           undec,
			"not_decided_clauses": r.NotDecided,
			"exhaustive":          false,
			"checker_cmd":         fmt.Sprintf("bin/qverif check -prop %s -tier %s", r.Prop, r.Tier),
		},
		"assumptions": append([]string{}, r.Assumptions...),
	}
	b, _ := json.MarshalIndent(ev, "", " ")
	if err := os.WriteFile(evPath, b, 0o644); err != nil {
		fmt.Println("cannot write evidence:", err)
		return 2
	}

	fmt.Printf("property=%s tier=%s obligations=%d discharged=%d violated=%d known=%d undecided=%d wall=%.1fs\n",
		r.Prop, r.Tier, total, nOK, nViol, nKnown, len(undec), time.Since(start).Seconds())
	if nViol > 0 {
		return 1
	}
	if len(undec) > 0 {
		return 2
	}
	return 0
}

func (r *Report) writeReplay(verifDir string, o *Obligation, n int) string {
	dir := filepath.Join(verifDir, "replay")
	_ = os.MkdirAll(dir, 0o755)
	name := fmt.Sprintf("%s_%s_%d.json", r.Prop, sanitize(o.Rule+"_"+o.Construct), n)
	p := filepath.Join(dir, name)
	b, _ := json.MarshalIndent(map[string]any{
		"property":  r.Prop,
		"rule":      o.Rule,
		"construct": o.Construct,
		"what":      o.What,
		"key":       o.Key(),
		"position":  o.Pos,
		"detail":    o.Detail,
		"witness":   o.Witness,
		"how_to_replay": fmt.Sprintf("bin/qverif check -prop %s -tier %s  (re-analyses /repo; the construct above is reported again while the violation is present)",
			r.Prop, r.Tier),
	}, "", " ")
	_ = os.WriteFile(p, b, 0o644)
	return p
}

func sanitize(s string) string {
	var b strings.Builder
	for _, c := range s {
		if c >= 'a' && c <= 'z' || c >= 'A' && c <= 'Z' || c >= '0' && c <= '9' || c == '_' || c == '-' {
			b.WriteRune(c)
		} else {
			b.WriteByte('_')
		}
	}
	out := b.String()
	if len(out) > 80 {
		out = out[:80]
	}
	return out
}

func maxInt(a, b int) int {
	if a > b {
		return a
	}
	return b
}
