// Package checks wires the engines to the 20 properties: which rules and constructs decide which
// property, what stays undecided, and how findings become obligations in the evidence.
package checks

import (
	"fmt"
	"sort"
	"strings"

	"qverif/core"
	"qverif/engine"
	"qverif/spec"
)

type Ctx struct {
	P    *core.Program
	A    *spec.Anchors
	R    *core.Report
	Tier string
	Seed int64
	// premises already run in this check (they are shared by several clauses)
	statelessDone, statelessCompDone bool
	// aliasWrites: the value properties C03-C06 also count S4's parameter-derived write findings inside the data layer
	// (an operation that appends into / stores through an operand's own rows changes values an earlier result shows)
	aliasWrites bool
	premData, premShape              map[string]bool // Tensor methods already re-checked by a premise of this check
	ruleOpsDone                      bool
	thresholdOnly                    bool // RunData enumerates only the size-threshold shapes
	probeResults                     bool // RunData feeds results to Scale / Sum probes
	nonFinite                        bool // labelled instances with infinite elements are included by RunData
}

func (c *Ctx) Bounds() engine.Bounds {
	if c.Tier == "thorough" {
		return engine.ThoroughBounds()
	}
	return engine.QuickBounds()
}

// OpFilter selects which findings/obligations of an operation-engine run belong to a property.
type OpFilter struct {
	Methods []string                          // public operations to instantiate ("" = all)
	Keep    func(rule, construct string) bool // which obligations count for this property
	KeepF   func(f engine.Finding) bool       // optional finer filter on findings
	Only    func(f engine.Finding) bool       // optional: findings that fail it are dropped even if Keep accepts their rule
}

func hasPrefixAny(s string, ps ...string) bool {
	for _, p := range ps {
		if strings.HasPrefix(s, p) {
			return true
		}
	}
	return false
}

// RunOps runs the operation engine on the selected methods and files its obligations into the report.
func RunOps(c *Ctx, f OpFilter) *engine.OpEngine {
	e := engine.NewOpEngine(c.P, c.A)
	b := c.Bounds()
	methods := f.Methods
	if len(methods) == 0 {
		methods = []string{""}
	}
	ninst := 0
	for _, m := range methods {
		calls := e.Instances(m, b)
		ninst += len(calls)
		for i, call := range calls {
			e.RunInstance(call)
			if i < 2 {
				c.R.Sample(map[string]string{"instance": call.Label, "entry": core.FuncKey(call.Fn)})
			}
		}
	}
	fileOps(c, e, f)
	c.R.Count("op.instances", ninst)
	c.R.Count("op.abstract_paths", e.Paths)
	c.R.Count("op.closure_evaluations", e.ClosureRuns)
	c.R.Count("op.vjp_comparisons", e.VJPChecks)
	c.R.Count("op.shape_comparisons", e.ShapeChecks)
	c.R.Count("op.finiteness_checks", e.FinChecks)
	c.R.Count("op.state_checks", e.StateChecks)
	for fn := range e.Funcs {
		c.R.Func(fn)
	}
	for fn := range e.Closures {
		c.R.Func(fn)
	}
	return e
}

func fileOps(c *Ctx, e *engine.OpEngine, f OpFilter) {
	if e.ConcreteFallbacks > 0 {
		c.R.Count("op.instances_decided_on_concrete_sizes", e.ConcreteFallbacks)
		c.R.NotDecide(fmt.Sprintf("%d instance(s) touch element data outside the recognised data layer and were decided on concrete sizes (2 or 3 per dimension) instead of symbolic ones", e.ConcreteFallbacks))
		e.ConcreteFallbacks = 0
	}
	if e.PathBudgetHits > 0 {
		c.R.Count("data.instances_cut_at_path_budget", e.PathBudgetHits)
		c.R.NotDecide(fmt.Sprintf("%d labelled instance(s) branch on element values so often that only their first 160 abstract paths were decided", e.PathBudgetHits))
		e.PathBudgetHits = 0
	}
	bad := map[string]bool{}
	for _, fd := range e.Findings {
		keep := f.Keep == nil || f.Keep(fd.Rule, fd.Construct)
		if f.KeepF != nil && f.KeepF(fd) {
			keep = true
		}
		if f.Only != nil && !f.Only(fd) {
			keep = false
		}
		if fd.Undecided && fd.Rule == "interp" {
			keep = true // code outside the analysed fragment is never silently skipped
		}
		if !keep {
			continue
		}
		bad[fd.Rule+"|"+fd.Construct] = true
		if fd.Undecided {
			c.R.Undecide(fd.Rule, fd.Construct, fd.What, fd.Pos, fd.Detail)
		} else {
			c.R.Violate(fd.Rule, fd.Construct, fd.What, fd.Pos, fd.Detail, fd.Witness)
		}
	}
	keys := make([]string, 0, len(e.Checked))
	for k := range e.Checked {
		keys = append(keys, k)
	}
	sort.Strings(keys)
	for _, k := range keys {
		parts := strings.SplitN(k, "|", 2)
		if f.Keep != nil && !f.Keep(parts[0], parts[1]) {
			continue
		}
		c.R.Evals += e.Checked[k]
		if bad[k] {
			continue
		}
		c.R.Pass(parts[0], parts[1], "", "", fmt.Sprintf("%d instance-level evaluations, all discharged", e.Checked[k]))
	}
}

var opsAssumptions = []string{
	"the specification tables of DESIGN.md Appendix A/B (typing rules, element semantics, VJP table) are the oracle; they were written from the property statements",
	"element data is never inspected: data-layer functions (nested []any fills, folds, generators) are summarised as opaque; which element lands where is NOT decided here",
	"dimension sizes are symbolic: each is the literal 1 or an atom >= 2; ranks and argument forms are enumerated up to the tier's bound",
	"floating-point rounding and overflow beyond the stated magnitudes are ignored; 0·x = 0 is used for finite x and finiteness is tracked separately by the interval domain",
	"go/packages, go/types and go/ssa faithfully represent the source",
}

func addOpsAssumptions(c *Ctx) {
	for _, a := range opsAssumptions {
		c.R.Assume(a)
	}
}
