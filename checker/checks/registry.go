package checks

import (
	"sort"
	"strings"
)

type PropCheck struct {
	ID   string
	Run  func(c *Ctx)
	Desc string
}

var registry = map[string]*PropCheck{}

func register(id, desc string, run func(c *Ctx)) {
	registry[id] = &PropCheck{ID: id, Run: run, Desc: desc}
}

func Lookup(id string) *PropCheck { return registry[id] }

func IDs() []string {
	var out []string
	for k := range registry {
		out = append(out, k)
	}
	sort.Strings(out)
	return out
}

func isBroadcastConstruct(construct string) bool {
	return strings.Contains(construct, "gradtrack.Broadcast→") || strings.HasSuffix(construct, ".Broadcast")
}

var gradRules = []string{"A1.backward", "A2.vjp", "A3.finite", "S1c.edges", "S1b.operands"}

func isGradRule(rule string) bool {
	for _, r := range gradRules {
		if r == rule {
			return true
		}
	}
	return false
}

var differentiableOps = []string{
	"Slice", "Patch", "Transpose", "Reshape", "UnSqueeze", "Squeeze", "Flatten",
	"SumAlong", "MaxAlong", "MinAlong", "AvgAlong", "VarAlong", "StdAlong", "MeanAlong",
	"Scale", "Pow", "Exp", "Log", "Sin", "Cos", "Tan", "Sinh", "Cosh", "Tanh",
	"ElMax", "ElMin", "Add", "Sub", "Mul", "Div", "Dot", "MatMul",
}

func init() {
	register("C02", "each operation's backward rule is its VJP", func(c *Ctx) {
		c.R.Rule("A1.backward: for every accepted forward instance, every backward closure wired by the public method returns without error/panic and with exactly the operand's shape (symbolic sizes, FM-decided)")
		c.R.Rule("A2.vjp: the closure's element expression (abstractly interpreted SSA over spec summaries of the Tensor API) has the same normal form as the operation's vector-Jacobian product; a differing normal form is reported only with a numeric point separating the two formulas")
		c.R.Rule("A3.finite: interval evaluation of the closure on the operand range where the operation is differentiable (incl. Pow exponent 0,1,2 at base 0) is finite")
		c.R.Rule("S1c.edges/S1b.operands: the attached context has exactly one back edge per tensor operand, targeting that operand (through the public Broadcast when expanded)")
		RunOps(c, OpFilter{Methods: append(append([]string{}, differentiableOps...), "Concat"), Keep: func(rule, construct string) bool {
			return isGradRule(rule) && !isBroadcastConstruct(construct)
		}})
		c.R.Min("op.closure_evaluations", 300)
		c.R.Min("op.vjp_comparisons", 300)
		c.R.NotDecide("numeric conditioning; Max/MinAlong at ties; that the forward kernels are the mathematical functions (C03/C05)")
		c.R.NotDecide("ranks above the tier bound (quick: unary<=3, binary<=2(+1 for contractions); thorough: unary<=5, binary<=3)")
		addOpsAssumptions(c)
	})
	register("C07", "gradient of a broadcast operand is the sum over its copies", func(c *Ctx) {
		c.R.Rule("A2.vjp on Broadcast: the closure's element expression equals Σ g over every new leading axis and every expanded unit axis (sum, not mean), for every source/target pattern incl. expansion factor 1")
		c.R.Rule("A1.backward on Broadcast: result has the source's shape and no error path")
		c.R.Rule("S1e: in every implicitly broadcasting operation (Add Sub Mul Div Dot MatMul) each back edge of the result reaches the original operand through a tensor produced by the public Broadcast, so the rule sits on every implicit expansion")
		RunOps(c, OpFilter{Methods: []string{"Broadcast", "Add", "Sub", "Mul", "Div", "Dot", "MatMul"}, Keep: func(rule, construct string) bool {
			if isGradRule(rule) && isBroadcastConstruct(construct) {
				return true
			}
			// routing of implicit expansions: edge-structure rules of the six operations
			return rule == "S1c.edges" || rule == "S1b.operands"
		}})
		c.R.Min("op.closure_evaluations", 200)
		addOpsAssumptions(c)
	})
}
