package checks

import (
	"sort"
	"strings"

	"qverif/engine"
	"qverif/rules"
)

type PropCheck struct {
	ID   string
	Run  func(c *Ctx)
	Desc string
}

var registry = map[string]*PropCheck{}

func register(id, desc string, run func(c *Ctx)) {
	registry[id] = &PropCheck{ID: id, Run: run, Desc: desc}
}

func Lookup(id string) *PropCheck { return registry[id] }

func IDs() []string {
	var out []string
	for k := range registry {
		out = append(out, k)
	}
	sort.Strings(out)
	return out
}

func isBroadcastConstruct(construct string) bool {
	return strings.Contains(construct, "gradtrack.Broadcast→") || strings.HasSuffix(construct, ".Broadcast")
}

var gradRules = []string{"A1.backward", "A2.vjp", "A3.finite", "S1c.edges", "S1b.operands"}

func isGradRule(rule string) bool {
	for _, r := range gradRules {
		if r == rule {
			return true
		}
	}
	return false
}

var differentiableOps = []string{
	"Slice", "Patch", "Transpose", "Reshape", "UnSqueeze", "Squeeze", "Flatten",
	"SumAlong", "MaxAlong", "MinAlong", "AvgAlong", "VarAlong", "StdAlong", "MeanAlong",
	"Scale", "Pow", "Exp", "Log", "Sin", "Cos", "Tan", "Sinh", "Cosh", "Tanh",
	"ElMax", "ElMin", "Add", "Sub", "Mul", "Div", "Dot", "MatMul",
}

func init() {
	register("C02", "each operation's backward rule is its VJP", func(c *Ctx) {
		c.R.Rule("A1.backward: for every accepted forward instance, every backward closure wired by the public method returns without error/panic and with exactly the operand's shape (symbolic sizes, FM-decided)")
		c.R.Rule("A2.vjp: the closure's element expression (abstractly interpreted SSA over spec summaries of the Tensor API) has the same normal form as the operation's vector-Jacobian product; a differing normal form is reported only with a numeric point separating the two formulas")
		c.R.Rule("A3.finite: interval evaluation of the closure on the operand range where the operation is differentiable (incl. Pow exponent 0,1,2 at base 0) is finite")
		c.R.Rule("S1c.edges/S1b.operands: the attached context has exactly one back edge per tensor operand, targeting that operand (through the public Broadcast when expanded)")
		RunOps(c, OpFilter{Methods: append(append([]string{}, differentiableOps...), "Concat"), Keep: func(rule, construct string) bool {
			return isGradRule(rule) && !isBroadcastConstruct(construct)
		}})
		c.R.Rule("tracked subsets: for multi-operand operations every subset of tracked operands is instantiated; an untracked operand may have no back edge, a tracked one exactly one")
		c.R.Min("op.closure_evaluations", 300)
		c.R.Min("op.vjp_comparisons", 300)
		c.R.NotDecide("numeric conditioning; Max/MinAlong at ties; that the forward kernels are the mathematical functions (C03/C05)")
		c.R.NotDecide("ranks above the tier bound (quick: unary<=3, binary<=2(+1 for contractions); thorough: unary<=5, binary<=3)")
		addOpsAssumptions(c)
	})
	register("C07", "gradient of a broadcast operand is the sum over its copies", func(c *Ctx) {
		c.R.Rule("A2.vjp on Broadcast: the closure's element expression equals Σ g over every new leading axis and every expanded unit axis (sum, not mean), for every source/target pattern incl. expansion factor 1")
		c.R.Rule("A1.backward on Broadcast: result has the source's shape and no error path")
		c.R.Rule("S1e: in every implicitly broadcasting operation (Add Sub Mul Div Dot MatMul) each back edge of the result reaches the original operand through a tensor produced by the public Broadcast, so the rule sits on every implicit expansion")
		RunOps(c, OpFilter{Methods: []string{"Broadcast", "Add", "Sub", "Mul", "Div", "Dot", "MatMul"}, Keep: func(rule, construct string) bool {
			if isGradRule(rule) && isBroadcastConstruct(construct) {
				return true
			}
			// routing of implicit expansions: edge-structure rules of the six operations
			return rule == "S1c.edges" || rule == "S1b.operands"
		}, KeepF: func(f engine.Finding) bool {
			// any gradient failure of an implicitly expanding instance (e.g. an expansion that bypasses the public Broadcast)
			return f.Expanding && isGradRule(f.Rule)
		}})
		c.R.Min("op.closure_evaluations", 200)
		addOpsAssumptions(c)
	})
}

func init() {
	register("C01", "back-propagation yields the total derivative on any DAG; bounded work", func(c *Ctx) {
		rules.S2Walk(c.P, c.A, c.R)
		c.R.Rule("C01.total: the real BackPropagate is abstractly interpreted on enumerated DAG templates (every program of <=k point-wise steps over 1-2 leaves, hand-picked diamonds/ladders/fan-outs/multi-root templates, seeded random deeper ones); each tracked leaf's accumulated gradient expression must equal the symbolic derivative of the root's composite forward expression; untracked/unrelated tensors get none")
		c.R.Rule("C01.bounded: on each template the number of backward-rule applications is at most 1 + the number of back edges to tracked tensors")
		e := engine.NewOpEngine(c.P, c.A)
		st := &engine.WalkStats{}
		progs := engine.TemplatePrograms()
		k := 2
		nrand := 60
		if c.Tier == "thorough" {
			k, nrand = 3, 600
		}
		for kk := 1; kk <= k; kk++ {
			progs = append(progs, engine.EnumeratePrograms([]bool{true}, kk)...)
			if kk <= 2 {
				progs = append(progs, engine.EnumeratePrograms([]bool{true, false}, kk)...)
				progs = append(progs, engine.EnumeratePrograms([]bool{true, true}, kk)...)
			}
		}
		progs = append(progs, engine.RandomPrograms(c.Seed+1, nrand, 4, 8)...)
		for i, pr := range progs {
			e.RunProgram(pr, st)
			if i < 3 || (i > 20 && i < 23) {
				c.R.Sample(map[string]string{"program": pr.String()})
			}
		}
		fileOps(c, e, OpFilter{Keep: func(rule, construct string) bool {
			return strings.HasPrefix(rule, "C01.") || rule == "interp" || rule == "S6.panic"
		}})
		c.R.Count("walk.programs", st.Programs)
		c.R.Count("walk.leaf_gradient_comparisons", st.GradChecks)
		c.R.Count("walk.rule_applications_interpreted", st.ClosureRuns)
		c.R.Min("walk.programs", 200)
		c.R.Min("walk.leaf_gradient_comparisons", 200)
		for fn := range e.Funcs {
			c.R.Func(fn)
		}
		c.R.NotDecide("DAGs outside the enumerated templates (the structural rules S2a-d hold for all graphs; value equality is established per template)")
		c.R.NotDecide("operations other than Scale/Exp/Add/Mul inside the templates (their local rules are C02)")
		addOpsAssumptions(c)
	})
	register("C08", "tracking propagates, isolates and retires as specified", func(c *Ctx) {
		c.R.Rule("C08.state: for every public operation and every combination of (tracked, spent) flags of its operands, the attached context is: spent+untracked if any operand is spent; else tracked iff some operand is tracked (never for comparisons); fresh results carry no gradient; untracked results carry no back edges")
		c.R.Rule("S1a: no public operation returns a tensor without a gradient context; S1c: a tracked result has exactly one back edge per tensor operand")
		c.R.Rule("C08.bp: interpreting the real BackPropagate on DAG templates, exactly the root and the tracked tensors it was computed from end spent and with a gradient; gradients are untracked; nothing else is touched; an untracked root changes nothing")
		c.R.Rule("C08.reset: ResetGradContext(b) on a tensor in any state yields tracked=b, not spent, no gradient, no edges")
		c.R.Rule("S3: field-write ownership of GradContext / CPUTensor fields; the data layer never reads gctx (tracking cannot change forward values)")
		e := engine.NewOpEngine(c.P, c.A)
		calls := e.FlagInstances()
		for i, call := range calls {
			e.RunInstance(call)
			if i%97 == 0 {
				c.R.Sample(map[string]string{"instance": call.Label})
			}
		}
		e.RunResetChecks()
		st := &engine.WalkStats{}
		progs := engine.TemplatePrograms()
		progs = append(progs, engine.EnumeratePrograms([]bool{true, false}, 1)...)
		progs = append(progs, engine.EnumeratePrograms([]bool{true, false}, 2)...)
		progs = append(progs, engine.EnumeratePrograms([]bool{false}, 1)...)
		if c.Tier == "thorough" {
			progs = append(progs, engine.EnumeratePrograms([]bool{true, true}, 2)...)
			progs = append(progs, engine.RandomPrograms(c.Seed+7, 300, 3, 7)...)
		}
		for _, pr := range progs {
			e.RunProgram(pr, st)
		}
		fileOps(c, e, OpFilter{Keep: func(rule, construct string) bool {
			return strings.HasPrefix(rule, "C08.") || rule == "S1a.gctx" || rule == "S1c.edges" || rule == "interp" || rule == "S6.panic"
		}})
		rules.S3Ownership(c.P, c.A, c.R)
		c.R.Count("flags.instances", len(calls))
		c.R.Count("walk.programs", st.Programs)
		c.R.Count("walk.state_checks", st.StateChecks)
		c.R.Count("op.state_checks", e.StateChecks)
		c.R.Min("flags.instances", 400)
		c.R.Min("op.state_checks", 400)
		for fn := range e.Funcs {
			c.R.Func(fn)
		}
		c.R.NotDecide("provisos (a),(b) of the quantifier are preconditions on the caller and are not checked")
		addOpsAssumptions(c)
	})
}

func componentKeep(rule, construct string) bool { return true }

func init() {
	register("C12", "loss functions return the defined scalar", func(c *Ctx) {
		c.R.Rule("A2.formula: the real Compute methods are interpreted over abstract tensors (Tensor API summarised by the spec); the scalar's element expression must have the normal form of the definition: MSE mean((p-t)^2); BCE mean(-(t'log p' + (1-t')log(1-p'))); CE mean_b(-Σ_c t' log p'), with t' clipped to [0,1] and p' to [1e-12, 1-1e-12]")
		c.R.Rule("A1.shape: result is rank 0 for every batch/class size (1 or symbolic); A3: interval evaluation over predictions/targets in [-1e6,1e6] is finite and non-negative")
		c.R.Rule("A4.pre: nil inputs, wrong ranks and mismatched sizes are rejected with an error, never a panic; tracked and untracked inputs give the same expression")
		c.R.Rule("S3.gctx-read: no function of the tensor implementation reads a gradient context outside the two public accessors, so loss values cannot depend on tracking")
		rules.S3Reads(c.P, c.A, c.R)
		e := engine.NewOpEngine(c.P, c.A)
		e.RunLossChecks()
		fileOps(c, e, OpFilter{Keep: componentKeep})
		c.R.Count("component.abstract_paths", e.Paths)
		c.R.Min("component.abstract_paths", 30)
		for fn := range e.Funcs {
			c.R.Func(fn)
		}
		c.R.NotDecide("floating-point rounding; magnitudes beyond 1e6")
		addOpsAssumptions(c)
	})
}

func componentCheck(run func(e *engine.OpEngine, c *Ctx), minPaths int) func(c *Ctx) {
	return func(c *Ctx) {
		e := engine.NewOpEngine(c.P, c.A)
		run(e, c)
		fileOps(c, e, OpFilter{Keep: componentKeep})
		c.R.Count("component.abstract_paths", e.Paths)
		c.R.Min("component.abstract_paths", minPaths)
		for fn := range e.Funcs {
			c.R.Func(fn)
		}
		addOpsAssumptions(c)
	}
}

func init() {
	register("C14", "activations compute their defining function", componentCheck(func(e *engine.OpEngine, c *Ctx) {
		c.R.Rule("A2.formula: Forward of each activation, interpreted over abstract tensors, has the normal form of its definition (Relu max(0,x); LeakyRelu max(0,x)+m·min(0,x) for symbolic m, the nil-config default 0.01 and constants 0, -0.5, 1, 1.5; Sigmoid 1/(1+e^-x); Tanh; Softmax e^x/Σ_dim e^x for EVERY dim < rank)")
		c.R.Rule("A1.shape: the result has the input's shape for ranks 0..bound and every unit/non-unit pattern; Softmax: Σ along Dim of the result normalises to exactly 1, result interval non-negative; rank <= Dim and negative Dim are rejected")
		c.R.Rule("A4.pre: no input / two inputs / nil input are rejected with an error, never a panic")
		r := 3
		if c.Tier == "thorough" {
			r = 5
		}
		e.RunActivationChecks(r)
		c.R.NotDecide("overflow of e^x for |x| > 700; floating-point rounding")
	}, 60))
	register("C17", "SGD update subtracts learning-rate times gradient", componentCheck(func(e *engine.OpEngine, c *Ctx) {
		c.R.Rule("A2.formula: after Update the tensor behind the pointer has element expression w - lr·g (lr symbolic, nil-config default 0.01, 0 and negative), same shape, ranks 0..bound")
		c.R.Rule("C10.mutation/C17.replaced: Update stores only through the given pointer; the previous tensor object and its gradient are not written")
		c.R.Rule("S7: nil pointer, nil tensor and missing gradient return an error and replace nothing")
		r := 3
		if c.Tier == "thorough" {
			r = 5
		}
		e.RunSGDChecks(r)
	}, 30))
	register("C19", "accuracy equals matched over total", componentCheck(func(e *engine.OpEngine, c *Ctx) {
		c.R.Rule("A2.formula: after any sequence of accepted batches (symbolic sizes) total = Σ sizes, correct = Σ_batches Σ_i [|p_i - t_i| <= τ], Result = correct/total and 0 before any batch: additive updates make the value independent of the partition")
		c.R.Rule("S7: rejected calls (nil, wrong rank, mismatched lengths), also interleaved between accepted ones, leave both counters unchanged")
		e.RunAccuracyChecks()
		c.R.NotDecide("0 <= correct <= total relies on the Eq mask being 0/1 (C03)")
	}, 10))
	register("C16", "FC layer is an affine map with live parameters (forward, pointers, validation)", componentCheck(func(e *engine.OpEngine, c *Ctx) {
		c.R.Rule("A2.formula: Forward, interpreted with W, B replaced through the Weights() pointers by non-uniform leaves, yields y[b][o] = W[o]·Σ_d x[b][d] + B[o] with shape [batch, Outputs] for symbolic and unit batch/feature/output sizes")
		c.R.Rule("S12: Weights() returns pointers to the layer's own Weight and Bias fields (replacements reach the next Forward), both trainable")
		c.R.Rule("A4.pre / A1.shape: default initialisation gives tracked parameters of shape [Outputs]; invalid configs and inputs are rejected with an error")
		e.RunFCChecks()
		c.R.NotDecide("gradients of W, B, x: compositional (C01, C02, C07); the weight gradient inherits known finding D2 (Broadcast backward averages)")
	}, 10))
}
