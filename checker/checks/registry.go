package checks

import (
	"fmt"
	"qverif/interp"
	"sort"
	"strings"
	"time"

	"qverif/core"
	"qverif/engine"
	"qverif/rules"
)

type PropCheck struct {
	ID   string
	Run  func(c *Ctx)
	Desc string
}

var registry = map[string]*PropCheck{}

func register(id, desc string, run func(c *Ctx)) {
	registry[id] = &PropCheck{ID: id, Run: run, Desc: desc}
}

func Lookup(id string) *PropCheck { return registry[id] }

func IDs() []string {
	var out []string
	for k := range registry {
		out = append(out, k)
	}
	sort.Strings(out)
	return out
}

func isBroadcastConstruct(construct string) bool {
	return strings.Contains(construct, "gradtrack.Broadcast→") || strings.HasSuffix(construct, ".Broadcast")
}

// C08.state belongs here too: a result that is untracked although an operand is tracked gives that operand no gradient
var gradRules = []string{"A1.backward", "A2.vjp", "A3.finite", "S1c.edges", "S1b.operands", "C08.state"}

func isGradRule(rule string) bool {
	for _, r := range gradRules {
		if r == rule {
			return true
		}
	}
	return false
}

var differentiableOps = []string{
	"Slice", "Patch", "Transpose", "Reshape", "UnSqueeze", "Squeeze", "Flatten",
	"SumAlong", "MaxAlong", "MinAlong", "AvgAlong", "VarAlong", "StdAlong", "MeanAlong",
	"Scale", "Pow", "Exp", "Log", "Sin", "Cos", "Tan", "Sinh", "Cosh", "Tanh",
	"ElMax", "ElMin", "Add", "Sub", "Mul", "Div", "Dot", "MatMul",
}

func init() {
	register("C02", "each operation's backward rule is its VJP", func(c *Ctx) {
		c.R.Rule("A1.backward: for every accepted forward instance, every backward closure wired by the public method returns without error/panic and with exactly the operand's shape (symbolic sizes, FM-decided)")
		c.R.Rule("A2.vjp: the closure's element expression (abstractly interpreted SSA over spec summaries of the Tensor API) has the same normal form as the operation's vector-Jacobian product; a differing normal form is reported only with a numeric point separating the two formulas")
		c.R.Rule("A3.finite: interval evaluation of the closure on the operand range where the operation is differentiable (incl. Pow exponent 0,1,2 at base 0) is finite")
		c.R.Rule("S1c.edges/S1b.operands: the attached context has exactly one back edge per tensor operand, targeting that operand (through the public Broadcast when expanded)")
		RunOps(c, OpFilter{Methods: append(append([]string{}, differentiableOps...), "Concat"), Keep: func(rule, construct string) bool {
			return isGradRule(rule) && !isBroadcastConstruct(construct)
		}})
		c.R.Rule("S10.tolerance: the absolute equality tolerance extracted from the interpreted Eq kernel (which the selection rules of ElMax/ElMin/MaxAlong/MinAlong use to find the selected element) is below 2^-52, so distinct operands of ordinary magnitude are never a tie")
		{
			e := engine.NewOpEngine(c.P, c.A)
			e.RunUnitToleranceCheck("cputensor.(*CPUTensor).Eq/tolerance")
			fileOps(c, e, OpFilter{Keep: func(rule, construct string) bool { return rule == "S10.tolerance" }})
		}
		c.R.Rule("tracked subsets: for multi-operand operations every subset of tracked operands is instantiated; an untracked operand may have no back edge, a tracked one exactly one")
		c.R.Min("op.closure_evaluations", 300)
		c.R.Min("op.vjp_comparisons", 300)
		c.R.NotDecide("numeric conditioning; Max/MinAlong at ties; that the forward kernels are the mathematical functions (C03/C05)")
		c.R.NotDecide("ranks above the tier bound (quick: unary<=3, binary<=2(+1 for contractions); thorough: unary<=5, binary<=3)")
		statelessPremise(c, false)
		premiseRuleOps(c)
		// "every subset of tracked operands": an untracked operand that an earlier back-propagation passed by must still
		// be usable as a constant — the walk spends tracked ancestors of the root only (C08.bp on the DAG templates)
		premiseWalk(c)
		addOpsAssumptions(c)
	})
	register("C07", "gradient of a broadcast operand is the sum over its copies", func(c *Ctx) {
		c.R.Rule("A2.vjp on Broadcast: the closure's element expression equals Σ g over every new leading axis and every expanded unit axis (sum, not mean), for every source/target pattern incl. expansion factor 1")
		c.R.Rule("A1.backward on Broadcast: result has the source's shape and no error path")
		c.R.Rule("S1e: in every implicitly broadcasting operation (Add Sub Mul Div Dot MatMul) each back edge of the result reaches the original operand through a tensor produced by the public Broadcast, so the rule sits on every implicit expansion")
		RunOps(c, OpFilter{Methods: []string{"Broadcast", "Add", "Sub", "Mul", "Div", "Dot", "MatMul"}, Keep: func(rule, construct string) bool {
			if isGradRule(rule) && isBroadcastConstruct(construct) {
				return true
			}
			// routing of implicit expansions: edge-structure rules of the six operations
			return rule == "S1c.edges" || rule == "S1b.operands"
		}, KeepF: func(f engine.Finding) bool {
			// any gradient failure of an implicitly expanding instance (e.g. an expansion that bypasses the public Broadcast)
			return f.Expanding && isGradRule(f.Rule)
		}})
		c.R.Min("op.closure_evaluations", 200)
		statelessPremise(c, false)
		// the reducers / reshapes the Broadcast rule is composed of meet their element specification
		// "all upstream gradients": an infinite upstream gradient summed over the copies stays that infinity
		c.nonFinite = true
		premiseOps(c, core.PkgGrad, "Broadcast")
		c.nonFinite = false
		// MatMul / Dot expand a batch implicitly and their backward rules are MatMul / Dot products again: the sum over
		// the copies is only the defined one if the contraction kernels meet their element specification (incl. at
		// non-finite upstream gradients: 0·Inf is NaN, a skipped term changes the class of the sum)
		premiseOps(c, core.PkgGrad, "MatMul", "Dot")
		premiseWalk(c)
		addOpsAssumptions(c)
	})
}

func init() {
	register("C01", "back-propagation yields the total derivative on any DAG; bounded work", func(c *Ctx) {
		rules.S2Walk(c.P, c.A, c.R)
		c.R.Rule("C01.total: the real BackPropagate is abstractly interpreted on enumerated DAG templates (every program of <=k point-wise steps over 1-2 leaves, hand-picked diamonds/ladders/fan-outs/multi-root templates, seeded random deeper ones); each tracked leaf's accumulated gradient expression must equal the symbolic derivative of the root's composite forward expression; untracked/unrelated tensors get none")
		c.R.Rule("C01.bounded: on each template the number of backward-rule applications is at most 1 + the number of back edges to tracked tensors")
		e := engine.NewOpEngine(c.P, c.A)
		st := &engine.WalkStats{}
		progs := engine.TemplatePrograms()
		k := 2
		nrand, hi := 60, 8
		if c.Tier == "thorough" {
			k, nrand, hi = 3, 3000, 12
		}
		for kk := 1; kk <= k; kk++ {
			progs = append(progs, engine.EnumeratePrograms([]bool{true}, kk)...)
			progs = append(progs, engine.EnumeratePrograms([]bool{true, false}, kk)...)
			if kk <= 2 {
				progs = append(progs, engine.EnumeratePrograms([]bool{true, true}, kk)...)
			}
		}
		progs = append(progs, engine.RandomPrograms(c.Seed+1, nrand, 4, hi)...)
		for i, pr := range progs {
			e.RunProgram(pr, st)
			if i < 3 || (i > 20 && i < 23) {
				c.R.Sample(map[string]string{"program": pr.String()})
			}
		}
		fileOps(c, e, OpFilter{Keep: func(rule, construct string) bool {
			return strings.HasPrefix(rule, "C01.") || rule == "interp" || rule == "S6.panic"
		}, KeepF: untrackedUntouched})
		c.R.Rule("local rules (premise of the total derivative): the C02 obligations A1/A2/A3/S1c for every differentiable operation are re-run here — a correct walk over wrong local rules is not the total derivative")
		RunOps(c, OpFilter{Methods: append(append([]string{}, differentiableOps...), "Concat"), Keep: func(rule, construct string) bool {
			return isGradRule(rule) && !isBroadcastConstruct(construct)
		}})
		c.R.Count("walk.programs", st.Programs)
		c.R.Count("walk.leaf_gradient_comparisons", st.GradChecks)
		c.R.Count("walk.rule_applications_interpreted", st.ClosureRuns)
		c.R.Min("walk.programs", 200)
		c.R.Min("walk.leaf_gradient_comparisons", 200)
		for fn := range e.Funcs {
			c.R.Func(fn)
		}
		c.R.NotDecide("DAGs outside the enumerated templates (the structural rules S2a-d hold for all graphs; value equality is established per template)")
		c.R.NotDecide("operations other than Scale/Exp/Add/Mul inside the templates (their local rules are C02)")
		statelessPremise(c, false)
		unitTolerance(c)
		addOpsAssumptions(c)
	})
	register("C08", "tracking propagates, isolates and retires as specified", func(c *Ctx) {
		c.R.Rule("C08.state: for every public operation and every combination of (tracked, spent) flags of its operands, the attached context is: spent+untracked if any operand is spent; else tracked iff some operand is tracked (never for comparisons); fresh results carry no gradient; untracked results carry no back edges")
		c.R.Rule("S1a: no public operation returns a tensor without a gradient context; S1c: a tracked result has exactly one back edge per tensor operand")
		c.R.Rule("C08.bp: interpreting the real BackPropagate on DAG templates, exactly the root and the tracked tensors it was computed from end spent and with a gradient; gradients are untracked; nothing else is touched; an untracked root changes nothing")
		c.R.Rule("C08.reset: ResetGradContext(b) on a tensor in any state yields tracked=b, not spent, no gradient, no edges")
		c.R.Rule("S3: field-write ownership of GradContext / CPUTensor fields; the data layer never reads gctx (tracking cannot change forward values)")
		e := engine.NewOpEngine(c.P, c.A)
		calls := e.FlagInstances()
		for i, call := range calls {
			e.RunInstance(call)
			if i%97 == 0 {
				c.R.Sample(map[string]string{"instance": call.Label})
			}
		}
		e.RunResetChecks()
		st := &engine.WalkStats{}
		progs := engine.TemplatePrograms()
		progs = append(progs, engine.EnumeratePrograms([]bool{true, false}, 1)...)
		progs = append(progs, engine.EnumeratePrograms([]bool{true, false}, 2)...)
		progs = append(progs, engine.EnumeratePrograms([]bool{false}, 1)...)
		if c.Tier == "thorough" {
			progs = append(progs, engine.EnumeratePrograms([]bool{true, true}, 2)...)
			progs = append(progs, engine.RandomPrograms(c.Seed+7, 300, 3, 7)...)
		}
		for _, pr := range progs {
			e.RunProgram(pr, st)
		}
		fileOps(c, e, OpFilter{Keep: func(rule, construct string) bool {
			return strings.HasPrefix(rule, "C08.") || rule == "S1a.gctx" || rule == "S1c.edges" || rule == "interp" || rule == "S6.panic"
		}, KeepF: func(f engine.Finding) bool {
			// a back-propagation that fails, panics or leaves a tracked tensor of the graph without a gradient has
			// not "retired" the graph as specified
			return f.Rule == "C01.total" && (f.What == "error" || strings.HasPrefix(f.What, "panic:") || strings.HasPrefix(f.What, "missing-gradient"))
		}})
		c.R.Rule("S1c/S1a/C08.state over the symbolic-argument instances of every operation (all shapes, exponents, dims, indexes of the shape engine): a tracked result has exactly one back edge per tracked operand whatever the argument values (e.g. Pow with exponent 0)")
		RunOps(c, OpFilter{Keep: func(rule, construct string) bool {
			return rule == "S1c.edges" || rule == "S1a.gctx" || rule == "C08.state" || rule == "S1b.operands"
		}})
		// S3 plus the other statelessness rules: "all interleavings … of any length" is decided one call / one template
		// at a time, so nothing but the tensors' own contexts may carry state from one call to the next
		statelessPremise(c, false)
		c.R.Count("flags.instances", len(calls))
		c.R.Count("walk.programs", st.Programs)
		c.R.Count("walk.state_checks", st.StateChecks)
		c.R.Count("op.state_checks", e.StateChecks)
		c.R.Min("flags.instances", 400)
		c.R.Min("op.state_checks", 400)
		for fn := range e.Funcs {
			c.R.Func(fn)
		}
		c.R.NotDecide("provisos (a),(b) of the quantifier are preconditions on the caller and are not checked")
		addOpsAssumptions(c)
	})
}

func componentKeep(rule, construct string) bool { return true }

func init() {
	register("C12", "loss functions return the defined scalar", func(c *Ctx) {
		c.R.Rule("A2.formula: the real Compute methods are interpreted over abstract tensors (Tensor API summarised by the spec); the scalar's element expression must have the normal form of the definition: MSE mean((p-t)^2); BCE mean(-(t'log p' + (1-t')log(1-p'))); CE mean_b(-Σ_c t' log p'), with t' clipped to [0,1] and p' to [1e-12, 1-1e-12]")
		c.R.Rule("A1.shape: result is rank 0 for every batch/class size (1 or symbolic); A3: interval evaluation over predictions/targets in [-1e6,1e6] is finite and non-negative")
		c.R.Rule("A4.pre: nil inputs, wrong ranks and mismatched sizes are rejected with an error, never a panic; tracked and untracked inputs give the same expression")
		c.R.Rule("S3.gctx-read: no function of the tensor implementation reads a gradient context outside the two public accessors, so loss values cannot depend on tracking")
		rules.S3Reads(c.P, c.A, c.R)
		e := engine.NewOpEngine(c.P, c.A)
		e.RunLossChecks()
		fileOps(c, e, OpFilter{Keep: componentKeep})
		// premise: the tensor operations the losses are composed of meet their element specification
		premiseOps(c, core.PkgLosses)
		statelessPremise(c, true)
		c.R.Count("component.abstract_paths", e.Paths)
		c.R.Min("component.abstract_paths", 30)
		for fn := range e.Funcs {
			c.R.Func(fn)
		}
		c.R.NotDecide("floating-point rounding; magnitudes beyond 1e6")
		addOpsAssumptions(c)
	})
}

// untrackedUntouched keeps the template findings that say an untracked / unrelated tensor was written by the walk
// (received a gradient, was marked spent) or that a gradient tensor is itself tracked.
func untrackedUntouched(f engine.Finding) bool {
	if f.Rule != "C08.bp" {
		return false
	}
	switch f.What {
	case "gradient-on-untracked-or-unrelated", "spent-outside-graph", "gradient-outside-graph", "tracked-gradient":
		return true
	}
	return false
}

// statelessPremise: the instance-based engines interpret one public call (or one short program) at a time;
// their verdicts extend to arbitrary call sequences only if operations keep no state between calls.  S3 (no
// function writes a field of a tensor / gradient context it did not allocate, outside the walk and
// ResetGradContext) and S8 (no mutable package state) establish that; S13 does the same for components.
func statelessPremise(c *Ctx, components bool) {
	if c.statelessDone {
		if components && !c.statelessCompDone {
			c.statelessCompDone = true
			rules.S13TensorRetention(c.P, c.A, c.R)
		}
		return
	}
	c.statelessDone = true
	c.statelessCompDone = components
	c.R.Rule("premise (statelessness): S3 field-write ownership (incl. nested fields of tensors) + S8 no mutable package state + the package-state findings of S4 (its parameter-alias findings and S5 are decided in their home properties C10/C20 and recorded here as notes)" + map[bool]string{true: " + S13 no tensor parked in component state", false: ""}[components] + ": per-call verdicts extend to call sequences (repeated use of an operand, use after ResetGradContext, a second training step)")
	rules.S3Ownership(c.P, c.A, c.R)
	rules.S8SharedState(c.P, c.A, c.R)
	// the two whole-program dataflow analyses are at home in C10 / C20; borrowed here, a construct they cannot
	// classify is a note, a construct they classify as a violation is a violation
	c.R.PremiseMode = true
	c.R.PremiseKeep = func(rule, what, detail string) bool {
		// writes to package-level state do not depend on the alias analysis of parameters; a caller's slice kept
		// as a tensor's own dims / index (the direct store into a CPUTensor field or a backward closure of the
		// tensor packages) is the plain pattern of S5
		if rule == "S4.write" && strings.Contains(detail, "package variable") {
			return true
		}
		if c.aliasWrites && rule == "S4.write" && strings.Contains(detail, "internal/cputensor") {
			return true
		}
		return rule == "S5.retain" && (strings.Contains(detail, "cputensor.CPUTensor") || strings.Contains(detail, "gradtrack."))
	}
	rules.S4Provenance(c.P, c.A, c.R)
	rules.S5Retention(c.P, c.A, c.R)
	c.R.PremiseMode = false
	if components {
		rules.S13TensorRetention(c.P, c.A, c.R)
	}
}

// premiseWalk re-runs the C01 walk obligations on the DAG templates: gradients of components only arrive if the
// walk delivers them (a walk that prunes, skips, double-counts or fails leaves tensors without their gradient).
func premiseWalk(c *Ctx) {
	c.R.Rule("premise (delivery): the C01 walk obligations on the DAG templates (diamonds, ladders, fan-outs, shared leaves, identity reshapes / broadcasts) are re-run: every tracked tensor of the graph receives the total derivative, every rule is applied at most once per edge; ResetGradContext leaves a fresh leaf in every prior state (C08.reset); exactly the tracked ancestors of the root end up spent (C08.bp)")
	e := engine.NewOpEngine(c.P, c.A)
	st := &engine.WalkStats{}
	for _, pr := range engine.TemplatePrograms() {
		e.RunProgram(pr, st)
	}
	// … and a tensor that was reset starts over as a fresh leaf (no gradient or edge carried into the next pass)
	e.RunResetChecks()
	fileOps(c, e, OpFilter{Keep: func(rule, construct string) bool {
		return strings.HasPrefix(rule, "C01.") || rule == "interp" || rule == "C08.reset" || rule == "C08.bp"
	}})
	c.R.Count("walk.programs", st.Programs)
}

// premiseLocalRules re-runs the C02 obligations (backward rule = VJP, shape, no failure, one edge per tracked
// operand, for every subset of tracked operands) for the Tensor methods a component package invokes: the
// component's gradients are the composition of these local rules.
func premiseLocalRules(c *Ctx, pkg string) {
	names := engine.TensorMethodsInvokedBy(c.P, c.A, pkg)
	var diff []string
	isDiff := map[string]bool{}
	for _, d := range differentiableOps {
		isDiff[d] = true
	}
	for _, n := range names {
		if isDiff[n] {
			diff = append(diff, n)
		}
	}
	if len(diff) == 0 {
		return
	}
	c.R.Rule("premise (local rules): the C02 obligations A1/A2/A3/S1c of the differentiable Tensor methods invoked by " + pkg[strings.LastIndex(pkg, "/")+1:] + " (" + strings.Join(diff, ", ") + ") are re-run, incl. every subset of tracked operands (a frozen weight with a tracked input)")
	RunOps(c, OpFilter{Methods: diff, Keep: func(rule, construct string) bool {
		return isGradRule(rule) && !isBroadcastConstruct(construct)
	}})
	premiseRuleOps(c)
	// the rules of these methods are themselves compositions of Tensor methods (MatMul's rule transposes, SumAlong's
	// un-squeezes and expands, …) evaluated through their specification: element-level agreement of those
	premiseOps(c, core.PkgGrad, diff...)
}

// premiseRuleOps: the backward rules are compositions of Tensor methods that the closure mode evaluates through
// their specification; that is only sound if the implementation of each such method accepts what the specification
// accepts, returns the specified shape and does not panic (a validator of Patch that rejects the partial index Slice's
// rule hands on makes back-propagation fail although every rule "is" its VJP).
func premiseRuleOps(c *Ctx) {
	if c.ruleOpsDone {
		return
	}
	c.ruleOpsDone = true
	names := engine.TensorMethodsInvokedBy(c.P, c.A, core.PkgGrad)
	if len(names) == 0 {
		return
	}
	if c.premShape == nil {
		c.premData, c.premShape = map[string]bool{}, map[string]bool{}
	}
	for _, n := range names {
		c.premShape[n] = true
	}
	c.R.Rule("premise (rule operations): the Tensor methods the backward rules invoke (" + strings.Join(names, ", ") + ") accept every argument tuple their specification accepts, with the specified shape and without panicking (A4.pre rejects-valid, A4.shape, S6.panic on the shape-mode instances)")
	RunOps(c, OpFilter{Methods: names, Keep: func(rule, construct string) bool {
		return rule == "A4.pre" || rule == "A4.shape" || rule == "S6.panic"
	}, Only: func(f engine.Finding) bool {
		return f.Rule != "A4.pre" || f.What == "rejects-valid"
	}})
}

// unitTolerance adds the S10.tolerance rule (absolute equality tolerance below 2^-52) to a property.
func unitTolerance(c *Ctx) {
	c.R.Rule("S10.tolerance: the absolute equality tolerance extracted from the interpreted Eq kernel is below 2^-52 (the spacing of float64 at 1): distinct operands of ordinary magnitude never compare equal")
	e := engine.NewOpEngine(c.P, c.A)
	e.RunUnitToleranceCheck("cputensor.(*CPUTensor).Eq/tolerance")
	fileOps(c, e, OpFilter{Keep: func(rule, construct string) bool { return rule == "S10.tolerance" }})
}

// premiseOps runs the labelled-element comparison for every Tensor method a component package invokes
// (resolved from the interface-call sites of its functions): the component's formula is composed from the
// specification of these operations, so their element-level agreement is a premise of the component property.
func premiseOps(c *Ctx, pkg string, only ...string) {
	names := engine.TensorMethodsInvokedBy(c.P, c.A, pkg, only...)
	if len(names) == 0 {
		return
	}
	c.R.Rule("premise D.elements: the Tensor methods invoked by " + pkg[strings.LastIndex(pkg, "/")+1:] + " (" + strings.Join(names, ", ") + ") are re-checked in labelled-element mode (incl. sizes straddling every block/chunk constant of the implementation)")
	// a method that an earlier premise of this check already covered is not run again
	if c.premData == nil {
		c.premData, c.premShape = map[string]bool{}, map[string]bool{}
	}
	tag := ""
	if c.nonFinite {
		tag = "+inf"
	}
	var fresh []string
	for _, n := range names {
		if !c.premData[n+tag] {
			c.premData[n+tag] = true
			fresh = append(fresh, n)
		}
	}
	if len(fresh) > 0 {
		RunData(c, inSet(fresh...), dataKeep)
	}
	// … and with SYMBOLIC sizes: they accept every argument tuple their specification accepts (any batch size, not only
	// the small concrete ones), with the specified shape and without panicking
	var ops []string
	for _, n := range names {
		if c.A != nil && c.P.Func(core.PkgCPU, "(*CPUTensor)."+n) != nil && !c.premShape[n] {
			c.premShape[n] = true
			ops = append(ops, n)
		}
	}
	if len(ops) > 0 {
		c.R.Rule("premise A4 (symbolic sizes): the same methods accept what their specification accepts for all sizes (A4.pre rejects-valid, A4.shape, S6.panic on the shape-mode instances)")
		RunOps(c, OpFilter{Methods: ops, Keep: func(rule, construct string) bool {
			return rule == "A4.pre" || rule == "A4.shape" || rule == "S6.panic"
		}, Only: func(f engine.Finding) bool {
			return f.Rule != "A4.pre" || f.What == "rejects-valid"
		}})
	}
}

// premiseNilOnError: components reject a missing tensor by comparing the interface with nil; that only works if
// every tensor operation that fails hands back a TRUE nil result with its error (not an interface holding a nil
// pointer, not a half-built tensor) - re-checked here on the shape-mode instances of every operation.
func premiseNilOnError(c *Ctx) {
	c.R.Rule("premise (nil on error): on every path on which a tensor operation returns an error its Tensor result is the untyped nil (A4.pre error-with-result / typed-nil-result) — a typed nil passes the components' `t == nil` checks and panics at the first method call")
	RunOps(c, OpFilter{Keep: func(rule, construct string) bool { return rule == "A4.pre" }, Only: func(f engine.Finding) bool {
		return f.Rule == "A4.pre" && (f.What == "error-with-result" || f.What == "typed-nil-result")
	}})
	// … and the constructors of package tensor (Full, Zeros, …, TensorOf, Concat) likewise
	e := engine.NewOpEngine(c.P, c.A)
	e.RunTensorEntryChecks(2)
	fileOps(c, e, OpFilter{Keep: func(rule, construct string) bool { return rule == "A4.pre" }, Only: func(f engine.Finding) bool {
		return f.Rule == "A4.pre" && (f.What == "error-with-result" || f.What == "typed-nil-result")
	}})
}

// phaseBudget limits the interpretation that follows to two thirds of what is left of the check's time budget; the
// returned function lifts the limit again.
func phaseBudget(c *Ctx) func() {
	global := interp.SoftDeadline
	if global.IsZero() {
		return func() {}
	}
	left := time.Until(global)
	if left > 0 {
		interp.SoftDeadline = time.Now().Add(left * 2 / 3)
	}
	return func() { interp.SoftDeadline = global }
}

func componentCheck(run func(e *engine.OpEngine, c *Ctx), minPaths int, premisePkgs ...string) func(c *Ctx) {
	return func(c *Ctx) {
		e := engine.NewOpEngine(c.P, c.A)
		run(e, c)
		fileOps(c, e, OpFilter{Keep: componentKeep})
		if e.LoopCuts > 0 {
			c.R.Count("component.paths_cut_by_loop_bound", e.LoopCuts)
			c.R.NotDecide(fmt.Sprintf("%d abstract paths that iterate a loop over a symbolic bound more than 3 times were not explored (bounded unrolling)", e.LoopCuts))
		}
		for _, pk := range premisePkgs {
			premiseOps(c, pk)
		}
		if len(premisePkgs) > 0 {
			statelessPremise(c, true)
			premiseNilOnError(c)
		}
		c.R.Count("component.abstract_paths", e.Paths)
		c.R.Min("component.abstract_paths", minPaths)
		for fn := range e.Funcs {
			c.R.Func(fn)
		}
		addOpsAssumptions(c)
	}
}

func init() {
	register("C14", "activations compute their defining function", componentCheck(func(e *engine.OpEngine, c *Ctx) {
		c.R.Rule("A2.formula: Forward of each activation, interpreted over abstract tensors, has the normal form of its definition (Relu max(0,x); LeakyRelu max(0,x)+m·min(0,x) for symbolic m, the nil-config default 0.01 and constants 0, -0.5, 1, 1.5; Sigmoid 1/(1+e^-x); Tanh; Softmax e^x/Σ_dim e^x for EVERY dim < rank)")
		c.R.Rule("A1.shape: the result has the input's shape for ranks 0..bound and every unit/non-unit pattern; Softmax: Σ along Dim of the result normalises to exactly 1, result interval non-negative; rank <= Dim and negative Dim are rejected")
		c.R.Rule("A4.pre: no input / two inputs / nil input are rejected with an error, never a panic")
		r := 3
		if c.Tier == "thorough" {
			r = 5
		}
		e.RunActivationChecks(r)
		c.R.NotDecide("overflow of e^x for |x| > 700; floating-point rounding")
	}, 60, core.PkgActs))
	register("C17", "SGD update subtracts learning-rate times gradient", componentCheck(func(e *engine.OpEngine, c *Ctx) {
		c.R.Rule("A2.formula: after Update the tensor behind the pointer has element expression w - lr·g (lr symbolic, nil-config default 0.01, 0 and negative), same shape, ranks 0..bound")
		c.R.Rule("C10.mutation/C17.replaced: Update stores only through the given pointer; the previous tensor object and its gradient are not written")
		c.R.Rule("S7: nil pointer, nil tensor and missing gradient return an error and replace nothing")
		r := 3
		if c.Tier == "thorough" {
			r = 5
		}
		e.RunSGDChecks(r)
	}, 30, core.PkgOptimizers))
	register("C19", "accuracy equals matched over total", componentCheck(func(e *engine.OpEngine, c *Ctx) {
		c.R.Rule("A2.formula: after any sequence of accepted batches (symbolic sizes) total = Σ sizes, correct = Σ_batches Σ_i [|p_i - t_i| <= τ], Result = correct/total and 0 before any batch: additive updates make the value independent of the partition")
		c.R.Rule("S7: rejected calls (nil, wrong rank, mismatched lengths), also interleaved between accepted ones, leave both counters unchanged")
		e.RunAccuracyChecks()
		unitTolerance(c)
		c.R.NotDecide("0 <= correct <= total relies on the Eq mask being 0/1 (C03)")
	}, 10, core.PkgMetrics))
	register("C16", "FC layer is an affine map with live parameters (forward, pointers, validation)", componentCheck(func(e *engine.OpEngine, c *Ctx) {
		c.R.Rule("A2.formula: Forward, interpreted with W, B replaced through the Weights() pointers by non-uniform leaves, yields y[b][o] = W[o]·Σ_d x[b][d] + B[o] with shape [batch, Outputs] for symbolic and unit batch/feature/output sizes")
		c.R.Rule("S12: Weights() returns pointers to the layer's own Weight and Bias fields (replacements reach the next Forward), both trainable")
		c.R.Rule("A4.pre / A1.shape: default initialisation gives tracked parameters of shape [Outputs]; invalid configs and inputs are rejected with an error")
		e.RunFCChecks()
		// "arbitrary W, B and inputs": a row sum whose terms are all the same infinity is that infinity (a sum that
		// overflowed stays overflowed) — the reducers FC is composed of are also re-checked on all-infinite operands
		c.nonFinite = true
		statelessPremise(c, true)
		premiseLocalRules(c, core.PkgLayers)
		premiseWalk(c)
		unitTolerance(c)
		c.R.Rule("gradients of W, B and x: compositional over C01, C02 (UnSqueeze, MatMul, SumAlong, Add) and C07; the C07 obligations of the expansions FC uses are re-run here and carry known finding D2 (parameter gradients divided by the batch size)")
		RunOps(c, OpFilter{Methods: []string{"Broadcast"}, Keep: func(rule, construct string) bool { return isGradRule(rule) && isBroadcastConstruct(construct) }})
	}, 10, core.PkgLayers))
}

// RunData runs the labelled-element engine on the selected operations.
func RunData(c *Ctx, want func(string) bool, keep func(rule, construct string) bool) *engine.OpEngine {
	e := engine.NewOpEngine(c.P, c.A)
	e.SetDataMode(true)
	e.NonFinite = c.nonFinite
	e.ProbeResults = c.probeResults
	b := engine.QuickDataBounds()
	if c.Tier == "thorough" {
		b = engine.ThoroughDataBounds()
	}
	if c.thresholdOnly {
		// only the shapes derived from the implementation's own size constants (none on a tree without such constants)
		b = engine.DataBounds{MaxRank: 0, Sizes: nil, MaxElts: 1}
	}
	calls := e.DataInstances(want, b)
	for i, call := range calls {
		e.RunDataInstance(call)
		if i%211 == 0 {
			c.R.Sample(map[string]string{"labelled_instance": call.Label})
		}
	}
	fileOps(c, e, OpFilter{Keep: keep})
	if e.ProbeRuns > 0 {
		c.R.Count("data.result_probes", e.ProbeRuns)
	}
	c.R.Count("data.instances", len(calls))
	c.R.Count("data.element_comparisons", e.ElemChecks)
	for fn := range e.Funcs {
		c.R.Func(fn)
	}
	return e
}

func inSet(names ...string) func(string) bool {
	m := map[string]bool{}
	for _, n := range names {
		m[n] = true
	}
	return func(n string) bool { return m[n] }
}

func isShapeRule(rule string) bool {
	return rule == "A4.pre" || rule == "A4.shape" || rule == "S6.panic" || rule == "S6.hang" || rule == "S1a.gctx"
}

func dataKeep(rule, construct string) bool {
	// C10.mutation: the store observer saw an interpreted run write a cell that existed before the call (an operand's
	// rows, a caller's slice): later values of that operand are then wrong - a value defect, decided on an actual run
	return rule == "D.elements" || rule == "S6.panic" || rule == "S6.hang" || rule == "A4.pre" || rule == "A4.shape" || rule == "C10.mutation"
}

const dataRule = "D.elements: labelled-element interpretation — shapes concrete and small (sizes 1..3, ranks to the tier bound plus a few rank-4/5 shapes), every operand element a distinct symbol; the WHOLE implementation incl. the nested-[]any data layer (recursive fills, element generators, copiers, kernels) is interpreted and the element found at every result position must have the normal form of the specification's element at that position. Universal in element values, bounded in shapes"

func valueOps(c *Ctx, id string, methods []string, extra func(c *Ctx)) {
	c.R.Rule("A4.pre/A4.shape: the public method (validators, dims helpers) interpreted with symbolic sizes and arguments returns an error exactly when the documented precondition fails and otherwise the defined shape (FM-decided, witness on disagreement)")
	c.R.Rule(dataRule)
	set := inSet(methods...)
	RunOps(c, OpFilter{Methods: methods, Keep: func(rule, construct string) bool { return isShapeRule(rule) }})
	c.R.Rule("result probes: every result tensor of a labelled instance is handed, as the object the implementation built, to Scale(c), Sum() and Add(itself); all must see the specified elements (private bookkeeping carried by results — fill markers, memoised reductions — cannot disagree with the data)")
	c.probeResults = true
	// constant constructors take part as probe carriers only (their own obligations belong to C06)
	carriers := map[string]bool{}
	for _, n := range []string{"Full", "Zeros", "Ones"} {
		if !set(n) {
			carriers[n] = true
		}
	}
	RunData(c, func(n string) bool { return set(n) || n == "Scale" || n == "Sum" || n == "Add" || carriers[n] }, func(rule, construct string) bool {
		if carriers[construct[strings.LastIndex(construct, ".")+1:]] {
			return false
		}
		return dataKeep(rule, construct)
	})
	c.probeResults = false
	// operands are immutable values: no OTHER operation writes into an operand either (an element-wise result is only as
	// good as the operands an earlier UnSqueeze / Patch / Concat left behind) — the store observer over the remaining methods
	c.R.Rule("premise (operands stay intact): the store observer (C10.mutation) over the labelled instances of every other public method")
	RunData(c, func(n string) bool { return !set(n) && !carriers[n] && n != "Scale" && n != "Sum" && n != "Add" }, func(rule, construct string) bool {
		return rule == "C10.mutation"
	})
	if extra != nil {
		extra(c)
	}
	// … and no write of the data layer lands in memory the running call did not allocate: the labelled instances give
	// every operand exact-capacity rows, so an append that only reuses an operand's SPARE capacity (rows grown by an
	// earlier Concat) is invisible to the store observer and visible to the provenance analysis
	c.R.Rule("premise (operands stay intact, all capacities): S4 write provenance over the data layer (package cputensor) counts here as in C10")
	c.aliasWrites = true
	statelessPremise(c, false)
	c.aliasWrites = false
	c.R.Min("data.element_comparisons", 200)
	c.R.NotDecide("shapes beyond the enumerated bound (the odometer/carry logic is exercised on every enumerated shape, not proven for all sizes); floating-point rounding")
	addOpsAssumptions(c)
}

func init() {
	register("C03", "element-wise operations and implicit broadcasting", func(c *Ctx) {
		c.R.Rule("comparison kernels are evaluated under the five order classes of a-b (far above, within tolerance above, tie, within tolerance below, far below; Eq/Ne/Equals only far/tie as the property states): results must be exactly the defined 0/1")
		c.R.Rule("S1e: implicit expansion goes through the public Broadcast on both operands before the kernel runs (edge-routing rule of the operation engine), so the outcome equals broadcasting explicitly first")
		valueOps(c, "C03", []string{"Scale", "Pow", "Exp", "Log", "Sin", "Cos", "Tan", "Sinh", "Cosh", "Tanh", "Add", "Sub", "Mul", "Div", "ElMax", "ElMin", "Eq", "Ne", "Gt", "Ge", "Lt", "Le", "Equals", "Broadcast"}, nil)
		unitTolerance(c)
	})
	register("C04", "MatMul, Dot, Transpose", func(c *Ctx) {
		valueOps(c, "C04", []string{"MatMul", "Dot", "Transpose"}, nil)
	})
	register("C05", "reductions", func(c *Ctx) {
		c.R.Rule("whole-tensor Sum/Max/Min/Avg/Mean/Var/Std: the returned scalar expression equals the definition (unbiased variance, 0 for one element) on every enumerated shape")
		valueOps(c, "C05", []string{"SumAlong", "MaxAlong", "MinAlong", "AvgAlong", "VarAlong", "StdAlong", "MeanAlong", "Sum", "Max", "Min", "Avg", "Mean", "Var", "Std"}, nil)
		c.R.NotDecide("numerical stability of the variance formula (algebraically equal one-pass rewrites are not distinguished)")
	})
	register("C06", "indexing, reshaping, construction", func(c *Ctx) {
		c.R.Rule("constructors: Full/Zeros/Ones/Eye/TensorOf element by element; TensorOf on rectangular nested data of depth 0..4 and on ragged/empty variants (must be an error, never a panic); At on every valid and on out-of-range / wrong-arity indexes; NElems = product of Shape")
		valueOps(c, "C06", []string{"At", "Slice", "Patch", "Concat", "Reshape", "Flatten", "Squeeze", "UnSqueeze", "Broadcast", "Transpose", "Full", "Zeros", "Ones", "Eye", "TensorOf", "NElems", "Shape"}, nil)
	})
	register("C09", "every public call is total", func(c *Ctx) {
		c.R.Rule("A4.pre / S6.panic over EVERY public entry point: each Tensor method with symbolic sizes and integer arguments (error iff precondition violated, defined shape otherwise, no reachable panic incl. index/slice bounds, nil dereference, failed type assertion, explicit panic); package tensor constructors for every configuration case (nil, CPU, unset/unknown device) and symbolic dims incl. nil slices; TensorOf on rectangular and ragged data; Concat on nil/short/nil-containing lists; BackPropagate(nil)")
		c.R.Rule("component entry points: constructors with nil/invalid configs, Forward/Compute/Accumulate/Update/Init with nil tensors, wrong ranks, mismatched sizes, missing inputs, unset SeedFunc: an error, never a panic")
		RunOps(c, OpFilter{Keep: func(rule, construct string) bool { return isShapeRule(rule) }})
		RunData(c, inSet("At", "TensorOf", "Full", "Zeros", "Ones", "Eye", "Concat", "Slice", "Patch", "NElems", "Shape", "Equals", "Sum", "Max", "Min", "Avg", "Mean", "Var", "Std"), func(rule, construct string) bool {
			return rule == "S6.panic" || rule == "S6.hang" || rule == "A4.pre"
		})
		// the remaining operations on the shapes that straddle the implementation's own size constants (fast paths,
		// chunked / parallel kernels): no panic there either
		c.thresholdOnly = true
		RunData(c, func(string) bool { return true }, func(rule, construct string) bool {
			return rule == "S6.panic" || rule == "S6.hang"
		})
		c.thresholdOnly = false
		e := engine.NewOpEngine(c.P, c.A)
		e.RunTensorEntryChecks(3)
		e.RunAccessorTotality()
		e.RunResetChecks()
		// a random constructor that may draw more than once per element contains a rejection loop without a bound
		e.RunRandomDrawChecks()
		e.RunLossChecks()
		e.RunActivationChecks(2)
		e.RunFCChecks()
		e.RunSGDChecks(1)
		e.RunAccuracyChecks()
		e.RunInputLayerChecks()
		e.RunInitializerChecks(2)
		fileOps(c, e, OpFilter{Keep: func(rule, construct string) bool {
			return rule == "A4.pre" || rule == "A4.shape" || strings.HasPrefix(rule, "S6.") || rule == "S7.no-store-on-error"
		}, KeepF: func(f engine.Finding) bool { return f.Rule == "S9c.draws" && f.What == "draw-count" }})
		c.R.Count("entry.abstract_paths", e.Paths)
		c.R.Min("entry.abstract_paths", 300)
		for fn := range e.Funcs {
			c.R.Func(fn)
		}
		c.R.NotDecide("termination beyond the interpreter's step budget; typed-nil *CPUTensor inside a non-nil interface; integer overflow of element counts")
		// every call above starts from a fresh abstract state: what an earlier call left behind in package variables,
		// tensors or components (a lock still held, a cache, a counter) must not exist
		statelessPremise(c, true)
		// "or hanging": a lock that a call leaves held blocks the next call
		rules.S16LockPairing(c.P, c.A, c.R)
		// BackPropagate beyond the nil argument: on the well-formed DAG templates it returns without panic or error
		premiseWalk(c)
		addOpsAssumptions(c)
	})
	register("C10", "tensors are immutable values decoupled from caller-owned slices", func(c *Ctx) {
		c.R.Rule("S4 write provenance: every Store/MapUpdate/copy/append in the library writes memory allocated by the same call (fresh, or parameter-derived with the obligation discharged at every caller); only the back-propagation walk, ResetGradContext, Accuracy.Accumulate and SGD.Update write non-fresh memory")
		c.R.Rule("S5 retention: no slice/any parameter of a public entry point is stored, captured by an escaping closure, or returned; public functions returning slices return fresh memory")
		c.R.Rule("S3 ownership of CPUTensor/GradContext fields; C10.mutation: in every labelled-element and operation-engine run, no store hits a cell that existed before the call (operands, their dims and data rows, caller slices)")
		rules.S8SharedState(c.P, c.A, c.R)
		rules.S4Provenance(c.P, c.A, c.R)
		rules.S5Retention(c.P, c.A, c.R)
		rules.S3Ownership(c.P, c.A, c.R)
		rules.S13TensorRetention(c.P, c.A, c.R)
		RunData(c, func(string) bool { return true }, func(rule, construct string) bool { return rule == "C10.mutation" })
		addOpsAssumptions(c)
	})
	register("C20", "concurrent forward computation is race-free and deterministic", func(c *Ctx) {
		c.R.Rule("effect argument: S4 (every write of the forward path targets memory allocated by that call) + S8 (no mutable package state, no private/unlocked random source) + S3 (no forward operation writes a field of an existing tensor or gradient context; the walk tests `tracked` before any write): concurrent forward calls only READ shared tensors, which cannot race, and each result depends only on its inputs")
		rules.S8SharedState(c.P, c.A, c.R)
		rules.S4Provenance(c.P, c.A, c.R)
		rules.S3Ownership(c.P, c.A, c.R)
		rules.S13TensorRetention(c.P, c.A, c.R)
		rules.S15GoroutineDiscipline(c.P, c.A, c.R)
		rules.S16LockPairing(c.P, c.A, c.R)
		rules.S2Walk(c.P, c.A, c.R)
		c.R.Rule("C08.bp on the DAG templates (incl. untracked operands, dead branches, untracked roots): the interpreted walk writes nothing on untracked or unrelated tensors - the part of the effect argument that concerns BackPropagate over graphs sharing untracked tensors")
		{
			pe := engine.NewOpEngine(c.P, c.A)
			st := &engine.WalkStats{}
			progs := engine.TemplatePrograms()
			progs = append(progs, engine.EnumeratePrograms([]bool{true, false}, 1)...)
			for _, pr := range progs {
				pe.RunProgram(pr, st)
			}
			fileOps(c, pe, OpFilter{Keep: func(rule, construct string) bool { return rule == "interp" }, KeepF: untrackedUntouched})
			c.R.Count("walk.programs", st.Programs)
		}
		e := engine.NewOpEngine(c.P, c.A)
		e.RunRandomDrawChecks()
		fileOps(c, e, OpFilter{Keep: func(rule, construct string) bool { return rule == "S8.rng" || rule == "interp" }})
		c.R.Assume("gonum's distuv draws from golang.org/x/exp/rand's global source when Src is nil, and that source is a LockedSource")
		c.R.NotDecide("calls outside the proviso (e.g. two goroutines passing the same FCConfig map to NewFC)")
		addOpsAssumptions(c)
	})
	register("C18", "initializers and random constructors honour shape, support and scale", componentCheck(func(e *engine.OpEngine, c *Ctx) {
		c.R.Rule("S9b plumbing: interpreting each initializer's constructor and Init with symbolic configs, the tensor is built by the matching random/constant constructor with exactly the requested shape, tracked, and with parameters of the defined normal form: Full value; Uniform [lower, upper) (nil config [-0.05,0.05)); Normal (mean, σ) (nil (0,0.05)); He/Xavier uniform ±sqrt(6/fanIn), ±sqrt(6/(fanIn+fanOut)); He/Xavier normal mean 0, σ sqrt(2/fanIn), sqrt(2/(fanIn+fanOut))")
		c.R.Rule("S9c draws: RandU/RandN interpreted completely on small shapes: every element is a distinct fresh draw, exactly one draw per element, from Uniform{Min:l,Max:u} / Normal{Mu:mean,Sigma:σ}; S8.rng: no explicit Src, no private generator")
		c.R.Rule("A4.pre: invalid configurations and non-positive shapes are rejected")
		e.RunInitializerChecks(3)
		e.RunRandomDrawChecks()
		rules.S8SharedState(c.P, c.A, c.R)
		rules.S13TensorRetention(c.P, c.A, c.R)
		c.R.Assume("gonum's Uniform.Rand returns values in [Min,Max) and Normal.Rand is N(Mu,Sigma); both use a locked global source when Src is nil")
		c.R.NotDecide("convergence of sample moments / independence (statistical)")
	}, 50))
}

func init() {
	register("C13", "loss gradients equal the analytic derivatives", componentCheck(func(e *engine.OpEngine, c *Ctx) {
		c.R.Rule("C13.gradient: the real Compute builds a real graph (interface calls dispatched to the real cputensor methods), the real BackPropagate is interpreted over it, and the gradient that reaches the prediction - a tracked leaf, or the intermediate k·q of an upstream tracked operation - must have the normal form 2(p-t)/N (MSE), ((1-t)/(1-p) - t/p)/N (BCE), -(t/p)/N (CE) inside the clipping interval and exactly 0 in the clipped regions (incl. predictions exactly 0 or 1), with the prediction's shape, for symbolic and unit batch/class sizes; interval-finite; the untracked target receives nothing")
		e.RunLossGradientChecks()
		c.R.Rule("C13.tolerance: the Eq kernel's absolute tolerance (extracted from the interpreted kernel's branch condition) is strictly below the clipping epsilon 1e-12, so a prediction of exactly 0 or 1 is not tied with a clip bound")
		e.RunToleranceCheck("cputensor.(*CPUTensor).Eq/tolerance")
		statelessPremise(c, true)
		premiseLocalRules(c, core.PkgLosses)
		premiseOps(c, core.PkgLosses)
		premiseWalk(c)
		unitTolerance(c)
		c.R.NotDecide("predictions exactly at the two clipping bounds (excluded by the quantifier); floating-point rounding")
	}, 30))
	register("C15", "activation gradients equal the derivative of the activation, also in a chain", componentCheck(func(e *engine.OpEngine, c *Ctx) {
		c.R.Rule("C15.gradient: x (tracked leaf) → h = k·x (intermediate) → activation → ·G (arbitrary upstream weighting) → real BackPropagate; x's gradient must be G·k·act'(h): 1|0 (1|m for LeakyRelu with symbolic, >1, negative and default slopes) by the sign of h, a value between them at h=0, the symbolic derivative of the composite expression for Sigmoid/Tanh, p_i(g_i - Σ_j p_j g_j) for Softmax along every dim; finite; input's shape; ranks 0..bound")
		r := 2
		if c.Tier == "thorough" {
			r = 4
		}
		e.RunActivationGradientChecks(r)
		c.R.Rule("C13.tolerance (shared): the equality tolerance that defines a tie at 0 is strictly below 1e-12")
		e.RunToleranceCheck("cputensor.(*CPUTensor).Eq/tolerance")
		statelessPremise(c, true)
		premiseLocalRules(c, core.PkgActs)
		premiseOps(c, core.PkgActs)
		premiseWalk(c)
		unitTolerance(c)
		c.R.Rule("A3.finite at the extremes: with a unit chain factor and |x| <= 700 the interval of the gradient contains no NaN (0·Inf / Inf-Inf in the backward pass)")
		c.R.NotDecide("finiteness for symbolic chain factors is decided on [-50,50]; rounding")
	}, 30))
	register("C11", "a training loop follows gradient descent", componentCheck(func(e *engine.OpEngine, c *Ctx) {
		c.R.Rule("C11.loop/C11.shape/C11.no-leak: FC→{Sigmoid,Relu}→CE→BackPropagate→SGD.Update→ResetGradContext(true) interpreted for two steps with symbolic widths, batch size symbolic and 1: every update succeeds, weights keep shape [Outputs], and the step-2 update expression equals the step-1 update expression with the weights renamed (nothing - gradients, edges, spent flags, cached tensors - leaks across steps); with the reset omitted the next update must report the missing gradient")
		c.R.Rule("value of the trajectory w ← w - lr·∂L/∂w: compositional over C01 (walk), C02 (local rules), C07 (expansion), C17 (update); the C07 obligations of the expansions FC uses are re-run here and carry known finding D2")
		// the interpreted loop gets at most half of the time budget: if it runs into it on some construct, the premises
		// below are still decided and filed
		restore := phaseBudget(c)
		e.RunTrainingLoopChecks()
		c.R.Rule("premises re-run here: C13.gradient of CE/MSE/BCE and C15.gradient of the activations (the gradient that SGD applies is their composition), statelessness of operations and components")
		e.RunLossGradientChecks()
		e.RunActivationGradientChecks(2)
		c.R.Rule("forward premises re-run here as well: loss values and validation (C12), activations (C14), FC forward and live parameters (C16), SGD update incl. a second step (C17) - a loop that follows gradient descent is a composition of all of them")
		e.RunLossChecks()
		e.RunActivationChecks(2)
		e.RunFCChecks()
		e.RunSGDChecks(1)
		restore()
		statelessPremise(c, true)
		unitTolerance(c)
		premiseWalk(c)
		premiseLocalRules(c, core.PkgLayers)
		premiseLocalRules(c, core.PkgActs)
		premiseLocalRules(c, core.PkgLosses)
		for _, pk := range []string{core.PkgLayers, core.PkgActs, core.PkgLosses, core.PkgOptimizers} {
			premiseOps(c, pk)
		}
		RunOps(c, OpFilter{Methods: []string{"Broadcast"}, Keep: func(rule, construct string) bool { return isGradRule(rule) && isBroadcastConstruct(construct) }})
	}, 8))
}
