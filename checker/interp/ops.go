package interp

import (
	"fmt"
	"go/token"
	"go/types"
	"math"
	"strings"

	"golang.org/x/tools/go/ssa"

	"qverif/sym"
)

func (m *Machine) unop(fr *frame, x *ssa.UnOp) Value {
	v := m.get(fr, x.X)
	switch x.Op {
	case token.MUL: // load
		p, ok := v.(PtrV)
		if !ok {
			m.progPanic(fr, x.Pos(), "nil pointer dereference (load)")
		}
		return loadCell(p.C)
	case token.SUB:
		switch a := v.(type) {
		case IntV:
			return IntV{a.P.Neg()}
		case FloatV:
			return FloatV{sym.Neg(a.E)}
		}
	case token.NOT:
		b := v.(BoolV)
		if b.Known {
			return BoolC(!b.Val)
		}
		return BoolV{C: sym.Not(b.C)}
	}
	panic(Unsupported{"unary " + x.Op.String() + " on " + Describe(v)})
}

func boolOf(c *sym.Cond) BoolV {
	if v, ok := c.Decide(); ok {
		return BoolC(v)
	}
	return BoolV{C: c}
}

func (m *Machine) binop(fr *frame, op token.Token, a, b Value, pos token.Pos) Value {
	switch x := a.(type) {
	case IntV:
		y, ok := b.(IntV)
		if !ok {
			break
		}
		switch op {
		case token.ADD:
			return IntV{x.P.Add(y.P)}
		case token.SUB:
			return IntV{x.P.Sub(y.P)}
		case token.MUL:
			return IntV{x.P.Mul(y.P)}
		case token.QUO, token.REM:
			cx, ok1 := x.P.Const()
			cy, ok2 := y.P.Const()
			if ok2 && cy == 0 {
				m.progPanic(fr, pos, "integer divide by zero")
			}
			if ok1 && ok2 {
				if op == token.QUO {
					return IntC(cx / cy)
				}
				return IntC(cx % cy)
			}
			if op == token.QUO {
				return IntV{sym.IDiv(x.P, y.P)}
			}
			return IntV{sym.IMod(x.P, y.P)}
		case token.AND, token.OR, token.XOR, token.AND_NOT, token.SHL, token.SHR:
			// bit operations: on closed constants only (sizes are concrete in labelled-element mode); a left shift by
			// a constant is a multiplication for every operand
			cx, ok1 := x.P.Const()
			cy, ok2 := y.P.Const()
			if ok1 && ok2 {
				switch op {
				case token.AND:
					return IntC(cx & cy)
				case token.OR:
					return IntC(cx | cy)
				case token.XOR:
					return IntC(cx ^ cy)
				case token.AND_NOT:
					return IntC(cx &^ cy)
				case token.SHL:
					if cy >= 0 && cy < 62 {
						return IntC(cx << uint(cy))
					}
				case token.SHR:
					if cy >= 0 && cy < 64 {
						return IntC(cx >> uint(cy))
					}
				}
			}
			if op == token.SHL && ok2 && cy >= 0 && cy < 62 {
				return IntV{x.P.Mul(sym.PInt(1 << uint(cy)))}
			}
		case token.EQL:
			return boolOf(sym.IntCond(sym.CEq(x.P, y.P)))
		case token.NEQ:
			return boolOf(sym.IntCond(sym.CNe(x.P, y.P)))
		case token.LSS:
			return boolOf(sym.IntCond(sym.CLt(x.P, y.P)))
		case token.LEQ:
			return boolOf(sym.IntCond(sym.CLe(x.P, y.P)))
		case token.GTR:
			return boolOf(sym.IntCond(sym.CGt(x.P, y.P)))
		case token.GEQ:
			return boolOf(sym.IntCond(sym.CGe(x.P, y.P)))
		}
	case FloatV:
		y, ok := b.(FloatV)
		if !ok {
			break
		}
		if sym.HasNaN(x.E) || sym.HasNaN(y.E) {
			// IEEE: every ordered comparison with NaN is false, != is true
			switch op {
			case token.EQL, token.LSS, token.LEQ, token.GTR, token.GEQ:
				return BoolC(false)
			case token.NEQ:
				return BoolC(true)
			}
		}
		// two closed constants one of which is infinite: IEEE comparison
		if vx, ok := sym.ClosedConst(x.E); ok {
			if vy, ok := sym.ClosedConst(y.E); ok {
				_, ix := sym.ClosedInf(x.E)
				_, iy := sym.ClosedInf(y.E)
				if ix || iy {
					switch op {
					case token.EQL:
						return BoolC(vx == vy)
					case token.NEQ:
						return BoolC(vx != vy)
					case token.LSS:
						return BoolC(vx < vy)
					case token.LEQ:
						return BoolC(vx <= vy)
					case token.GTR:
						return BoolC(vx > vy)
					case token.GEQ:
						return BoolC(vx >= vy)
					}
				}
			}
		}
		switch op {
		case token.ADD:
			return FloatV{sym.Add(x.E, y.E)}
		case token.SUB:
			return FloatV{sym.Sub(x.E, y.E)}
		case token.MUL:
			return FloatV{sym.Mul(x.E, y.E)}
		case token.QUO:
			return FloatV{sym.Div(x.E, y.E)}
		case token.EQL:
			return boolOf(sym.RealEQ(x.E, y.E))
		case token.NEQ:
			return boolOf(sym.Not(sym.RealEQ(x.E, y.E)))
		case token.LSS:
			return boolOf(sym.RealLT(x.E, y.E))
		case token.LEQ:
			return boolOf(sym.RealLE(x.E, y.E))
		case token.GTR:
			return boolOf(sym.RealGT(x.E, y.E))
		case token.GEQ:
			return boolOf(sym.RealGE(x.E, y.E))
		}
	case BoolV:
		y, ok := b.(BoolV)
		if !ok {
			break
		}
		if x.Known && y.Known {
			switch op {
			case token.EQL:
				return BoolC(x.Val == y.Val)
			case token.NEQ:
				return BoolC(x.Val != y.Val)
			case token.AND, token.LAND:
				return BoolC(x.Val && y.Val)
			case token.OR, token.LOR:
				return BoolC(x.Val || y.Val)
			}
		}
		cx, cy := condOf(x), condOf(y)
		switch op {
		case token.AND, token.LAND:
			return boolOf(sym.And(cx, cy))
		case token.OR, token.LOR:
			return boolOf(sym.Or(cx, cy))
		case token.EQL:
			return boolOf(sym.Or(sym.And(cx, cy), sym.And(sym.Not(cx), sym.Not(cy))))
		case token.NEQ:
			return boolOf(sym.Or(sym.And(cx, sym.Not(cy)), sym.And(sym.Not(cx), cy)))
		}
	case StrV:
		y, ok := b.(StrV)
		if !ok {
			break
		}
		switch op {
		case token.ADD:
			return StrV{S: x.S + y.S, Known: x.Known && y.Known}
		case token.EQL:
			if x.Known && y.Known {
				return BoolC(x.S == y.S)
			}
		case token.NEQ:
			if x.Known && y.Known {
				return BoolC(x.S != y.S)
			}
		}
	}
	// reference comparisons
	if op == token.EQL || op == token.NEQ {
		eq, ok := refEqual(a, b)
		if ok {
			if op == token.NEQ {
				eq = !eq
			}
			return BoolC(eq)
		}
	}
	panic(Unsupported{fmt.Sprintf("binary %s on %s, %s", op, Describe(a), Describe(b))})
}

func condOf(b BoolV) *sym.Cond {
	if b.Known {
		if b.Val {
			return sym.True()
		}
		return sym.False()
	}
	return b.C
}

func refEqual(a, b Value) (bool, bool) {
	an, bn := IsNil(a), IsNil(b)
	if an || bn {
		return an && bn, true
	}
	switch x := a.(type) {
	case PtrV:
		if y, ok := b.(PtrV); ok {
			return x.C == y.C, true
		}
	case IfaceV:
		if y, ok := b.(IfaceV); ok {
			if !types.Identical(x.T, y.T) {
				return false, true
			}
			return refEqual(x.V, y.V)
		}
	case ErrV:
		if _, ok := b.(ErrV); ok {
			return false, false
		}
	case StructV:
		if y, ok := b.(StructV); ok && len(x.F) == len(y.F) {
			all := true
			for i := range x.F {
				e, ok := valueEqual(x.F[i], y.F[i])
				if !ok {
					return false, false
				}
				all = all && e
			}
			return all, true
		}
	}
	return false, false
}

func valueEqual(a, b Value) (bool, bool) {
	switch x := a.(type) {
	case IntV:
		if y, ok := b.(IntV); ok {
			d := x.P.Sub(y.P)
			if c, ok := d.Const(); ok {
				return c == 0, true
			}
			return false, false
		}
	case BoolV:
		if y, ok := b.(BoolV); ok && x.Known && y.Known {
			return x.Val == y.Val, true
		}
	case StrV:
		if y, ok := b.(StrV); ok && x.Known && y.Known {
			return x.S == y.S, true
		}
	}
	return refEqual(a, b)
}

func (m *Machine) indexAddr(fr *frame, x *ssa.IndexAddr) Value {
	base := m.get(fr, x.X)
	iv, ok := m.get(fr, x.Index).(IntV)
	if !ok {
		panic(Unsupported{"non-integer index"})
	}
	switch b := base.(type) {
	case SliceV:
		i, ok := m.Concretize(iv, 0, b.Len-1)
		if !ok || b.Len == 0 {
			m.progPanic(fr, x.Pos(), "index out of range [%s] with length %d", iv.P.String(), b.Len)
		}
		return PtrV{b.Arr.Elems[b.Off+i]}
	case PtrV:
		if b.C.Elems == nil {
			panic(Unsupported{"index address of non-array cell"})
		}
		i, ok := m.Concretize(iv, 0, len(b.C.Elems)-1)
		if !ok || len(b.C.Elems) == 0 {
			m.progPanic(fr, x.Pos(), "index out of range [%s] with length %d", iv.P.String(), len(b.C.Elems))
		}
		return PtrV{b.C.Elems[i]}
	case NilV:
		m.progPanic(fr, x.Pos(), "index of nil")
	}
	panic(Unsupported{"index address of " + Describe(base)})
}

func (m *Machine) sliceOp(fr *frame, x *ssa.Slice) Value {
	base := m.get(fr, x.X)
	var arr *Cell
	off, ln, cp := 0, 0, 0
	switch b := base.(type) {
	case SliceV:
		arr, off, ln, cp = b.Arr, b.Off, b.Len, b.Cap
	case PtrV:
		if b.C.Elems == nil {
			panic(Unsupported{"slice of non-array pointer"})
		}
		arr, off, ln, cp = b.C, 0, len(b.C.Elems), len(b.C.Elems)
	case StrV:
		panic(Unsupported{"string slicing"})
	default:
		panic(Unsupported{"slice of " + Describe(base)})
	}
	lo, hi := 0, ln
	if x.Low != nil {
		lv := m.get(fr, x.Low).(IntV)
		v, ok := m.Concretize(lv, 0, cp)
		if !ok {
			m.progPanic(fr, x.Pos(), "slice bounds out of range [%s:] with capacity %d", lv.P.String(), cp)
		}
		lo = v
	}
	if x.High != nil {
		hv := m.get(fr, x.High).(IntV)
		v, ok := m.Concretize(hv, 0, cp)
		if !ok {
			m.progPanic(fr, x.Pos(), "slice bounds out of range [:%s] with capacity %d", hv.P.String(), cp)
		}
		hi = v
	}
	mx := cp
	if x.Max != nil {
		mv := m.get(fr, x.Max).(IntV)
		v, ok := m.Concretize(mv, 0, cp)
		if !ok {
			m.progPanic(fr, x.Pos(), "slice bounds out of range [::%s] with capacity %d", mv.P.String(), cp)
		}
		mx = v
		if hi > mx {
			m.progPanic(fr, x.Pos(), "slice bounds out of range [:%d:%d]", hi, mx)
		}
	}
	if lo > hi {
		m.progPanic(fr, x.Pos(), "slice bounds out of range [%d:%d]", lo, hi)
	}
	if arr == nil {
		if lo == 0 && hi == 0 {
			return SliceV{}
		}
		m.progPanic(fr, x.Pos(), "slice bounds out of range [%d:%d] with capacity 0", lo, hi)
	}
	return SliceV{Arr: arr, Off: off + lo, Len: hi - lo, Cap: mx - lo}
}

func (m *Machine) convert(fr *frame, x *ssa.Convert) Value {
	v := m.get(fr, x.X)
	from := x.X.Type().Underlying()
	to := x.Type().Underlying()
	fb, ok1 := from.(*types.Basic)
	tb, ok2 := to.(*types.Basic)
	if ok1 && ok2 {
		fi, ti := fb.Info(), tb.Info()
		switch {
		case fi&types.IsInteger != 0 && ti&types.IsInteger != 0:
			return v
		case fi&types.IsFloat != 0 && ti&types.IsFloat != 0:
			return v
		case fi&types.IsInteger != 0 && ti&types.IsFloat != 0:
			return FloatV{sym.PolyE(v.(IntV).P)}
		case fi&types.IsFloat != 0 && ti&types.IsInteger != 0:
			e := v.(FloatV).E
			if r, ok := e.Const(); ok && r.IsInt() {
				return IntC(r.Num().Int64())
			}
			name := m.internInt("trunc", e)
			return IntV{sym.PAtom(name)}
		case fi&types.IsString != 0 && ti&types.IsString != 0:
			return v
		}
	}
	panic(Unsupported{"conversion " + x.X.Type().String() + " -> " + x.Type().String()})
}

func (m *Machine) internInt(prefix string, e sym.Expr) string {
	k := e.Key()
	for n, x := range m.Interned {
		if strings.HasPrefix(n, prefix) && x.Key() == k {
			return n
		}
	}
	name := fmt.Sprintf("%s%d", prefix, len(m.Interned)+1)
	m.Interned[name] = e
	return name
}

func (m *Machine) typeAssert(fr *frame, x *ssa.TypeAssert) Value {
	v := m.get(fr, x.X)
	at := m.resolveType(x.AssertedType)
	var ok bool
	var inner Value
	switch iv := v.(type) {
	case IfaceV:
		if isInterface(at) {
			ok = types.Implements(iv.T, at.Underlying().(*types.Interface))
			inner = iv
		} else {
			ok = types.Identical(iv.T, at)
			inner = iv.V
		}
	case ErrV:
		if isInterface(at) {
			ok, inner = true, iv
		}
	case OpaqueV:
		panic(Unsupported{"type assertion on opaque data"})
	default:
		if !IsNil(v) {
			panic(Unsupported{"type assertion on " + Describe(v)})
		}
	}
	if x.CommaOk {
		if ok {
			return TupleV{[]Value{inner, BoolC(true)}}
		}
		return TupleV{[]Value{m.Zero(at), BoolC(false)}}
	}
	if !ok {
		m.progPanic(fr, x.Pos(), "interface conversion: %s is not %s", Describe(v), at.String())
	}
	return inner
}

func (m *Machine) lookup(fr *frame, x *ssa.Lookup) Value {
	base := m.get(fr, x.X)
	key := m.get(fr, x.Index)
	var vt types.Type
	if mt, ok := x.X.Type().Underlying().(*types.Map); ok {
		vt = mt.Elem()
	} else {
		panic(Unsupported{"string indexing"})
	}
	kk, ok := mapKey(key)
	if !ok {
		// any key misses in an empty (or nil) map
		if mv, isMap := base.(MapV); (isMap && len(mv.M.Vals) == 0) || IsNil(base) {
			kk = "\x00unknown-key"
		} else {
			panic(Unsupported{"map lookup with a non-constant key"})
		}
	}
	var val Value
	found := false
	if mv, ok := base.(MapV); ok {
		val, found = mv.M.Vals[kk]
	} else if !IsNil(base) {
		panic(Unsupported{"lookup in " + Describe(base)})
	}
	if !found {
		val = m.Zero(vt)
	}
	if x.CommaOk {
		return TupleV{[]Value{val, BoolC(found)}}
	}
	return val
}

func (m *Machine) mapUpdate(fr *frame, x *ssa.MapUpdate) {
	base := m.get(fr, x.Map)
	mv, ok := base.(MapV)
	if !ok {
		m.progPanic(fr, x.Pos(), "assignment to entry in nil map")
	}
	kk, ok := mapKey(m.get(fr, x.Key))
	if !ok {
		panic(Unsupported{"map update with a non-constant key"})
	}
	if _, had := mv.M.Vals[kk]; !had {
		mv.M.Keys = append(mv.M.Keys, kk)
	}
	mv.M.Vals[kk] = m.get(fr, x.Value)
}

// mapKey canonicalises the map keys the interpreter supports: constant strings and integers, pointers
// (by cell identity) and booleans.
func mapKey(v Value) (string, bool) {
	switch k := v.(type) {
	case StrV:
		if k.Known {
			return "s:" + k.S, true
		}
	case IntV:
		if c, ok := k.P.Const(); ok {
			return fmt.Sprintf("i:%d", c), true
		}
	case PtrV:
		return fmt.Sprintf("p:%d", k.C.ID), true
	case BoolV:
		if k.Known {
			return fmt.Sprintf("b:%v", k.Val), true
		}
	case NilV:
		return "nil", true
	}
	return "", false
}

func (m *Machine) builtin(fr *frame, b *ssa.Builtin, args []Value, call *ssa.Call) Value {
	switch b.Name() {
	case "len", "cap":
		switch x := args[0].(type) {
		case SliceV:
			if b.Name() == "len" {
				return IntC(int64(x.Len))
			}
			return IntC(int64(x.Cap))
		case StrV:
			if x.Known {
				return IntC(int64(len(x.S)))
			}
		case MapV:
			return IntC(int64(len(x.M.Vals)))
		case NilV:
			return IntC(0)
		case ArrayV:
			return IntC(int64(len(x.E)))
		}
		panic(Unsupported{"len of " + Describe(args[0])})
	case "append":
		s, ok := args[0].(SliceV)
		if !ok && !IsNil(args[0]) {
			panic(Unsupported{"append to " + Describe(args[0])})
		}
		var add SliceV
		switch a := args[1].(type) {
		case SliceV:
			add = a
		default:
			if !IsNil(args[1]) {
				panic(Unsupported{"append of " + Describe(args[1])})
			}
		}
		if add.Len == 0 {
			return s
		}
		et := call.Type().Underlying().(*types.Slice).Elem()
		vals := SliceElems(add)
		if s.Arr != nil && s.Len+add.Len <= s.Cap {
			for i, v := range vals {
				if m.OnStore != nil {
					m.OnStore(s.Arr.Elems[s.Off+s.Len+i], call.Pos(), fr.fn)
				}
				storeCell(s.Arr.Elems[s.Off+s.Len+i], v)
			}
			return SliceV{Arr: s.Arr, Off: s.Off, Len: s.Len + add.Len, Cap: s.Cap}
		}
		all := append(SliceElems(s), vals...)
		return m.SliceOf(m.resolveType(et), all, fr.fn.Name()+":append")
	case "copy":
		dst, ok1 := args[0].(SliceV)
		src, ok2 := args[1].(SliceV)
		if !ok1 || !ok2 {
			if IsNil(args[0]) || IsNil(args[1]) {
				return IntC(0)
			}
			panic(Unsupported{"copy of non-slices"})
		}
		n := dst.Len
		if src.Len < n {
			n = src.Len
		}
		vals := SliceElems(src)
		for i := 0; i < n; i++ {
			if m.OnStore != nil {
				m.OnStore(dst.Arr.Elems[dst.Off+i], call.Pos(), fr.fn)
			}
			storeCell(dst.Arr.Elems[dst.Off+i], vals[i])
		}
		return IntC(int64(n))
	case "print", "println":
		return nil
	case "clear":
		if sl, ok := args[0].(SliceV); ok {
			for i := 0; i < sl.Len; i++ {
				c := sl.Arr.Elems[sl.Off+i]
				if m.OnStore != nil {
					m.OnStore(c, call.Pos(), fr.fn)
				}
				storeCell(c, m.Zero(c.T))
			}
			return nil
		}
		if mv, ok := args[0].(MapV); ok {
			mv.M.Keys, mv.M.Vals = nil, map[string]Value{}
			return nil
		}
		return nil
	case "min", "max":
		acc := args[0]
		for _, a := range args[1:] {
			switch x := acc.(type) {
			case FloatV:
				acc = FloatV{sym.FnE(b.Name(), x.E, a.(FloatV).E)}
			case IntV:
				y := a.(IntV)
				cx, ok1 := x.P.Const()
				cy, ok2 := y.P.Const()
				if !ok1 || !ok2 {
					// decide by branching on the order
					less := m.Branch(sym.IntCond(sym.CLt(x.P, y.P)))
					if (b.Name() == "min") == less {
						acc = x
					} else {
						acc = y
					}
					continue
				}
				if (b.Name() == "min") == (cx < cy) {
					acc = x
				} else {
					acc = y
				}
			default:
				panic(Unsupported{"builtin " + b.Name() + " on " + Describe(acc)})
			}
		}
		return acc
	}
	panic(Unsupported{"builtin " + b.Name()})
}

// builtinExternal models the handful of standard-library functions the repository calls.
func (m *Machine) builtinExternal(fn *ssa.Function, args []Value) (Value, bool) {
	full := strings.TrimSuffix(fn.String(), "$bound") // a bound method value (mu.Unlock passed around) behaves like the method
	if strings.HasSuffix(fn.String(), "$bound") && len(fn.FreeVars) == 1 {
		switch full {
		case "(*sync.Mutex).Lock", "(*sync.Mutex).Unlock", "(*sync.RWMutex).Lock", "(*sync.RWMutex).Unlock", "(*sync.RWMutex).RLock", "(*sync.RWMutex).RUnlock":
			return nil, true
		}
	}
	f1 := func(name string) (Value, bool) {
		return FloatV{sym.FnE(name, args[0].(FloatV).E)}, true
	}
	switch full {
	case "fmt.Errorf":
		msg := ""
		if s, ok := args[0].(StrV); ok {
			msg = s.S
		}
		return ErrV{Msg: msg}, true
	case "errors.New":
		msg := ""
		if s, ok := args[0].(StrV); ok {
			msg = s.S
		}
		return ErrV{Msg: msg}, true
	case "fmt.Sprintf", "fmt.Sprint":
		return StrV{Known: false}, true
	case "math.Sqrt":
		return f1("sqrt")
	case "math.Exp":
		return f1("exp")
	case "math.Log":
		return f1("log")
	case "math.Sin":
		return f1("sin")
	case "math.Cos":
		return f1("cos")
	case "math.Tan":
		return f1("tan")
	case "math.Sinh":
		return f1("sinh")
	case "math.Cosh":
		return f1("cosh")
	case "math.Tanh":
		return f1("tanh")
	case "math.Abs":
		return f1("abs")
	case "math.Pow":
		return FloatV{sym.PowE(args[0].(FloatV).E, args[1].(FloatV).E)}, true
	case "math.Max":
		return FloatV{sym.FnE("max", args[0].(FloatV).E, args[1].(FloatV).E)}, true
	case "math.Min":
		return FloatV{sym.FnE("min", args[0].(FloatV).E, args[1].(FloatV).E)}, true
	case "(*sync.Mutex).Lock", "(*sync.Mutex).Unlock", "(*sync.RWMutex).Lock", "(*sync.RWMutex).Unlock",
		"(*sync.RWMutex).RLock", "(*sync.RWMutex).RUnlock", "(*sync.WaitGroup).Add", "(*sync.WaitGroup).Done", "(*sync.WaitGroup).Wait":
		// single abstract thread: locks are no-ops for the value semantics analysed here
		return nil, true
	case "(*sync.Once).Do":
		// the function runs on the first Do of this Once object on the path, never again
		if p, ok := args[0].(PtrV); ok && p.C != nil {
			if m.onceDone == nil {
				m.onceDone = map[*Cell]bool{}
			}
			if m.onceDone[p.C] {
				return nil, true
			}
			m.onceDone[p.C] = true
		}
		m.CallValue(args[1], nil)
		return nil, true
	case "gonum.org/v1/gonum/floats.Sum", "gonum.org/v1/gonum/floats.SumCompensated":
		// the sum of the elements (compensation changes rounding only)
		if sl, ok := args[0].(SliceV); ok {
			acc := sym.Expr{}
			closed, anyInf := true, false
			var vals []float64
			for _, el := range SliceElems(sl) {
				f, isF := el.(FloatV)
				if !isF {
					return nil, false
				}
				acc = sym.Add(acc, f.E)
				if v, ok := sym.ClosedConst(f.E); ok && closed {
					vals = append(vals, v)
					if math.IsInf(v, 0) {
						anyInf = true
					}
				} else {
					closed = false
				}
			}
			if closed && anyInf && strings.HasSuffix(full, "SumCompensated") {
				// closed constants with an infinity among them: the Kahan-Neumaier scheme itself, in IEEE arithmetic
				// (its correction term is Inf-Inf = NaN once the running sum is infinite)
				var sum, c float64
				for _, x := range vals {
					t := sum + x
					if math.Abs(sum) >= math.Abs(x) {
						c += (sum - t) + x
					} else {
						c += (x - t) + sum
					}
					sum = t
				}
				return FloatV{sym.NumF(sum + c)}, true
			}
			return FloatV{acc}, true
		}
	case "math.Frexp":
		// x = frac · 2^exp with an unknown integer exponent
		ex := sym.PAtom(m.FreshSym("frexp"))
		x := args[0].(FloatV).E
		return TupleV{[]Value{FloatV{sym.Mul(x, sym.PowE(sym.NumI(2), sym.Neg(sym.PolyE(ex))))}, IntV{P: ex}}}, true
	case "math.Ldexp":
		if e, ok := args[1].(IntV); ok {
			return FloatV{sym.Mul(args[0].(FloatV).E, sym.PowE(sym.NumI(2), sym.PolyE(e.P)))}, true
		}
	case "runtime.GOMAXPROCS", "runtime.NumCPU":
		// one machine configuration: four processors
		return IntV{P: sym.PInt(4)}, true
	case "math.Float64bits", "math.Float32bits":
		// an opaque integer image of the value
		return IntV{P: sym.PAtom(m.FreshSym("bits"))}, true
	case "math.Inf":
		s := args[0].(IntV)
		if c, ok := s.P.Const(); ok {
			if c >= 0 {
				return FloatC(math.Inf(1)), true
			}
			return FloatC(math.Inf(-1)), true
		}
	}
	// text plumbing (error messages): functions of strings / strconv / fmt / errors / unicode never touch tensor
	// state; their results are unknown strings, fresh integers, fresh errors.  Builder methods are no-ops.
	if fn.Pkg != nil {
		switch fn.Pkg.Pkg.Path() {
		case "strings", "strconv", "fmt", "errors", "unicode", "unicode/utf8", "bytes":
			if v, ok := m.textResult(fn, args); ok {
				return v, true
			}
		}
	}
	// any other function of package math over floats: an uninterpreted function symbol (consistent on both sides)
	if fn.Pkg != nil && fn.Pkg.Pkg.Path() == "math" && len(args) >= 1 && fn.Signature.Results().Len() == 1 {
		if _, isF := fn.Signature.Results().At(0).Type().Underlying().(*types.Basic); isF {
			var es []sym.Expr
			for _, a := range args {
				f, ok := a.(FloatV)
				if !ok {
					return nil, false
				}
				es = append(es, f.E)
			}
			if b := fn.Signature.Results().At(0).Type().Underlying().(*types.Basic); b.Info()&types.IsFloat != 0 {
				return FloatV{sym.FnE("math_"+fn.Name(), es...)}, true
			}
		}
	}
	return nil, false
}

// stdSummary models the in-place helpers of package slices exactly as documented (their bodies use unsafe
// overlap checks that are not interpreted): Insert and Delete write into the argument's backing array when
// capacity allows, which is precisely what an aliasing analysis must see.
func (m *Machine) stdSummary(fn *ssa.Function, args []Value) (Value, bool) {
	if fn.Pkg == nil && fn.Origin() == nil {
		return nil, false
	}
	pk := fn.Pkg
	if pk == nil && fn.Origin() != nil {
		pk = fn.Origin().Pkg
	}
	if pk == nil || pk.Pkg.Path() != "slices" {
		return nil, false
	}
	name := fn.Name()
	if i := strings.Index(name, "["); i >= 0 {
		name = name[:i]
	}
	store := func(c *Cell, v Value) {
		if m.OnStore != nil {
			m.OnStore(c, fn.Pos(), fn)
		}
		storeCell(c, v)
	}
	switch name {
	case "Insert":
		s, ok := args[0].(SliceV)
		if !ok {
			s = SliceV{}
		}
		iv, ok := args[1].(IntV)
		if !ok {
			return nil, false
		}
		i, okc := m.Concretize(iv, 0, s.Len)
		if !okc {
			panic(ProgPanic{Msg: "slices.Insert: index out of range", Pos: fn.Pos(), Fn: fn.String()})
		}
		var vs []Value
		if v, ok := args[2].(SliceV); ok {
			vs = SliceElems(v)
		}
		if len(vs) == 0 {
			return s, true
		}
		old := SliceElems(s)
		n := len(old) + len(vs)
		if s.Arr != nil && n <= s.Cap {
			all := append(append(append([]Value{}, old[:i]...), vs...), old[i:]...)
			for k := i; k < n; k++ {
				store(s.Arr.Elems[s.Off+k], all[k])
			}
			return SliceV{Arr: s.Arr, Off: s.Off, Len: n, Cap: s.Cap}, true
		}
		all := append(append(append([]Value{}, old[:i]...), vs...), old[i:]...)
		et := fn.Signature.Results().At(0).Type().Underlying().(*types.Slice).Elem()
		return m.SliceOf(et, all, "slices.Insert"), true
	case "Delete":
		s, ok := args[0].(SliceV)
		if !ok {
			return SliceV{}, true
		}
		iv, ok1 := args[1].(IntV)
		jv, ok2 := args[2].(IntV)
		if !ok1 || !ok2 {
			return nil, false
		}
		i, oki := m.Concretize(iv, 0, s.Len)
		j, okj := m.Concretize(jv, 0, s.Len)
		if !oki || !okj || i > j {
			panic(ProgPanic{Msg: "slices.Delete: bounds out of range", Pos: fn.Pos(), Fn: fn.String()})
		}
		if i == j {
			return s, true
		}
		old := SliceElems(s)
		rest := append(append([]Value{}, old[:i]...), old[j:]...)
		for k := i; k < len(rest); k++ {
			store(s.Arr.Elems[s.Off+k], rest[k])
		}
		for k := len(rest); k < s.Len; k++ {
			store(s.Arr.Elems[s.Off+k], m.Zero(s.Arr.Elems[s.Off+k].T))
		}
		return SliceV{Arr: s.Arr, Off: s.Off, Len: len(rest), Cap: s.Cap}, true
	case "Clone":
		s, ok := args[0].(SliceV)
		if !ok || s.Arr == nil {
			return SliceV{}, true
		}
		et := s.Arr.T.(*types.Array).Elem()
		return m.SliceOf(et, SliceElems(s), "slices.Clone"), true
	case "Reverse":
		s, ok := args[0].(SliceV)
		if !ok {
			return nil, true
		}
		old := SliceElems(s)
		for k := range old {
			store(s.Arr.Elems[s.Off+k], old[len(old)-1-k])
		}
		return nil, true
	}
	return nil, false
}

// textResult fabricates the result of a text-plumbing function from its result types.
func (m *Machine) textResult(fn *ssa.Function, args []Value) (Value, bool) {
	res := fn.Signature.Results()
	mk := func(t types.Type) (Value, bool) {
		if types.Identical(t, types.Universe.Lookup("error").Type()) {
			switch fn.Name() {
			case "New", "Errorf", "Join":
				return ErrV{Msg: "error built by " + fn.Pkg.Pkg.Path() + "." + fn.Name()}, true
			}
			return NilV{}, true // conversions that cannot fail on the values the library feeds them are not modelled
		}
		switch u := t.Underlying().(type) {
		case *types.Basic:
			switch {
			case u.Info()&types.IsString != 0:
				return StrV{Known: false}, true
			case u.Info()&types.IsInteger != 0:
				return IntV{P: sym.PAtom(m.FreshSym("textint"))}, true
			case u.Info()&types.IsBoolean != 0:
				return BoolV{C: sym.RealEQ(sym.SymE(m.FreshSym("textbool")), sym.Expr{})}, true
			case u.Info()&types.IsFloat != 0:
				return FloatV{E: sym.SymE(m.FreshSym("textfloat"))}, true
			}
		case *types.Slice:
			if b, ok := u.Elem().Underlying().(*types.Basic); ok && (b.Info()&types.IsString != 0 || b.Kind() == types.Byte) {
				return OpaqueV{Why: "text produced by " + fn.Name()}, true
			}
		}
		return nil, false
	}
	switch res.Len() {
	case 0:
		return nil, true
	case 1:
		return mk(res.At(0).Type())
	}
	vs := make([]Value, res.Len())
	for i := range vs {
		v, ok := mk(res.At(i).Type())
		if !ok {
			return nil, false
		}
		vs[i] = v
	}
	return TupleV{vs}, true
}
