package interp

import (
	"fmt"
	"go/constant"
	"go/token"
	"go/types"
	"os"
	"time"

	"golang.org/x/tools/go/ssa"

	"qverif/sym"
)

// ProgPanic is a run-time panic of the analysed program reached on the current abstract path.
type ProgPanic struct {
	Msg string
	Pos token.Pos
	Fn  string
}

type OutcomeKind int

const (
	Returned OutcomeKind = iota
	Panicked
	Diverged // step budget exhausted (possible non-termination)
)

type Outcome struct {
	Kind    OutcomeKind
	Results []Value
	Panic   ProgPanic
}

type Hooks struct {
	// Enter decides whether a function with a body is interpreted; others go to External.
	Enter func(fn *ssa.Function) bool
	// Static may summarise a statically resolved call (or closure call); return handled=false to proceed.
	Static func(m *Machine, fn *ssa.Function, args []Value) (res Value, handled bool)
	// Invoke may summarise an interface method call.
	Invoke func(m *Machine, recv Value, method *types.Func, args []Value) (res Value, handled bool)
	// External handles calls to functions that are not entered (after the built-in table).
	External func(m *Machine, fn *ssa.Function, args []Value) (res Value, handled bool)
}

type Event struct {
	Kind string
	Data map[string]string
	Pos  token.Pos
}

type Machine struct {
	Prog  *ssa.Program
	Hooks Hooks

	// path exploration
	trace []bool
	pos   int

	Base   []sym.Constraint // instance assumptions
	PC     []sym.Constraint // integer path condition
	RC     []*sym.Cond      // non-integer path condition (assumed true)
	rcKeys map[string]bool

	steps    int
	MaxSteps int
	forkAt   map[ssa.Instruction]int // forks taken at each branch instruction on the current path
	// LoopCut > 0: a path that forks more than LoopCut times at one branch instruction is abandoned
	// (counted in Cuts) instead of failing the whole exploration
	LoopCut int
	Cuts    int
	// PinAtoms != nil: the atoms of the base facts are fixed to these values (filled on demand)
	PinAtoms map[string]int64
	GoStmts  int // go statements interpreted (sequential schedule)
	cellSeq  int
	depth    int

	// OnStore, when set, observes every store performed by interpreted code (cell written, position).
	OnStore func(c *Cell, pos token.Pos, fn *ssa.Function)

	TypeArgs map[string]types.Type // type parameter name -> type argument (for generic bodies)
	Events   []Event
	User     any // driver-specific state (reset by the driver per path)

	symSeq   int
	Interned map[string]sym.Expr
	inInit   int
	globals  map[*ssa.Global]*Cell
	initDone map[*ssa.Package]bool // integer atoms standing for float->int conversions etc.
	onceDone map[*Cell]bool        // sync.Once objects whose function has run on this path
}

func NewMachine(prog *ssa.Program) *Machine {
	return &Machine{Prog: prog, MaxSteps: 400000, rcKeys: map[string]bool{}, Interned: map[string]sym.Expr{}}
}

// CellSeq returns the id of the most recently allocated cell (cells allocated later have larger ids).
func (m *Machine) CellSeq() int { return m.cellSeq }

func (m *Machine) FreshSym(prefix string) string {
	m.symSeq++
	return fmt.Sprintf("%s%d", prefix, m.symSeq)
}

func (m *Machine) Emit(kind string, pos token.Pos, kv ...string) {
	d := map[string]string{}
	for i := 0; i+1 < len(kv); i += 2 {
		d[kv[i]] = kv[i+1]
	}
	m.Events = append(m.Events, Event{Kind: kind, Data: d, Pos: pos})
}

/* ---------- path conditions ---------- */

func (m *Machine) ctx() []sym.Constraint {
	out := make([]sym.Constraint, 0, len(m.Base)+len(m.PC)+4)
	out = append(out, m.Base...)
	if m.PinAtoms != nil {
		// concrete-size fallback: every atom the base facts speak about is fixed to a small constant
		seen := map[string]bool{}
		for _, c := range m.Base {
			for _, a := range c.P.Atoms() {
				if seen[a] || sym.IsStructAtom(a) {
					continue
				}
				seen[a] = true
				v, ok := m.PinAtoms[a]
				if !ok {
					v = 2 + int64(len(m.PinAtoms)%2)
					m.PinAtoms[a] = v
				}
				out = append(out, sym.CEq(sym.PAtom(a), sym.PInt(v)))
			}
		}
	}
	out = append(out, m.PC...)
	return out
}

// PathString renders the current path condition.
func (m *Machine) PathString() string {
	s := ""
	for _, c := range m.PC {
		if s != "" {
			s += " ∧ "
		}
		s += c.String()
	}
	for _, c := range m.RC {
		if s != "" {
			s += " ∧ "
		}
		s += c.String()
	}
	if s == "" {
		return "true"
	}
	return s
}

// SymEqualities returns the real symbols fixed to constants by the path condition (e.g. after `if a == 0`).
func (m *Machine) SymEqualities() map[string]sym.Expr {
	out := map[string]sym.Expr{}
	for _, c := range m.RC {
		if c.Kind == sym.CRealEQ {
			if n, v, ok := sym.SolveSym(c.E); ok {
				out[n] = v
			}
		}
	}
	return out
}

// RealConds returns the non-integer part of the path condition.
func (m *Machine) RealConds() []*sym.Cond { return m.RC }

// PathConstraints returns base assumptions plus the integer path condition.
func (m *Machine) PathConstraints() []sym.Constraint { return m.ctx() }

func (m *Machine) fork() bool {
	var d bool
	if m.pos < len(m.trace) {
		d = m.trace[m.pos]
	} else {
		d = true
		m.trace = append(m.trace, true)
	}
	m.pos++
	return d
}

// Assume adds a condition to the path without forking (used by drivers for instance constraints that
// involve the path, and by summaries after a decided precondition).
func (m *Machine) Assume(c *sym.Cond) {
	if cs, ok := c.IntConstraints(); ok {
		m.PC = append(m.PC, cs...)
		return
	}
	m.RC = append(m.RC, c)
	m.rcKeys[c.Key()] = true
	m.rcKeys[sym.Not(c).Key()] = false
}

// Entailed reports whether the condition is proved by the current path (no fork).
func (m *Machine) Entailed(c *sym.Cond) bool {
	if v, ok := c.Decide(); ok {
		return v
	}
	switch c.Kind {
	case sym.CInt:
		return sym.Entails(m.ctx(), c.C)
	case sym.CAnd:
		for _, s := range c.Sub {
			if !m.Entailed(s) {
				return false
			}
		}
		return true
	case sym.COr:
		for _, s := range c.Sub {
			if m.Entailed(s) {
				return true
			}
		}
		// try refuting the negation as a whole when purely integer
		if cs, ok := sym.Not(c).IntConstraints(); ok {
			return !sym.Sat(append(m.ctx(), cs...))
		}
		return false
	}
	if v, ok := m.rcKeys[c.Key()]; ok {
		return v
	}
	return false
}

// Branch decides a condition on the current path, forking when it is not determined.
func (m *Machine) Branch(c *sym.Cond) bool {
	if v, ok := c.Decide(); ok {
		return v
	}
	switch c.Kind {
	case sym.CAnd:
		for _, s := range c.Sub {
			if !m.Branch(s) {
				return false
			}
		}
		return true
	case sym.COr:
		for _, s := range c.Sub {
			if m.Branch(s) {
				return true
			}
		}
		return false
	case sym.CInt:
		ctx := m.ctx()
		if sym.Entails(ctx, c.C) {
			return true
		}
		if sym.Entails(ctx, c.C.Not()) {
			return false
		}
		if m.fork() {
			m.PC = append(m.PC, c.C)
			return true
		}
		m.PC = append(m.PC, c.C.Not())
		return false
	}
	k := c.Key()
	if v, ok := m.rcKeys[k]; ok {
		return v
	}
	n := sym.Not(c)
	if m.fork() {
		m.RC = append(m.RC, c)
		m.rcKeys[k] = true
		m.rcKeys[n.Key()] = false
		return true
	}
	m.RC = append(m.RC, n)
	m.rcKeys[k] = false
	m.rcKeys[n.Key()] = true
	return false
}

// Concretize turns an integer value into a Go int, forking over the feasible values in [lo,hi];
// values outside the range are reported through ok=false (after forking on the out-of-range case).
func (m *Machine) Concretize(v IntV, lo, hi int) (int, bool) {
	if c, ok := v.P.Const(); ok {
		if c < int64(lo) || c > int64(hi) {
			return int(c), false
		}
		return int(c), true
	}
	if hi-lo > 12 {
		// narrow the range with what the path condition says about v (validators usually bound it)
		ctx := m.ctx()
		for b := lo; b <= lo+12 && b <= hi; b++ {
			if sym.Entails(ctx, sym.CLe(v.P, sym.PInt(int64(b)))) {
				hi = b
				break
			}
		}
		if hi-lo > 12 {
			for b := hi; b >= hi-12 && b >= lo; b-- {
				if sym.Entails(ctx, sym.CGe(v.P, sym.PInt(int64(b)))) {
					lo = b
					break
				}
			}
		}
	}
	if hi-lo > 12 && m.PinAtoms != nil {
		// concrete-size fallback: an unconstrained length is explored for its smallest values only (bounded)
		hi = lo + 3
		m.PC = append(m.PC, sym.CLe(v.P, sym.PInt(int64(hi))))
	}
	if hi-lo > 12 {
		// an unbounded symbolic length/index would mean enumerating every value: outside the fragment
		panic(Unsupported{"symbolic integer " + v.P.String() + " used as a length or index over a wide range"})
	}
	if m.Branch(sym.IntCond(sym.CLt(v.P, sym.PInt(int64(lo))))) {
		return lo - 1, false
	}
	if m.Branch(sym.IntCond(sym.CGt(v.P, sym.PInt(int64(hi))))) {
		return hi + 1, false
	}
	for i := lo; i < hi; i++ {
		if m.Branch(sym.IntCond(sym.CEq(v.P, sym.PInt(int64(i))))) {
			return i, true
		}
	}
	return hi, true
}

/* ---------- exploration driver ---------- */

// Explore enumerates the abstract paths of body.  body is re-run from scratch for every path (it must
// build its own arguments: the heap is mutable); every undetermined branch inside it forks.  It returns
// the number of paths, or an error when the code leaves the supported fragment or a budget is exhausted.
// SoftDeadline: once passed, path exploration stops with an "unsupported" error so that the check still files what it
// has decided (violations found so far keep their exit status) instead of being killed by the wall-clock limit.
var SoftDeadline time.Time

func (m *Machine) Explore(maxPaths int, body func()) (n int, err error) {
	m.trace = nil
	for {
		n++
		if !SoftDeadline.IsZero() && time.Now().After(SoftDeadline) {
			return n, Unsupported{Msg: "time budget of the check exhausted"}
		}
		if n > maxPaths {
			return n, fmt.Errorf("path budget (%d) exhausted", maxPaths)
		}
		if e := m.runOnce(body); e != nil {
			return n, e
		}
		// next trace: flip the last 'true' decision
		t := m.trace[:m.pos]
		i := len(t) - 1
		for i >= 0 && !t[i] {
			i--
		}
		if i < 0 {
			return n, nil
		}
		nt := append([]bool{}, t[:i]...)
		nt = append(nt, false)
		m.trace = nt
	}
}

func (m *Machine) resetPath() {
	m.pos = 0
	m.PC = nil
	m.RC = nil
	m.rcKeys = map[string]bool{}
	m.steps = 0
	m.depth = 0
	m.Events = nil
	m.forkAt = nil
	m.globals = nil
	m.initDone = nil
	m.onceDone = nil
}

func (m *Machine) runOnce(body func()) (err error) {
	m.resetPath()
	defer func() {
		if r := recover(); r != nil {
			switch x := r.(type) {
			case Unsupported:
				err = x
			case CutPath:
				m.Cuts++
			case ProgPanic:
				err = fmt.Errorf("uncaught program panic: %s", x.Msg)
			case divergence:
				err = fmt.Errorf("step budget exhausted (possible non-termination)")
			default:
				panic(r)
			}
		}
	}()
	body()
	return nil
}

// Run calls fn and classifies the outcome (return / program panic / divergence).
func (m *Machine) Run(call func() Value) (out Outcome) {
	saveDepth := m.depth
	defer func() {
		if r := recover(); r != nil {
			m.depth = saveDepth
			switch x := r.(type) {
			case ProgPanic:
				out = Outcome{Kind: Panicked, Panic: x}
			case divergence:
				out = Outcome{Kind: Diverged}
			default:
				panic(r)
			}
		}
	}()
	res := call()
	out = Outcome{Kind: Returned}
	switch x := res.(type) {
	case nil:
	case TupleV:
		out.Results = x.V
	default:
		out.Results = []Value{x}
	}
	return out
}

type divergence struct{}

// CutPath abandons the current path (bounded loop unrolling); Explore goes on with the next one.
type CutPath struct{ Why string }

/* ---------- frames ---------- */

type frame struct {
	fn     *ssa.Function
	locals map[ssa.Value]Value
	defers []func()
	forkAt map[ssa.Instruction]int
}

func (m *Machine) progPanic(fr *frame, pos token.Pos, format string, a ...any) {
	fn := ""
	if fr != nil {
		fn = fr.fn.String()
	}
	panic(ProgPanic{Msg: fmt.Sprintf(format, a...), Pos: pos, Fn: fn})
}

func (m *Machine) get(fr *frame, v ssa.Value) Value {
	switch x := v.(type) {
	case *ssa.Const:
		return m.constValue(x)
	case *ssa.Function:
		return ClosureV{Fn: x}
	case *ssa.Global:
		return PtrV{m.globalCell(x)}
	case *ssa.Builtin:
		panic(Unsupported{"builtin used as value " + x.Name()})
	}
	val, ok := fr.locals[v]
	if !ok {
		panic(Unsupported{fmt.Sprintf("value %s (%T) not computed in %s", v.Name(), v, fr.fn.String())})
	}
	return val
}

// globalCell returns the cell of a package-level variable of the analysed module, running the package's
// initialiser on first use (per path).
func (m *Machine) globalCell(g *ssa.Global) *Cell {
	if m.globals == nil {
		m.globals = map[*ssa.Global]*Cell{}
		m.initDone = map[*ssa.Package]bool{}
	}
	pkg := g.Pkg
	if pkg == nil || m.Hooks.Enter == nil {
		panic(Unsupported{"package-level variable " + g.String()})
	}
	if !m.initDone[pkg] {
		m.initDone[pkg] = true
		for _, mem := range pkg.Members {
			if gv, ok := mem.(*ssa.Global); ok {
				m.globals[gv] = m.newCell(gv.Type().(*types.Pointer).Elem(), "global:"+gv.Name())
			}
		}
		if init := pkg.Func("init"); init != nil && init.Blocks != nil && m.Hooks.Enter(init) {
			m.inInit++
			m.Call(init, nil, nil)
			m.inInit--
		}
		m.Emit("global-init", g.Pos(), "package", pkg.Pkg.Path())
	}
	c, ok := m.globals[g]
	if !ok {
		panic(Unsupported{"package-level variable " + g.String()})
	}
	m.Emit("global-access", g.Pos(), "var", g.String())
	return c
}

func (m *Machine) constValue(c *ssa.Const) Value {
	t := c.Type()
	if c.Value == nil {
		return m.Zero(m.resolveType(t))
	}
	switch u := t.Underlying().(type) {
	case *types.Basic:
		switch {
		case u.Info()&types.IsBoolean != 0:
			return BoolC(constant.BoolVal(c.Value))
		case u.Info()&types.IsInteger != 0:
			i, _ := constant.Int64Val(constant.ToInt(c.Value))
			return IntC(i)
		case u.Info()&types.IsFloat != 0:
			f, _ := constant.Float64Val(constant.ToFloat(c.Value))
			return FloatC(f)
		case u.Info()&types.IsString != 0:
			return StrV{S: constant.StringVal(c.Value), Known: true}
		}
	}
	panic(Unsupported{"constant of type " + t.String()})
}

func (m *Machine) resolveType(t types.Type) types.Type {
	if tp, ok := t.(*types.TypeParam); ok {
		if a, ok := m.TypeArgs[tp.Obj().Name()]; ok {
			return a
		}
	}
	return t
}

/* ---------- calls ---------- */

// Call interprets fn with the given arguments (and closure bindings).
func (m *Machine) Call(fn *ssa.Function, args []Value, bind []Value) Value {
	if m.Hooks.Static != nil {
		if res, ok := m.Hooks.Static(m, fn, args); ok {
			return res
		}
	}
	if res, ok := m.stdSummary(fn, args); ok {
		return res
	}
	enter := fn.Blocks != nil
	if enter && m.Hooks.Enter != nil {
		enter = m.Hooks.Enter(fn)
	}
	if !enter {
		if m.inInit > 0 && fn.Name() == "init" {
			return nil
		}
		if res, ok := m.builtinExternal(fn, args); ok {
			return res
		}
		if m.Hooks.External != nil {
			if res, ok := m.Hooks.External(m, fn, args); ok {
				return res
			}
		}
		panic(Unsupported{"call to external function " + fn.String()})
	}
	m.depth++
	if m.depth > 200 {
		panic(divergence{})
	}
	defer func() { m.depth-- }()

	fr := &frame{fn: fn, locals: map[ssa.Value]Value{}}
	if len(args) != len(fn.Params) {
		panic(Unsupported{fmt.Sprintf("arity mismatch calling %s: %d args for %d params", fn.String(), len(args), len(fn.Params))})
	}
	for i, p := range fn.Params {
		fr.locals[p] = args[i]
	}
	for i, fv := range fn.FreeVars {
		if i >= len(bind) {
			panic(Unsupported{"missing closure binding in " + fn.String()})
		}
		fr.locals[fv] = bind[i]
	}
	var prev *ssa.BasicBlock
	block := fn.Blocks[0]
	for {
		next, ret, done := m.execBlock(fr, block, prev)
		if done {
			return ret
		}
		prev, block = block, next
	}
}

func (m *Machine) execBlock(fr *frame, b *ssa.BasicBlock, prev *ssa.BasicBlock) (next *ssa.BasicBlock, ret Value, done bool) {
	// phis are evaluated simultaneously
	var phis []*ssa.Phi
	var phiVals []Value
	for _, in := range b.Instrs {
		p, ok := in.(*ssa.Phi)
		if !ok {
			break
		}
		idx := -1
		for i, pb := range b.Preds {
			if pb == prev {
				idx = i
				break
			}
		}
		if idx < 0 {
			panic(Unsupported{"phi without matching predecessor"})
		}
		phis = append(phis, p)
		phiVals = append(phiVals, m.get(fr, p.Edges[idx]))
	}
	for i, p := range phis {
		fr.locals[p] = phiVals[i]
	}
	for _, in := range b.Instrs[len(phis):] {
		m.steps++
		if m.steps > m.MaxSteps {
			panic(divergence{})
		}
		if m.steps&0xfff == 0 && !SoftDeadline.IsZero() && time.Now().After(SoftDeadline) {
			panic(Unsupported{Msg: "time budget of the check exhausted"})
		}
		switch x := in.(type) {
		case *ssa.If:
			c := m.get(fr, x.Cond)
			bv, ok := c.(BoolV)
			if !ok {
				panic(Unsupported{"non-boolean condition"})
			}
			var taken bool
			if bv.Known {
				taken = bv.Val
			} else {
				before := m.pos
				taken = m.Branch(bv.C)
				if m.pos != before {
					// counted per activation: a loop over a symbolic bound forks again and again at one branch of one
					// running function; a kernel that is called once per element gets a fresh count each time
					if fr.forkAt == nil {
						fr.forkAt = map[ssa.Instruction]int{}
					}
					fr.forkAt[x]++
					if m.LoopCut > 0 && fr.forkAt[x] > m.LoopCut {
						// bounded unrolling: this path iterates a symbolic-bound loop further than the bound; it
						// is abandoned (and counted), the shorter paths are explored completely
						if os.Getenv("QVERIF_DEBUG") != "" {
							fmt.Fprintf(os.Stderr, "DBG cut in %s at %s cond=%v\n", fr.fn.String(), m.Prog.Fset.Position(x.Pos()), Describe(m.get(fr, x.Cond)))
						}
						panic(CutPath{Why: "more than " + fmt.Sprint(m.LoopCut) + " iterations of a loop over a symbolic bound"})
					}
					if fr.forkAt[x] > 12 {
						panic(Unsupported{"loop whose bound is a symbolic integer (the same branch forked more than 12 times on one path)"})
					}
				}
			}
			if taken {
				return b.Succs[0], nil, false
			}
			return b.Succs[1], nil, false
		case *ssa.Jump:
			return b.Succs[0], nil, false
		case *ssa.Return:
			switch len(x.Results) {
			case 0:
				return nil, nil, true
			case 1:
				return nil, m.get(fr, x.Results[0]), true
			default:
				vs := make([]Value, len(x.Results))
				for i, r := range x.Results {
					vs[i] = m.get(fr, r)
				}
				return nil, TupleV{vs}, true
			}
		case *ssa.Panic:
			v := m.get(fr, x.X)
			m.progPanic(fr, x.Pos(), "explicit panic: %s", Describe(v))
		case *ssa.Store:
			addr := m.get(fr, x.Addr)
			p, ok := addr.(PtrV)
			if !ok {
				m.progPanic(fr, x.Pos(), "nil pointer dereference (store)")
			}
			if m.OnStore != nil {
				m.OnStore(p.C, x.Pos(), fr.fn)
			}
			storeCell(p.C, m.get(fr, x.Val))
		case *ssa.MapUpdate:
			m.mapUpdate(fr, x)
		case *ssa.DebugRef:
		case *ssa.RunDefers:
			for i := len(fr.defers) - 1; i >= 0; i-- {
				fr.defers[i]()
			}
			fr.defers = nil
		case *ssa.Defer:
			cc := x.Common()
			if cc.IsInvoke() {
				panic(Unsupported{"deferred interface call"})
			}
			args := make([]Value, len(cc.Args))
			for i, a := range cc.Args {
				args[i] = m.get(fr, a)
			}
			switch callee := cc.Value.(type) {
			case *ssa.Function:
				fr.defers = append(fr.defers, func() { m.Call(callee, args, nil) })
			case *ssa.Builtin:
				panic(Unsupported{"deferred builtin"})
			default:
				fv := m.get(fr, cc.Value)
				cv, ok := fv.(ClosureV)
				if !ok {
					panic(Unsupported{"deferred call through " + Describe(fv)})
				}
				fr.defers = append(fr.defers, func() { m.Call(cv.Fn, args, cv.Bind) })
			}
		case *ssa.Go:
			// one legal schedule: the goroutine runs to completion at the point where it is started (locks and
			// wait groups are no-ops in this single abstract thread).  What is decided is the VALUE this schedule
			// produces; freedom from races is the business of the effect rules (S4/S8), not of the interpreter.
			cc := x.Common()
			if cc.IsInvoke() {
				panic(Unsupported{"go statement on an interface method"})
			}
			args := make([]Value, len(cc.Args))
			for i, a := range cc.Args {
				args[i] = m.get(fr, a)
			}
			m.GoStmts++
			switch callee := cc.Value.(type) {
			case *ssa.Function:
				m.Call(callee, args, nil)
			case *ssa.Builtin:
				panic(Unsupported{"go statement on a builtin"})
			default:
				fv := m.get(fr, cc.Value)
				cv, ok := fv.(ClosureV)
				if !ok {
					panic(Unsupported{"go statement through " + Describe(fv)})
				}
				m.Call(cv.Fn, args, cv.Bind)
			}
		case *ssa.Send, *ssa.Select:
			panic(Unsupported{fmt.Sprintf("instruction %T", in)})
		case ssa.Value:
			fr.locals[x] = m.eval(fr, x)
		default:
			panic(Unsupported{fmt.Sprintf("instruction %T", in)})
		}
	}
	panic(Unsupported{"block without terminator"})
}

func (m *Machine) eval(fr *frame, v ssa.Value) Value {
	switch x := v.(type) {
	case *ssa.Alloc:
		t := m.resolveType(x.Type().(*types.Pointer).Elem())
		site := x.Comment
		return PtrV{m.newCell(t, fr.fn.Name()+":"+site)}
	case *ssa.UnOp:
		return m.unop(fr, x)
	case *ssa.BinOp:
		return m.binop(fr, x.Op, m.get(fr, x.X), m.get(fr, x.Y), x.Pos())
	case *ssa.Call:
		return m.doCall(fr, x)
	case *ssa.FieldAddr:
		base := m.get(fr, x.X)
		p, ok := base.(PtrV)
		if !ok {
			m.progPanic(fr, x.Pos(), "nil pointer dereference (field %d)", x.Field)
		}
		if p.C.Fields == nil {
			panic(Unsupported{"field address of non-struct cell"})
		}
		return PtrV{p.C.Fields[x.Field]}
	case *ssa.Field:
		sv, ok := m.get(fr, x.X).(StructV)
		if !ok {
			panic(Unsupported{"field of non-struct value"})
		}
		return sv.F[x.Field]
	case *ssa.IndexAddr:
		return m.indexAddr(fr, x)
	case *ssa.Index:
		base := m.get(fr, x.X)
		iv := m.get(fr, x.Index).(IntV)
		switch bb := base.(type) {
		case ArrayV:
			i, ok := m.Concretize(iv, 0, len(bb.E)-1)
			if !ok {
				m.progPanic(fr, x.Pos(), "index out of range [%s] with length %d", iv.P.String(), len(bb.E))
			}
			return bb.E[i]
		}
		panic(Unsupported{"index of " + Describe(base)})
	case *ssa.Slice:
		return m.sliceOp(fr, x)
	case *ssa.MakeSlice:
		lv := m.get(fr, x.Len).(IntV)
		if c, isC := lv.P.Const(); isC && c > 64 && c <= 8192 {
			// a long concrete slice (labelled runs beyond a block-size constant)
			if x.Cap != x.Len {
				if cc, ok := m.get(fr, x.Cap).(IntV).P.Const(); !ok || cc < c {
					panic(Unsupported{"makeslice with a long length and a different capacity"})
				}
			}
			et := m.resolveType(x.Type()).Underlying().(*types.Slice).Elem()
			arr := m.newArrayCell(et, int(c), fr.fn.Name()+":makeslice")
			return SliceV{Arr: arr, Off: 0, Len: int(c), Cap: int(c)}
		}
		n, ok := m.Concretize(lv, 0, 64)
		if !ok {
			if n > 64 {
				panic(Unsupported{"makeslice with a length above the interpreter's bound (" + lv.P.String() + ")"})
			}
			m.progPanic(fr, x.Pos(), "makeslice: len out of range (%s)", lv.P.String())
		}
		cv := m.get(fr, x.Cap).(IntV)
		var c int
		if _, isConst := cv.P.Const(); !isConst && x.Cap != x.Len {
			// a symbolic capacity hint on a fresh slice: spare capacity of fresh memory aliases nothing, so the
			// slice is modelled with cap == len (appends reallocate); only the cap < len panic is kept
			if m.Branch(sym.IntCond(sym.CLt(cv.P, sym.PInt(int64(n))))) {
				m.progPanic(fr, x.Pos(), "makeslice: cap out of range (%s)", cv.P.String())
			}
			c = n
		} else if cc, isC := cv.P.Const(); isC && cc > 64 && cc <= 8192 && int(cc) >= n {
			c = int(cc)
		} else {
			c, ok = m.Concretize(cv, 0, 64)
			if !ok || c < n {
				m.progPanic(fr, x.Pos(), "makeslice: cap out of range (%s)", cv.P.String())
			}
		}
		et := m.resolveType(x.Type()).Underlying().(*types.Slice).Elem()
		arr := m.newArrayCell(et, c, fr.fn.Name()+":makeslice")
		return SliceV{Arr: arr, Off: 0, Len: n, Cap: c}
	case *ssa.MakeMap:
		return MapV{&MapObj{Vals: map[string]Value{}}}
	case *ssa.MakeClosure:
		fn := x.Fn.(*ssa.Function)
		bind := make([]Value, len(x.Bindings))
		for i, b := range x.Bindings {
			bind[i] = m.get(fr, b)
		}
		return ClosureV{Fn: fn, Bind: bind}
	case *ssa.MakeInterface:
		inner := m.get(fr, x.X)
		t := m.resolveType(x.X.Type())
		if iv, ok := inner.(IfaceV); ok && isInterface(t) {
			return iv
		}
		if ev, ok := inner.(ErrV); ok {
			return ev
		}
		return IfaceV{T: t, V: inner}
	case *ssa.ChangeInterface:
		return m.get(fr, x.X)
	case *ssa.ChangeType:
		return m.get(fr, x.X)
	case *ssa.Convert:
		return m.convert(fr, x)
	case *ssa.TypeAssert:
		return m.typeAssert(fr, x)
	case *ssa.Extract:
		t, ok := m.get(fr, x.Tuple).(TupleV)
		if !ok {
			panic(Unsupported{"extract from non-tuple"})
		}
		return t.V[x.Index]
	case *ssa.Lookup:
		return m.lookup(fr, x)
	case *ssa.Phi:
		panic(Unsupported{"phi in the middle of a block"})
	case *ssa.Range, *ssa.Next:
		panic(Unsupported{"range over map or string"})
	case *ssa.SliceToArrayPointer, *ssa.MultiConvert:
		panic(Unsupported{fmt.Sprintf("%T", v)})
	}
	panic(Unsupported{fmt.Sprintf("value instruction %T", v)})
}

func isInterface(t types.Type) bool {
	_, ok := t.Underlying().(*types.Interface)
	return ok
}

func (m *Machine) doCall(fr *frame, call *ssa.Call) Value {
	cc := call.Common()
	if cc.IsInvoke() {
		recv := m.get(fr, cc.Value)
		args := make([]Value, len(cc.Args))
		for i, a := range cc.Args {
			args[i] = m.get(fr, a)
		}
		if IsNil(recv) {
			m.progPanic(fr, call.Pos(), "nil interface method call %s", cc.Method.Name())
		}
		if m.Hooks.Invoke != nil {
			if res, ok := m.Hooks.Invoke(m, recv, cc.Method, args); ok {
				return res
			}
		}
		iv, ok := recv.(IfaceV)
		if !ok {
			panic(Unsupported{"invoke on " + Describe(recv)})
		}
		fn := m.Prog.LookupMethod(iv.T, cc.Method.Pkg(), cc.Method.Name())
		if fn == nil {
			panic(Unsupported{"cannot resolve method " + cc.Method.Name() + " on " + iv.T.String()})
		}
		return m.Call(fn, append([]Value{iv.V}, args...), nil)
	}
	args := make([]Value, len(cc.Args))
	for i, a := range cc.Args {
		args[i] = m.get(fr, a)
	}
	switch callee := cc.Value.(type) {
	case *ssa.Builtin:
		return m.builtin(fr, callee, args, call)
	case *ssa.Function:
		return m.Call(callee, args, nil)
	}
	fv := m.get(fr, cc.Value)
	switch c := fv.(type) {
	case ClosureV:
		return m.Call(c.Fn, args, c.Bind)
	case NilV:
		m.progPanic(fr, call.Pos(), "call of nil function value")
	}
	panic(Unsupported{"call through " + Describe(fv)})
}

// CallValue calls a function value (closure) from a driver or summary.
func (m *Machine) CallValue(f Value, args []Value) Value {
	switch c := f.(type) {
	case ClosureV:
		return m.Call(c.Fn, args, c.Bind)
	}
	panic(Unsupported{"call through " + Describe(f)})
}
