// Package interp is an abstract interpreter over go/ssa.  Integers are polynomials over symbolic atoms,
// floats are symbolic expressions, slices have concrete lengths (ranks are enumerated by the drivers),
// tensor element data is opaque, and every branch whose condition is not determined by the path
// condition forks.  It never runs repository code: the IR is walked with abstract values only.
package interp

import (
	"fmt"
	"go/types"
	"strings"

	"golang.org/x/tools/go/ssa"

	"qverif/sym"
)

type Value interface{}

type IntV struct{ P sym.Poly }
type FloatV struct{ E sym.Expr }
type BoolV struct {
	Known bool
	Val   bool
	C     *sym.Cond // condition for "true" when !Known
}
type StrV struct {
	S     string
	Known bool
}
type NilV struct{}
type PtrV struct{ C *Cell }
type SliceV struct {
	Arr      *Cell // array cell (Elems); nil for a nil slice
	Off, Len int
	Cap      int
}
type StructV struct{ F []Value }
type ArrayV struct{ E []Value }
type IfaceV struct {
	T types.Type
	V Value
}
type ClosureV struct {
	Fn   *ssa.Function
	Bind []Value
}
type TupleV struct{ V []Value }
type ErrV struct{ Msg string }
type MapV struct{ M *MapObj }
type OpaqueV struct{ Why string }

type MapObj struct {
	Keys []string
	Vals map[string]Value
}

// Cell is a memory location.  Struct cells have Fields, array cells have Elems, others hold V.
type Cell struct {
	T      types.Type
	V      Value
	Fields []*Cell
	Elems  []*Cell
	ID     int
	Site   string // allocation site description
}

func IntC(i int64) IntV       { return IntV{sym.PInt(i)} }
func BoolC(b bool) BoolV      { return BoolV{Known: true, Val: b} }
func FloatC(f float64) FloatV { return FloatV{sym.NumF(f)} }

func IsNil(v Value) bool {
	switch x := v.(type) {
	case NilV:
		return true
	case SliceV:
		return x.Arr == nil
	case nil:
		return true
	}
	return false
}

func Describe(v Value) string {
	switch x := v.(type) {
	case IntV:
		return x.P.String()
	case FloatV:
		return x.E.String()
	case BoolV:
		if x.Known {
			return fmt.Sprint(x.Val)
		}
		return "{" + x.C.String() + "}"
	case StrV:
		return fmt.Sprintf("%q", x.S)
	case NilV:
		return "nil"
	case PtrV:
		return fmt.Sprintf("&cell%d", x.C.ID)
	case SliceV:
		if x.Arr == nil {
			return "nil-slice"
		}
		parts := make([]string, 0, x.Len)
		for i := 0; i < x.Len; i++ {
			parts = append(parts, Describe(loadCell(x.Arr.Elems[x.Off+i])))
		}
		return "[" + strings.Join(parts, " ") + "]"
	case StructV:
		parts := make([]string, len(x.F))
		for i, f := range x.F {
			parts[i] = Describe(f)
		}
		return "{" + strings.Join(parts, " ") + "}"
	case IfaceV:
		return "iface(" + Describe(x.V) + ")"
	case ClosureV:
		return "closure " + x.Fn.Name()
	case TupleV:
		parts := make([]string, len(x.V))
		for i, f := range x.V {
			parts[i] = Describe(f)
		}
		return "(" + strings.Join(parts, ", ") + ")"
	case ErrV:
		return "error(" + x.Msg + ")"
	case OpaqueV:
		return "opaque(" + x.Why + ")"
	case MapV:
		return "map"
	}
	return fmt.Sprintf("%T", v)
}

/* ---------- zero values and cells ---------- */

func (m *Machine) newCell(t types.Type, site string) *Cell {
	m.cellSeq++
	c := &Cell{T: t, ID: m.cellSeq, Site: site}
	switch u := t.Underlying().(type) {
	case *types.Struct:
		c.Fields = make([]*Cell, u.NumFields())
		for i := 0; i < u.NumFields(); i++ {
			c.Fields[i] = m.newCell(u.Field(i).Type(), site)
		}
	case *types.Array:
		n := int(u.Len())
		c.Elems = make([]*Cell, n)
		for i := 0; i < n; i++ {
			c.Elems[i] = m.newCell(u.Elem(), site)
		}
	default:
		c.V = zeroScalar(t)
	}
	return c
}

// newArrayCell allocates a backing array of n elements of type elem.
func (m *Machine) newArrayCell(elem types.Type, n int, site string) *Cell {
	m.cellSeq++
	c := &Cell{T: types.NewArray(elem, int64(n)), ID: m.cellSeq, Site: site}
	c.Elems = make([]*Cell, n)
	for i := 0; i < n; i++ {
		c.Elems[i] = m.newCell(elem, site)
	}
	return c
}

func zeroScalar(t types.Type) Value {
	switch u := t.Underlying().(type) {
	case *types.Basic:
		switch {
		case u.Info()&types.IsBoolean != 0:
			return BoolC(false)
		case u.Info()&types.IsInteger != 0:
			return IntC(0)
		case u.Info()&types.IsFloat != 0:
			return FloatV{sym.Expr{}}
		case u.Info()&types.IsString != 0:
			return StrV{S: "", Known: true}
		}
		return NilV{}
	case *types.Slice:
		return SliceV{}
	}
	return NilV{}
}

// Zero returns the zero value of t as a value (structs and arrays as value copies).
func (m *Machine) Zero(t types.Type) Value {
	switch u := t.Underlying().(type) {
	case *types.Struct:
		f := make([]Value, u.NumFields())
		for i := range f {
			f[i] = m.Zero(u.Field(i).Type())
		}
		return StructV{f}
	case *types.Array:
		e := make([]Value, int(u.Len()))
		for i := range e {
			e[i] = m.Zero(u.Elem())
		}
		return ArrayV{e}
	}
	return zeroScalar(t)
}

func loadCell(c *Cell) Value {
	if c.Fields != nil {
		f := make([]Value, len(c.Fields))
		for i, fc := range c.Fields {
			f[i] = loadCell(fc)
		}
		return StructV{f}
	}
	if c.Elems != nil {
		e := make([]Value, len(c.Elems))
		for i, ec := range c.Elems {
			e[i] = loadCell(ec)
		}
		return ArrayV{e}
	}
	return c.V
}

func storeCell(c *Cell, v Value) {
	if c.Fields != nil {
		sv, ok := v.(StructV)
		if !ok {
			panic(Unsupported{"store of non-struct value into struct cell: " + Describe(v)})
		}
		for i, fc := range c.Fields {
			storeCell(fc, sv.F[i])
		}
		return
	}
	if c.Elems != nil {
		av, ok := v.(ArrayV)
		if !ok {
			panic(Unsupported{"store of non-array value into array cell"})
		}
		for i, ec := range c.Elems {
			storeCell(ec, av.E[i])
		}
		return
	}
	c.V = v
}

// Load/Store exported for summaries.
func Load(c *Cell) Value     { return loadCell(c) }
func Store(c *Cell, v Value) { storeCell(c, v) }

// SliceOf builds a fresh slice holding the given values.
func (m *Machine) SliceOf(elem types.Type, vals []Value, site string) SliceV {
	arr := m.newArrayCell(elem, len(vals), site)
	for i, v := range vals {
		storeCell(arr.Elems[i], v)
	}
	return SliceV{Arr: arr, Off: 0, Len: len(vals), Cap: len(vals)}
}

// SliceElems reads the current elements of a slice.
func SliceElems(s SliceV) []Value {
	out := make([]Value, s.Len)
	for i := 0; i < s.Len; i++ {
		out[i] = loadCell(s.Arr.Elems[s.Off+i])
	}
	return out
}

// NewStruct allocates a struct object of named type t and returns a pointer to it.
func (m *Machine) NewStruct(t types.Type, site string) PtrV {
	return PtrV{m.newCell(t, site)}
}

// Unsupported is raised (as a Go panic, recovered by the driver) when the analysed code uses an idiom the
// interpreter does not model.  It makes the obligation UNDECIDED, never a violation.
type Unsupported struct{ Msg string }

func (u Unsupported) Error() string { return "unsupported: " + u.Msg }
