package rules

import (
	"fmt"
	"go/types"
	"strings"

	"golang.org/x/tools/go/ssa"

	"qverif/core"
	"qverif/spec"
)

// S8SharedState: no mutable package-level state in the library, no explicit random sources, no
// synchronisation-free caches on shared objects (the latter is covered by S3/S4: stores to existing tensors).
func S8SharedState(p *core.Program, a *spec.Anchors, r *core.Report) {
	r.Rule("S8: module packages have no package-level variable of reference type and none that is written outside package initialisation; the gonum distributions are built without an explicit Src (gonum then draws from its locked global source); no private random generator is constructed or seeded")
	nGlobals := 0
	for _, pk := range p.Pkgs {
		sp := p.SSA[pk.PkgPath]
		if sp == nil || !strings.HasPrefix(pk.PkgPath, core.ModPath) || strings.Contains(pk.PkgPath, "_test") {
			continue
		}
		for name, mem := range sp.Members {
			g, ok := mem.(*ssa.Global)
			if !ok || strings.HasPrefix(name, "init$") {
				continue
			}
			nGlobals++
			key := pk.PkgPath[len(core.ModPath)+1:] + "." + name
			et := g.Type().(*types.Pointer).Elem()
			if isRefType(et) {
				r.Violate("S8.global", key, "shared-reference", p.Pos(g.Pos()),
					fmt.Sprintf("package-level variable %s of reference type %s: state shared by every goroutine and every call (races under concurrent use, results coupled across calls)", name, et.String()),
					"two goroutines (or two unrelated tensors) reach the same object through this variable")
				continue
			}
			written := false
			if g.Referrers() != nil {
				for _, ref := range *g.Referrers() {
					if st, ok := ref.(*ssa.Store); ok && st.Addr == g && st.Parent().Name() != "init" {
						written = true
					}
				}
			}
			// stores are not listed as referrers of globals: scan the package
			for _, fn := range p.ModuleFunctions(pk.PkgPath) {
				if fn.Name() == "init" {
					continue
				}
				for _, b := range fn.Blocks {
					for _, in := range b.Instrs {
						if st, ok := in.(*ssa.Store); ok && st.Addr == g {
							written = true
						}
					}
				}
			}
			if written {
				r.Violate("S8.global", key, "written-after-init", p.Pos(g.Pos()), "package-level variable written outside package initialisation", "concurrent calls race on it")
			} else {
				r.Pass("S8.global", key, "", p.Pos(g.Pos()), "value-typed and never written after initialisation")
			}
		}
	}
	r.Count("S8.module_globals", nGlobals)
	// random sources
	nLits, nRandCalls := 0, 0
	for _, fn := range p.ModuleFunctions() {
		key := core.FuncKey(fn)
		for _, b := range fn.Blocks {
			for _, in := range b.Instrs {
				switch x := in.(type) {
				case *ssa.Store:
					fr, ok := asFieldAddr(x.Addr)
					if !ok || fr.Struct.Obj().Pkg() == nil || fr.Struct.Obj().Pkg().Path() != "gonum.org/v1/gonum/stat/distuv" {
						continue
					}
					if fr.Name == "Src" {
						if c, isC := x.Val.(*ssa.Const); !(isC && c.IsNil()) {
							r.Violate("S8.rng", key, "explicit-source", p.Pos(x.Pos()),
								"a gonum distribution is given an explicit random source: unless that source is locked, concurrent draws race and may repeat", "concurrent RandU calls return identical samples / race")
						}
					} else {
						nLits++
					}
				case *ssa.Call:
					callee := x.Call.StaticCallee()
					if callee == nil || callee.Pkg == nil {
						continue
					}
					pp := callee.Pkg.Pkg.Path()
					if pp == "math/rand" || pp == "math/rand/v2" || pp == "golang.org/x/exp/rand" {
						nRandCalls++
						r.Violate("S8.rng", key, "private-generator:"+callee.Name(), p.Pos(x.Pos()),
							fmt.Sprintf("calls %s.%s: a privately constructed or seeded generator makes draws repeat across calls or race between goroutines", pp, callee.Name()),
							"two calls return the same draws / concurrent calls race")
					}
				}
			}
		}
	}
	r.Count("S8.distribution_parameter_stores", nLits)
	r.Min("S8.distribution_parameter_stores", 4)
	if nRandCalls == 0 {
		r.Pass("S8.rng", "module", "", "", fmt.Sprintf("%d distribution parameter stores, no explicit Src, no private generator", nLits))
	}
}

func isRefType(t types.Type) bool {
	switch u := t.Underlying().(type) {
	case *types.Pointer, *types.Slice, *types.Map, *types.Chan, *types.Signature, *types.Interface:
		return true
	case *types.Struct:
		for i := 0; i < u.NumFields(); i++ {
			if isRefType(u.Field(i).Type()) {
				return true
			}
		}
	case *types.Array:
		return isRefType(u.Elem())
	}
	return false
}
