package rules

import (
	"fmt"
	"go/token"
	"go/types"
	"strings"

	"golang.org/x/tools/go/ssa"

	"qverif/core"
	"qverif/spec"
)

// S8SharedState: no mutable package-level state in the library, no explicit random sources, no
// synchronisation-free caches on shared objects (the latter is covered by S3/S4: stores to existing tensors).
func S8SharedState(p *core.Program, a *spec.Anchors, r *core.Report) {
	r.Rule("S8: module packages have no package-level variable of reference type and none that is written outside package initialisation; the gonum distributions are built without an explicit Src (gonum then draws from its locked global source); no private random generator is constructed or seeded")
	nGlobals := 0
	for _, pk := range p.Pkgs {
		sp := p.SSA[pk.PkgPath]
		if sp == nil || !strings.HasPrefix(pk.PkgPath, core.ModPath) || strings.Contains(pk.PkgPath, "_test") {
			continue
		}
		for name, mem := range sp.Members {
			g, ok := mem.(*ssa.Global)
			if !ok || strings.HasPrefix(name, "init$") {
				continue
			}
			nGlobals++
			key := pk.PkgPath[len(core.ModPath)+1:] + "." + name
			et := g.Type().(*types.Pointer).Elem()
			written := false
			if g.Referrers() != nil {
				for _, ref := range *g.Referrers() {
					if st, ok := ref.(*ssa.Store); ok && st.Addr == g && st.Parent().Name() != "init" {
						written = true
					}
				}
			}
			// stores are not listed as referrers of globals: scan the module.  Besides direct stores, any use of
			// the variable's address other than a plain load (a method call on it - sync/atomic types, mutexes -,
			// an argument, a field address that is stored through or passed on) can write it.
			for _, fn := range p.ModuleFunctions() {
				if fn.Name() == "init" && fn.Parent() == nil {
					continue
				}
				for _, b := range fn.Blocks {
					for _, in := range b.Instrs {
						if st, ok := in.(*ssa.Store); ok && st.Addr == g {
							written = true
						}
						if addrUsedBeyondLoad(in, g, 0) {
							written = true
						}
					}
				}
			}
			if written {
				r.Violate("S8.global", key, "written-after-init", p.Pos(g.Pos()), "package-level variable written outside package initialisation", "concurrent calls race on it")
			} else if isRefType(et) {
				// never reassigned; the object behind it must not be mutated either: sentinel errors and tables that
				// are only read (lookup, index, range, len) are immutable in effect
				switch {
				case types.Identical(et, types.Universe.Lookup("error").Type()):
					r.Pass("S8.global", key, "", p.Pos(g.Pos()), "sentinel error, never reassigned")
				case funcGlobalStateless(p, g):
					r.Pass("S8.global", key, "", p.Pos(g.Pos()), "function-valued, never reassigned, bound to a function without captured variables")
				case globalOnlyRead(p, g):
					r.Pass("S8.global", key, "", p.Pos(g.Pos()), "reference-typed but only read (lookup / index / range / len) after initialisation")
				default:
					r.Violate("S8.global", key, "shared-reference", p.Pos(g.Pos()),
						fmt.Sprintf("package-level variable %s of reference type %s whose object is handed on or written through after initialisation: state shared by every goroutine and every call (races under concurrent use, results coupled across calls)", name, et.String()),
						"two goroutines (or two unrelated tensors) reach the same object through this variable")
				}
			} else {
				r.Pass("S8.global", key, "", p.Pos(g.Pos()), "value-typed and never written after initialisation")
			}
		}
	}
	r.Count("S8.module_globals", nGlobals)
	// random sources
	nLits, nRandCalls := 0, 0
	for _, fn := range p.ModuleFunctions() {
		key := core.FuncKey(fn)
		for _, b := range fn.Blocks {
			for _, in := range b.Instrs {
				switch x := in.(type) {
				case *ssa.Store:
					fr, ok := asFieldAddr(x.Addr)
					if !ok || fr.Struct.Obj().Pkg() == nil || fr.Struct.Obj().Pkg().Path() != "gonum.org/v1/gonum/stat/distuv" {
						continue
					}
					if fr.Name == "Src" {
						if c, isC := x.Val.(*ssa.Const); !(isC && c.IsNil()) {
							r.Violate("S8.rng", key, "explicit-source", p.Pos(x.Pos()),
								"a gonum distribution is given an explicit random source: unless that source is locked, concurrent draws race and may repeat", "concurrent RandU calls return identical samples / race")
						}
					} else {
						nLits++
					}
				case *ssa.Call:
					callee := x.Call.StaticCallee()
					if callee == nil || callee.Pkg == nil {
						continue
					}
					pp := callee.Pkg.Pkg.Path()
					if pp == "math/rand" || pp == "math/rand/v2" || pp == "golang.org/x/exp/rand" {
						nRandCalls++
						r.Violate("S8.rng", key, "private-generator:"+callee.Name(), p.Pos(x.Pos()),
							fmt.Sprintf("calls %s.%s: a privately constructed or seeded generator makes draws repeat across calls or race between goroutines", pp, callee.Name()),
							"two calls return the same draws / concurrent calls race")
					}
				}
			}
		}
	}
	r.Count("S8.distribution_parameter_stores", nLits)
	r.Min("S8.distribution_parameter_stores", 1)
	if nRandCalls == 0 {
		r.Pass("S8.rng", "module", "", "", fmt.Sprintf("%d distribution parameter stores, no explicit Src, no private generator", nLits))
	}
}

func isRefType(t types.Type) bool {
	switch u := t.Underlying().(type) {
	case *types.Pointer, *types.Slice, *types.Map, *types.Chan, *types.Signature, *types.Interface:
		return true
	case *types.Struct:
		for i := 0; i < u.NumFields(); i++ {
			if isRefType(u.Field(i).Type()) {
				return true
			}
		}
	case *types.Array:
		return isRefType(u.Elem())
	}
	return false
}

// addrUsedBeyondLoad: instruction in uses the address v (a package variable or an address derived from it) in
// a way that may write through it: as call argument/receiver, stored somewhere, captured, or - for derived
// field/element addresses - any of these recursively.  Plain loads are not such a use.
func addrUsedBeyondLoad(in ssa.Instruction, v ssa.Value, depth int) bool {
	if depth > 4 {
		return true
	}
	uses := false
	for _, op := range in.Operands(nil) {
		if op != nil && *op == v {
			uses = true
		}
	}
	if !uses {
		return false
	}
	switch x := in.(type) {
	case *ssa.UnOp:
		return false // load
	case *ssa.Store:
		return true // (as address: handled by the caller too; as value: the address escapes)
	case *ssa.FieldAddr, *ssa.IndexAddr:
		val := x.(ssa.Value)
		if refs := val.Referrers(); refs != nil {
			for _, r := range *refs {
				if _, isStore := r.(*ssa.Store); isStore {
					return true
				}
				if addrUsedBeyondLoad(r, val, depth+1) {
					return true
				}
			}
		}
		return false
	case *ssa.DebugRef:
		return false
	}
	return true
}

// globalOnlyRead: outside package initialisation every load of g is used only by read operations (map lookup,
// indexing whose element address is only loaded, range, len/cap, nil comparison, re-slicing used likewise).
func globalOnlyRead(p *core.Program, g *ssa.Global) bool {
	var readOnly func(v ssa.Value, depth int) bool
	readOnly = func(v ssa.Value, depth int) bool {
		if depth > 5 || v.Referrers() == nil {
			return false
		}
		for _, ref := range *v.Referrers() {
			switch x := ref.(type) {
			case *ssa.Lookup:
				if x.X != v {
					return false
				}
			case *ssa.Index:
			case *ssa.IndexAddr:
				for _, r2 := range *x.Referrers() {
					if u, ok := r2.(*ssa.UnOp); !ok || u.Op != token.MUL {
						return false
					}
				}
			case *ssa.Range:
			case *ssa.BinOp:
			case *ssa.DebugRef:
			case *ssa.Slice:
				if !readOnly(x, depth+1) {
					return false
				}
			case *ssa.Call:
				b, ok := x.Call.Value.(*ssa.Builtin)
				if !ok || (b.Name() != "len" && b.Name() != "cap") {
					return false
				}
			default:
				return false
			}
		}
		return true
	}
	for _, fn := range p.ModuleFunctions() {
		if fn.Name() == "init" && fn.Parent() == nil {
			continue
		}
		for _, b := range fn.Blocks {
			for _, in := range b.Instrs {
				if u, ok := in.(*ssa.UnOp); ok && u.Op == token.MUL && u.X == g {
					if !readOnly(u, 0) {
						return false
					}
				}
			}
		}
	}
	return true
}

// funcGlobalStateless: g has function type and every value ever stored in it (package initialisation) is a plain
// function or a closure without captured variables, so calling it shares no state.
func funcGlobalStateless(p *core.Program, g *ssa.Global) bool {
	if st, ok := g.Type().(*types.Pointer).Elem().Underlying().(*types.Struct); ok {
		return funcTableStateless(p, g, st)
	}
	if _, ok := g.Type().(*types.Pointer).Elem().Underlying().(*types.Signature); !ok {
		return false
	}
	stores := 0
	for _, fn := range p.ModuleFunctions() {
		for _, b := range fn.Blocks {
			for _, in := range b.Instrs {
				st, ok := in.(*ssa.Store)
				if !ok || st.Addr != g {
					continue
				}
				stores++
				switch v := st.Val.(type) {
				case *ssa.Function:
					if len(v.FreeVars) > 0 {
						return false
					}
				case *ssa.MakeClosure:
					if len(v.Bindings) > 0 {
						return false
					}
				default:
					return false
				}
			}
		}
	}
	// also package init functions that ModuleFunctions may skip
	if sp := g.Pkg; sp != nil {
		if initFn := sp.Func("init"); initFn != nil {
			for _, b := range initFn.Blocks {
				for _, in := range b.Instrs {
					st, ok := in.(*ssa.Store)
					if !ok || st.Addr != g {
						continue
					}
					stores++
					switch v := st.Val.(type) {
					case *ssa.Function:
						if len(v.FreeVars) > 0 {
							return false
						}
					case *ssa.MakeClosure:
						if len(v.Bindings) > 0 {
							return false
						}
					default:
						return false
					}
				}
			}
		}
	}
	return stores > 0
}

// funcTableStateless: g is a struct all of whose reference-typed fields are function values; every store into
// it happens at package initialisation and puts a plain function or a closure without captured variables there;
// afterwards its fields are only loaded (and the loaded functions called or passed on).
func funcTableStateless(p *core.Program, g *ssa.Global, st *types.Struct) bool {
	for i := 0; i < st.NumFields(); i++ {
		ft := st.Field(i).Type()
		if _, isSig := ft.Underlying().(*types.Signature); isSig {
			continue
		}
		if isRefType(ft) {
			return false
		}
	}
	okValue := func(v ssa.Value) bool {
		switch x := v.(type) {
		case *ssa.Function:
			return len(x.FreeVars) == 0
		case *ssa.MakeClosure:
			return len(x.Bindings) == 0
		case *ssa.Const:
			return true
		}
		return false
	}
	stores := 0
	check := func(fn *ssa.Function, isInit bool) bool {
		for _, b := range fn.Blocks {
			for _, in := range b.Instrs {
				switch x := in.(type) {
				case *ssa.Store:
					if fa, ok := x.Addr.(*ssa.FieldAddr); ok && fa.X == g {
						if !isInit || !okValue(x.Val) {
							return false
						}
						stores++
					}
					if x.Addr == g {
						return false // whole-struct assignment: not followed
					}
				case *ssa.FieldAddr:
					if x.X != g {
						continue
					}
					for _, ref := range *x.Referrers() {
						switch y := ref.(type) {
						case *ssa.UnOp:
						case *ssa.Store:
							if y.Addr != x {
								return false
							}
						case *ssa.DebugRef:
						default:
							return false
						}
					}
				}
			}
		}
		return true
	}
	if sp := g.Pkg; sp != nil {
		if initFn := sp.Func("init"); initFn != nil && !check(initFn, true) {
			return false
		}
	}
	for _, fn := range p.ModuleFunctions() {
		if fn.Name() == "init" && fn.Parent() == nil {
			continue
		}
		if !check(fn, false) {
			return false
		}
	}
	return stores > 0
}
