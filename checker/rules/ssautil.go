// Package rules holds the structural engines (S-rules): dataflow, dominance, call-graph and ownership
// checks over go/ssa that need no abstract values.
package rules

import (
	"go/token"
	"go/types"

	"golang.org/x/tools/go/callgraph"
	"golang.org/x/tools/go/ssa"

	"qverif/core"
)

// fieldRef describes an access path ending in a struct field.
type fieldRef struct {
	Struct *types.Named
	Index  int
	Name   string
	Base   ssa.Value
}

func namedOf(t types.Type) *types.Named {
	t = types.Unalias(t)
	if p, ok := t.(*types.Pointer); ok {
		t = types.Unalias(p.Elem())
	}
	n, _ := t.(*types.Named)
	return n
}

// asFieldAddr decodes v as &base.field.
func asFieldAddr(v ssa.Value) (fieldRef, bool) {
	fa, ok := v.(*ssa.FieldAddr)
	if !ok {
		return fieldRef{}, false
	}
	n := namedOf(fa.X.Type())
	if n == nil {
		return fieldRef{}, false
	}
	st, ok := n.Underlying().(*types.Struct)
	if !ok {
		return fieldRef{}, false
	}
	return fieldRef{Struct: n, Index: fa.Field, Name: st.Field(fa.Field).Name(), Base: fa.X}, true
}

// loadOfField decodes v as *(&base.field).
func loadOfField(v ssa.Value) (fieldRef, bool) {
	u, ok := v.(*ssa.UnOp)
	if !ok || u.Op != token.MUL {
		return fieldRef{}, false
	}
	return asFieldAddr(u.X)
}

func sameNamed(a, b *types.Named) bool {
	return a != nil && b != nil && a.Obj() == b.Obj()
}

// instrDominates reports whether instruction a dominates instruction b (same function).
func instrDominates(a, b ssa.Instruction) bool {
	ba, bb := a.Block(), b.Block()
	if ba == bb {
		for _, in := range ba.Instrs {
			if in == a {
				return true
			}
			if in == b {
				return false
			}
		}
		return false
	}
	return ba.Dominates(bb)
}

// stripChange removes ChangeType / ChangeInterface / MakeInterface wrappers.
func stripChange(v ssa.Value) ssa.Value {
	for {
		switch x := v.(type) {
		case *ssa.ChangeType:
			v = x.X
		case *ssa.ChangeInterface:
			v = x.X
		case *ssa.MakeInterface:
			v = x.X
		default:
			return v
		}
	}
}

// derivesFrom reports whether v is computed (within its function) from a value satisfying pred,
// following operands backwards through pure instructions.
func derivesFrom(v ssa.Value, pred func(ssa.Value) bool) bool {
	seen := map[ssa.Value]bool{}
	var rec func(v ssa.Value, depth int) bool
	rec = func(v ssa.Value, depth int) bool {
		if v == nil || seen[v] || depth > 40 {
			return false
		}
		seen[v] = true
		if pred(v) {
			return true
		}
		switch x := v.(type) {
		case *ssa.UnOp:
			return rec(x.X, depth+1)
		case *ssa.BinOp:
			return rec(x.X, depth+1) || rec(x.Y, depth+1)
		case *ssa.Phi:
			for _, e := range x.Edges {
				if rec(e, depth+1) {
					return true
				}
			}
		case *ssa.Extract:
			return rec(x.Tuple, depth+1)
		case *ssa.ChangeType:
			return rec(x.X, depth+1)
		case *ssa.Convert:
			return rec(x.X, depth+1)
		case *ssa.MakeInterface:
			return rec(x.X, depth+1)
		case *ssa.TypeAssert:
			return rec(x.X, depth+1)
		case *ssa.Lookup:
			return rec(x.X, depth+1)
		case *ssa.Field:
			return rec(x.X, depth+1)
		case *ssa.FieldAddr:
			return rec(x.X, depth+1)
		case *ssa.Index:
			return rec(x.X, depth+1)
		case *ssa.IndexAddr:
			return rec(x.X, depth+1)
		case *ssa.Call:
			// value returned by a call: depends on its arguments (conservative, used for len() etc.)
			for _, a := range x.Call.Args {
				if rec(a, depth+1) {
					return true
				}
			}
			if !x.Call.IsInvoke() {
				return rec(x.Call.Value, depth+1)
			}
			return rec(x.Call.Value, depth+1)
		}
		return false
	}
	return rec(v, 0)
}

// moduleCallees returns the in-module callees of fn according to the call graph.
func moduleCallees(g *callgraph.Graph, fn *ssa.Function) []*callgraph.Edge {
	n := g.Nodes[fn]
	if n == nil {
		return nil
	}
	var out []*callgraph.Edge
	for _, e := range n.Out {
		if core.InModule(e.Callee.Func) {
			out = append(out, e)
		}
	}
	return out
}

// reachableInModule returns the module functions reachable from root (including root).
func reachableInModule(g *callgraph.Graph, root *ssa.Function) map[*ssa.Function]bool {
	seen := map[*ssa.Function]bool{}
	var visit func(f *ssa.Function)
	visit = func(f *ssa.Function) {
		if seen[f] {
			return
		}
		seen[f] = true
		for _, e := range moduleCallees(g, f) {
			visit(e.Callee.Func)
		}
	}
	visit(root)
	return seen
}

// sccs computes the strongly connected components of the module call graph restricted to nodes.
func sccs(g *callgraph.Graph, nodes map[*ssa.Function]bool) [][]*ssa.Function {
	index := map[*ssa.Function]int{}
	low := map[*ssa.Function]int{}
	on := map[*ssa.Function]bool{}
	var stack []*ssa.Function
	var out [][]*ssa.Function
	idx := 0
	var strong func(v *ssa.Function)
	strong = func(v *ssa.Function) {
		index[v] = idx
		low[v] = idx
		idx++
		stack = append(stack, v)
		on[v] = true
		for _, e := range moduleCallees(g, v) {
			w := e.Callee.Func
			if !nodes[w] {
				continue
			}
			if _, ok := index[w]; !ok {
				strong(w)
				if low[w] < low[v] {
					low[v] = low[w]
				}
			} else if on[w] && index[w] < low[v] {
				low[v] = index[w]
			}
		}
		if low[v] == index[v] {
			var comp []*ssa.Function
			for {
				w := stack[len(stack)-1]
				stack = stack[:len(stack)-1]
				on[w] = false
				comp = append(comp, w)
				if w == v {
					break
				}
			}
			out = append(out, comp)
		}
	}
	for v := range nodes {
		if _, ok := index[v]; !ok {
			strong(v)
		}
	}
	return out
}
