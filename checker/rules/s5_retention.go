package rules

import (
	"fmt"
	"go/types"
	"sort"
	"strings"

	"golang.org/x/tools/go/ssa"

	"qverif/core"
	"qverif/spec"
)

// S5 — caller-slice retention and hand-out.  A value is TAINTED when it addresses the backing array of a slice (or
// `any`) parameter of a public entry point: the parameter itself, a re-slice, a boxed / asserted / φ-merged copy of
// the header, the same thing after being passed down or returned by a helper, or an inner slice of nested data.
// Element reads and copy() launder.  Sinks: the tainted header is stored into memory other than a plain local
// variable; a variable holding it is captured by a closure that escapes; it is returned by a public function.
// The sinks are found in whatever function they occur and become obligations on the parameter they are rooted at;
// the obligation is pushed to every caller until it reaches a public entry point (violation) or memory the library
// allocated itself (discharged).  Conversely a public function that returns a slice must return a fresh one.

type s5Obl struct {
	fn  *ssa.Function
	idx int
}

type s5Sink struct {
	fn    *ssa.Function
	pos   string
	what  string // stable description
	text  string // sentence
	roots []pRoot
}

type s5Edge struct {
	to  s5Obl
	via string
}

type s5ctx struct {
	escLocals map[ssa.Value]bool
	p         *core.Program
	a         *spec.Anchors
	r         *core.Report
	e         *provEngine
	edges     map[s5Obl][]s5Edge
	escMem    map[ssa.Value]int8
	escWhy    map[ssa.Value]string
}

// S5Retention checks that no slice handed in by a caller is retained and that no internal slice is handed out.
func S5Retention(p *core.Program, a *spec.Anchors, r *core.Report) {
	r.Rule("S5: for every slice-/any-typed parameter of an exported function of tensor/cputensor/component, no value aliasing the caller's backing array (re-slices, φ, boxing, arguments, helper results, inner slices of nested data) is stored into memory other than a local variable, captured by a closure that is stored or returned, or returned; copy() and element reads launder; every exported function returning a slice returns memory allocated by that call")
	r.Assume("S4/S5: functions outside the module (fmt, math, gonum distuv, errors) neither write through nor retain the slices and pointers they are given")
	c := &s5ctx{p: p, a: a, r: r, e: provEngineFor(p), edges: map[s5Obl][]s5Edge{}, escMem: map[ssa.Value]int8{}, escWhy: map[ssa.Value]string{}}
	e := c.e

	// sources
	type source struct {
		fn  *ssa.Function
		idx int
	}
	var sources []source
	for _, fn := range e.fns {
		if !s45_isPublicEntry(fn) {
			continue
		}
		for i, prm := range fn.Params {
			if s45_isSliceOrAny(prm.Type()) {
				sources = append(sources, source{fn, i})
			}
		}
	}
	r.Count("S5.slice_or_any_parameters", len(sources))
	r.Min("S5.slice_or_any_parameters", 15)

	// sinks
	var sinks []s5Sink
	nStores, nClosures, nReturns := 0, 0, 0
	for _, fn := range e.fns {
		for _, b := range fn.Blocks {
			for _, in := range b.Instrs {
				switch x := in.(type) {
				case *ssa.Store:
					nStores++
					if _, isVar := x.Addr.(*ssa.Alloc); isVar {
						continue // assignment to a local variable; closures capturing it are examined at the MakeClosure
					}
					if c.transientVarargs(x.Addr) {
						continue
					}
					if c.confinedToActivation(x.Addr) {
						continue // a field of a helper object that is created in this call and never leaves it
					}
					if ts := c.taintedRoots(x.Val); len(ts) > 0 {
						sinks = append(sinks, s5Sink{fn, p.Pos(x.Pos()), "store " + s45_clip(s45_renderVal(x.Val, 0), 40) + " into " + s45_clip(s45_renderVal(x.Addr, 0), 50),
							fmt.Sprintf("the slice %s is stored into %s, memory that outlives the statement", s45_clip(s45_renderVal(x.Val, 0), 60), s45_clip(s45_renderVal(x.Addr, 0), 60)), ts})
					}
				case *ssa.MapUpdate:
					nStores++
					for _, v := range []ssa.Value{x.Value, x.Key} {
						if ts := c.taintedRoots(v); len(ts) > 0 {
							sinks = append(sinks, s5Sink{fn, p.Pos(x.Pos()), "mapupdate " + s45_clip(s45_renderVal(v, 0), 40),
								fmt.Sprintf("the slice %s is stored into the map %s", s45_clip(s45_renderVal(v, 0), 60), s45_clip(s45_renderVal(x.Map, 0), 60)), ts})
						}
					}
				case *ssa.Send:
					nStores++
					if ts := c.taintedRoots(x.X); len(ts) > 0 {
						sinks = append(sinks, s5Sink{fn, p.Pos(x.Pos()), "send " + s45_clip(s45_renderVal(x.X, 0), 40),
							fmt.Sprintf("the slice %s is sent on a channel", s45_clip(s45_renderVal(x.X, 0), 60)), ts})
					}
				case *ssa.MakeClosure:
					nClosures++
					cf, _ := x.Fn.(*ssa.Function)
					for k, bnd := range x.Bindings {
						var ts []pRoot
						name := fmt.Sprintf("#%d", k)
						if cf != nil && k < len(cf.FreeVars) {
							name = cf.FreeVars[k].Name()
						}
						if vals, ok := e.capturedValues(bnd, x); ok {
							for _, v := range vals {
								ts = append(ts, c.taintedRoots(v)...)
							}
						} else {
							// not a plain variable: whatever the bound memory may hold
							held := rootSet{}
							e.loadOf(e.get(bnd), held)
							vt := bnd.Type()
							if pt, ok := types.Unalias(vt).Underlying().(*types.Pointer); ok {
								vt = pt.Elem()
							}
							for _, rt := range held.sorted(e) {
								if c.isTainted(rt, vt) {
									ts = append(ts, rt)
								}
							}
						}
						if len(ts) == 0 {
							continue
						}
						esc, why := c.escapes(x)
						if !esc {
							continue
						}
						cpos := x.Pos()
						if !cpos.IsValid() {
							cpos = x.Fn.Pos()
						}
						sinks = append(sinks, s5Sink{fn, p.Pos(cpos), "closure " + x.Fn.Name() + " captures " + name,
							fmt.Sprintf("the closure %s captures the variable %s, which holds the slice, and the closure %s", x.Fn.Name(), name, why), ts})
					}
				case *ssa.Return:
					nReturns++
					if !s45_isPublicEntry(fn) {
						continue
					}
					for k, res := range x.Results {
						if ts := c.taintedRoots(res); len(ts) > 0 {
							sinks = append(sinks, s5Sink{fn, p.Pos(x.Pos()), fmt.Sprintf("return #%d %s", k, s45_clip(s45_renderVal(res, 0), 40)),
								fmt.Sprintf("the slice %s is returned to the caller of the public %s as a library result", s45_clip(s45_renderVal(res, 0), 60), core.FuncKey(fn)), ts})
						}
					}
				}
			}
		}
	}
	r.Count("S5.stores_examined", nStores)
	r.Count("S5.closures_examined", nClosures)
	r.Count("S5.returns_examined", nReturns)
	r.Min("S5.stores_examined", 60)
	r.Min("S5.closures_examined", 15)

	// discharge
	violated := map[source]bool{}
	affected := map[source]bool{}
	for _, sk := range sinks {
		r.Func(core.FuncKey(sk.fn))
		type hit struct {
			entry s5Obl
			path  []string
		}
		var hits []hit
		seenRoot := map[s5Obl]bool{}
		for _, rt := range sk.roots {
			start := s5Obl{rt.fn, rt.idx}
			if seenRoot[start] {
				continue
			}
			seenRoot[start] = true
			seen := map[s5Obl]bool{}
			var dfs func(k s5Obl, path []string, beyond bool)
			dfs = func(k s5Obl, path []string, beyond bool) {
				if seen[k] {
					return
				}
				seen[k] = true
				if s45_isPublicEntry(k.fn) {
					if beyond {
						affected[source{k.fn, k.idx}] = true
					} else {
						violated[source{k.fn, k.idx}] = true
						hits = append(hits, hit{k, path})
					}
					beyond = true
				}
				for _, ed := range c.edgesOf(k) {
					dfs(ed.to, append(append([]string{}, path...), ed.via), beyond)
				}
			}
			first := fmt.Sprintf("%s (%s, in %s): it aliases %s", sk.text, sk.pos, core.FuncKey(sk.fn), e.rootString(rt))
			dfs(start, []string{first}, false)
		}
		if len(hits) == 0 {
			continue // the tainted parameter is never fed by a public entry point
		}
		var names []string
		for _, h := range hits {
			names = append(names, fmt.Sprintf("%s of %s", s45_paramName(h.entry.fn, h.entry.idx), core.FuncKey(h.entry.fn)))
		}
		names = s45_uniqStrings(names)
		sort.Strings(names)
		// the witness reads parameter → … → sink
		path := hits[0].path
		rev := make([]string, 0, len(path)+1)
		rev = append(rev, fmt.Sprintf("caller's slice %s of %s", s45_paramName(hits[0].entry.fn, hits[0].entry.idx), core.FuncKey(hits[0].entry.fn)))
		for i := len(path) - 1; i >= 0; i-- {
			rev = append(rev, path[i])
		}
		r.Violate("S5.retain", core.FuncKey(sk.fn), sk.what, sk.pos,
			fmt.Sprintf("%s; the slice is the caller's own backing array, supplied as parameter %s: mutating it after the call changes library state or a later back-propagation", sk.text, s45_clip(strings.Join(names, ", "), 400)),
			strings.Join(rev, " → "))
	}
	for _, s := range sources {
		r.Func(core.FuncKey(s.fn))
		if violated[s] {
			continue
		}
		if affected[s] {
			r.Count("S5.parameters_forwarded_to_a_violating_entry", 1)
			continue
		}
		r.Pass("S5.param", core.FuncKey(s.fn), s45_paramName(s.fn, s.idx), p.FuncPos(s.fn),
			"no alias of the caller's backing array reaches a store, an escaping closure or a return")
	}

	// hand-out: exported functions returning slices return fresh memory
	nOut := 0
	for _, fn := range e.fns {
		if !s45_isPublicEntry(fn) {
			continue
		}
		res := fn.Signature.Results()
		for k := 0; k < res.Len(); k++ {
			if !s45_isSliceType(res.At(k).Type()) {
				continue
			}
			nOut++
			key := core.FuncKey(fn)
			what := fmt.Sprintf("result #%d", k)
			ok := true
			for _, b := range fn.Blocks {
				ret, isRet := b.Instrs[len(b.Instrs)-1].(*ssa.Return)
				if !isRet || k >= len(ret.Results) {
					continue
				}
				v := ret.Results[k]
				for _, rt := range e.get(v).sorted(e) {
					switch rt.kind {
					case rkLocal:
					case rkUnknown:
						ok = false
						r.Undecide("S5.handout", key, what, p.Pos(ret.Pos()), fmt.Sprintf("the returned slice %s comes from %s", s45_clip(s45_renderVal(v, 0), 60), e.rootString(rt)))
					default:
						if c.isTainted(rt, v.Type()) {
							continue // reported as a retention sink
						}
						ok = false
						r.Violate("S5.handout", key, what, p.Pos(ret.Pos()),
							fmt.Sprintf("returns the slice %s, which is %s: the caller can change library state by writing to the result", s45_clip(s45_renderVal(v, 0), 60), e.rootString(rt)),
							fmt.Sprintf("return %s ⇐ %s", s45_clip(s45_renderVal(v, 0), 60), e.rootString(rt)))
					}
				}
			}
			if ok {
				r.Pass("S5.handout", key, what, p.FuncPos(fn), "every returned slice is allocated by the call")
			}
		}
	}
	r.Count("S5.slice_results", nOut)
	r.Min("S5.slice_results", 1)
}

// nestedMatch: vt is the type of an inner slice of a value of (nested slice / any) type pt.
func s45_nestedMatch(pt, vt types.Type) bool {
	if !s45_isSliceType(pt) {
		return true // any / type parameter: nested data of unknown depth
	}
	t := types.Unalias(pt).Underlying().(*types.Slice).Elem()
	for {
		sl, ok := types.Unalias(t).Underlying().(*types.Slice)
		if !ok {
			return false
		}
		if types.Identical(t, vt) {
			return true
		}
		t = sl.Elem()
	}
}

// isTainted: a value of type vt with root rt aliases a backing array owned by whoever supplied parameter rt.
func (c *s5ctx) isTainted(rt pRoot, vt types.Type) bool {
	if rt.kind != rkParam || rt.field != noField || rt.idx < 0 || rt.idx >= len(rt.fn.Params) {
		return false
	}
	pt := rt.fn.Params[rt.idx].Type()
	if !s45_isSliceOrAny(pt) {
		return false
	}
	if !rt.deep && !rt.one {
		return s45_isSliceType(vt) || s45_isInterfaceType(vt)
	}
	return s45_isSliceType(vt) && s45_nestedMatch(pt, vt)
}

func (c *s5ctx) taintedRoots(v ssa.Value) []pRoot {
	if v == nil {
		return nil
	}
	// the static type that matters is the one under interface boxing: data0[i] = v0 boxes a []float64 into an any
	vt := stripChange(v).Type()
	if !(s45_isSliceType(vt) || s45_isInterfaceType(vt)) {
		return nil
	}
	var out []pRoot
	for _, rt := range c.e.get(v).sorted(c.e) {
		if c.isTainted(rt, vt) {
			out = append(out, rt)
		}
	}
	return out
}

// transientVarargs: addr is a slot of a varargs array that is only handed to functions outside the module
// (fmt.Errorf("…", dims)): nothing of the library keeps it.
func (c *s5ctx) transientVarargs(addr ssa.Value) bool {
	ia, ok := addr.(*ssa.IndexAddr)
	if !ok {
		return false
	}
	al, ok := ia.X.(*ssa.Alloc)
	if !ok || al.Comment != "varargs" {
		return false
	}
	for _, ref := range *al.Referrers() {
		switch x := ref.(type) {
		case *ssa.IndexAddr:
			for _, r2 := range *x.Referrers() {
				if st, ok := r2.(*ssa.Store); !ok || st.Addr != x {
					return false
				}
			}
		case *ssa.Slice:
			for _, r2 := range *x.Referrers() {
				call, ok := r2.(ssa.CallInstruction)
				if !ok || s45_builtinName(call.Common()) != "" || len(c.e.callees[r2]) > 0 || !c.e.foreign[r2] {
					return false
				}
			}
		case *ssa.DebugRef:
		default:
			return false
		}
	}
	return true
}

// edgesOf: who supplies parameter k.idx of k.fn with a tainted value.
func (c *s5ctx) edgesOf(k s5Obl) []s5Edge {
	if ed, ok := c.edges[k]; ok {
		return ed
	}
	c.edges[k] = nil
	var out []s5Edge
	for _, cs := range c.e.callersOfFn(k.fn) {
		arg := s45_argOf(cs.site, k.fn, k.idx)
		if arg == nil {
			continue
		}
		for _, rt := range c.taintedRoots(arg) {
			via := fmt.Sprintf("%s passes %s, which may alias its %s, as %s of %s (%s)", core.FuncKey(cs.caller), s45_clip(s45_renderVal(arg, 0), 60), s45_paramName(rt.fn, rt.idx), s45_paramName(k.fn, k.idx), k.fn.Name(), c.p.Pos(cs.site.Pos()))
			out = append(out, s5Edge{s5Obl{rt.fn, rt.idx}, via})
		}
	}
	c.edges[k] = out
	return out
}

/* ---------------- closure escape ---------------- */

// escapes reports whether the function value v may outlive the activation that created it: it is stored into a
// field / element / map, returned up to a public entry point, or handed to a function that does one of these.
// A closure that is only called, kept in a local variable that is only called, or passed to functions that only call
// it (element generators consumed by initWith) does not escape.
func (c *s5ctx) escapes(v ssa.Value) (bool, string) {
	switch c.escMem[v] {
	case 1:
		return true, c.escWhy[v]
	case 2, 3: // 3 = in progress: assume it does not (least fixed point over the use graph)
		return false, ""
	}
	c.escMem[v] = 3
	esc, why := c.escapes1(v)
	if esc {
		c.escMem[v] = 1
		c.escWhy[v] = why
	} else {
		c.escMem[v] = 2
	}
	return esc, why
}

func (c *s5ctx) escapes1(v ssa.Value) (bool, string) {
	refs := v.Referrers()
	if refs == nil {
		return false, ""
	}
	fn := v.Parent()
	for _, ref := range *refs {
		switch x := ref.(type) {
		case *ssa.DebugRef:
		case ssa.CallInstruction:
			cc := x.Common()
			for j, arg := range cc.Args {
				if arg != v {
					continue
				}
				if s45_builtinName(cc) != "" {
					return true, "is handed to the builtin " + s45_builtinName(cc)
				}
				callees := c.e.callees[x]
				if len(callees) == 0 || c.e.foreign[x] {
					return true, fmt.Sprintf("is handed to a function outside the module (%s)", c.p.Pos(x.Pos()))
				}
				for _, cf := range callees {
					pi := j
					if cc.IsInvoke() {
						pi = j + 1
					}
					if pi >= len(cf.Params) {
						return true, fmt.Sprintf("is handed to %s (%s)", core.FuncKey(cf), c.p.Pos(x.Pos()))
					}
					if esc, why := c.escapes(cf.Params[pi]); esc {
						return true, fmt.Sprintf("is handed to %s (%s), where it %s", core.FuncKey(cf), c.p.Pos(x.Pos()), why)
					}
				}
			}
			if cc.IsInvoke() && cc.Value == v {
				return true, "is used as an interface receiver"
			}
		case *ssa.Store:
			if x.Val != v {
				continue
			}
			al, isVar := x.Addr.(*ssa.Alloc)
			if !isVar {
				// a field of a struct that lives in a local variable and is only handed (by value or by address) to
				// functions that call the field: the function value does not outlive the activation
				// an element of a local array / freshly made slice (a table of check closures, the argument array of a
				// variadic call) that is only indexed, ranged over, or handed to functions that do the same and call
				// the elements: the function value does not outlive the activation
				if ia, ok := x.Addr.(*ssa.IndexAddr); ok {
					switch root := ia.X.(type) {
					case *ssa.Alloc, *ssa.MakeSlice:
						if esc, why := c.containerEscapes(root.(ssa.Value), 0); !esc {
							continue
						} else if why != "" {
							return true, fmt.Sprintf("is stored into %s (%s), which %s", s45_clip(s45_renderVal(x.Addr, 0), 60), c.p.Pos(x.Pos()), why)
						}
					}
				}
				if fa, ok := x.Addr.(*ssa.FieldAddr); ok {
					if sal, ok := fa.X.(*ssa.Alloc); ok {
						if esc, why := c.structFieldEscapes(sal, fa.Field, 0); !esc {
							continue
						} else if why != "" {
							return true, fmt.Sprintf("is stored into %s (%s), which %s", s45_clip(s45_renderVal(x.Addr, 0), 60), c.p.Pos(x.Pos()), why)
						}
					}
				}
				return true, fmt.Sprintf("is stored into %s (%s)", s45_clip(s45_renderVal(x.Addr, 0), 60), c.p.Pos(x.Pos()))
			}
			if esc, why := c.cellEscapes(al); esc {
				return true, why
			}
		case *ssa.Return:
			if fn == nil {
				return true, "is returned"
			}
			if s45_isPublicEntry(fn) {
				return true, fmt.Sprintf("is returned by the public %s", core.FuncKey(fn))
			}
			ri := -1
			for k, res := range x.Results {
				if res == v {
					ri = k
				}
			}
			for _, cs := range c.e.callersOfFn(fn) {
				cv, ok := cs.site.(ssa.Value)
				if !ok {
					continue // go / defer: result dropped
				}
				if fn.Signature.Results().Len() == 1 {
					if esc, why := c.escapes(cv); esc {
						return true, fmt.Sprintf("is returned to %s (%s), where it %s", core.FuncKey(cs.caller), c.p.Pos(cs.site.Pos()), why)
					}
					continue
				}
				for _, r2 := range *cv.Referrers() {
					if ex, ok := r2.(*ssa.Extract); ok && ex.Index == ri {
						if esc, why := c.escapes(ex); esc {
							return true, fmt.Sprintf("is returned to %s (%s), where it %s", core.FuncKey(cs.caller), c.p.Pos(cs.site.Pos()), why)
						}
					}
				}
			}
		case *ssa.Phi, *ssa.ChangeType, *ssa.ChangeInterface, *ssa.MakeInterface, *ssa.Convert, *ssa.TypeAssert, *ssa.Extract:
			if esc, why := c.escapes(x.(ssa.Value)); esc {
				return true, why
			}
		case *ssa.If, *ssa.BinOp:
			// comparison with nil
		default:
			return true, fmt.Sprintf("is used by %T at %s", ref, c.p.Pos(ref.Pos()))
		}
	}
	return false, ""
}

// containerEscapes follows an array (by address) or slice holding function values and reports whether an element
// may outlive the activation: the container is stored, returned, captured, or handed to a function that does so,
// or an element read from it escapes in the sense of escapes().
func (c *s5ctx) containerEscapes(v ssa.Value, depth int) (bool, string) {
	if depth > 6 {
		return true, "is passed through too many levels to follow"
	}
	refs := v.Referrers()
	if refs == nil {
		return false, ""
	}
	for _, ref := range *refs {
		switch x := ref.(type) {
		case *ssa.DebugRef:
		case *ssa.IndexAddr:
			if x.X != v {
				return true, "is used as an index"
			}
			for _, r2 := range *x.Referrers() {
				switch y := r2.(type) {
				case *ssa.Store:
					if y.Addr != x {
						return true, fmt.Sprintf("has the address of an element stored (%s)", c.p.Pos(y.Pos()))
					}
				case *ssa.UnOp:
					if esc, why := c.escapes(y); esc {
						return true, "holds an element that " + why
					}
				case *ssa.DebugRef:
				default:
					return true, fmt.Sprintf("has an element address used by %T (%s)", r2, c.p.Pos(r2.Pos()))
				}
			}
		case *ssa.Index:
			if esc, why := c.escapes(x); esc {
				return true, "holds an element that " + why
			}
		case *ssa.Slice:
			if esc, why := c.containerEscapes(x, depth+1); esc {
				return true, why
			}
		case *ssa.Range:
			for _, r2 := range *x.Referrers() {
				nx, ok := r2.(*ssa.Next)
				if !ok {
					continue
				}
				for _, r3 := range *nx.Referrers() {
					if ex, ok := r3.(*ssa.Extract); ok && ex.Index == 2 {
						if esc, why := c.escapes(ex); esc {
							return true, "holds an element that " + why
						}
					}
				}
			}
		case *ssa.Phi, *ssa.ChangeType:
			if esc, why := c.containerEscapes(x.(ssa.Value), depth+1); esc {
				return true, why
			}
		case ssa.CallInstruction:
			cc := x.Common()
			if b := s45_builtinName(cc); b == "len" || b == "cap" {
				continue
			} else if b != "" {
				return true, "is handed to the builtin " + b
			}
			for j, arg := range cc.Args {
				if arg != v {
					continue
				}
				callees := c.e.callees[x]
				if len(callees) == 0 || c.e.foreign[x] {
					return true, fmt.Sprintf("is handed to a function outside the module (%s)", c.p.Pos(x.Pos()))
				}
				for _, cf := range callees {
					pi := j
					if cc.IsInvoke() {
						pi = j + 1
					}
					if pi >= len(cf.Params) {
						return true, fmt.Sprintf("is handed to %s", core.FuncKey(cf))
					}
					if esc, why := c.containerEscapes(cf.Params[pi], depth+1); esc {
						return true, fmt.Sprintf("is handed to %s (%s), where it %s", core.FuncKey(cf), c.p.Pos(x.Pos()), why)
					}
				}
			}
		case *ssa.If, *ssa.BinOp:
		default:
			return true, fmt.Sprintf("is used by %T at %s", ref, c.p.Pos(ref.Pos()))
		}
	}
	return false, ""
}

// structFieldEscapes follows a struct object (held in the local cell `ptr`, or passed on as pointer / by value)
// and reports whether the function value kept in its field `field` may outlive the activation.
func (c *s5ctx) structFieldEscapes(ptr ssa.Value, field int, depth int) (bool, string) {
	if depth > 6 || ptr.Referrers() == nil {
		return true, "is passed through too many levels to follow"
	}
	for _, ref := range *ptr.Referrers() {
		switch x := ref.(type) {
		case *ssa.DebugRef:
		case *ssa.FieldAddr:
			if x.X != ptr {
				continue
			}
			for _, r2 := range *x.Referrers() {
				switch y := r2.(type) {
				case *ssa.Store:
					if y.Addr != x {
						return true, "has the address of a field stored elsewhere"
					}
				case *ssa.UnOp:
					if x.Field == field {
						if esc, why := c.escapes(y); esc {
							return true, why
						}
					}
				case *ssa.DebugRef:
				default:
					if x.Field == field {
						return true, fmt.Sprintf("has its field used by %T", r2)
					}
				}
			}
		case *ssa.Store:
			if x.Val == ptr {
				return true, "is itself stored into memory"
			}
			// initialisation of the whole struct (*ptr = value): fine
		case *ssa.UnOp:
			// the struct value is read: follow every use of the value
			if esc, why := c.structValueEscapes(x, field, depth+1); esc {
				return true, why
			}
		case ssa.CallInstruction:
			cc := x.Common()
			for j, arg := range cc.Args {
				if arg != ptr {
					continue
				}
				callees := c.e.callees[x]
				if len(callees) == 0 || c.e.foreign[x] || s45_builtinName(cc) != "" {
					return true, "is handed to a function outside the module"
				}
				for _, cf := range callees {
					pi := j
					if cc.IsInvoke() {
						pi = j + 1
					}
					if pi >= len(cf.Params) {
						return true, "is handed to " + core.FuncKey(cf)
					}
					if esc, why := c.structFieldEscapes(cf.Params[pi], field, depth+1); esc {
						return true, why
					}
				}
			}
		default:
			return true, fmt.Sprintf("is used by %T", ref)
		}
	}
	return false, ""
}

// structValueEscapes: the struct VALUE v (a copy) holds the function in `field`.
func (c *s5ctx) structValueEscapes(v ssa.Value, field int, depth int) (bool, string) {
	if depth > 6 || v.Referrers() == nil {
		return true, "is passed through too many levels to follow"
	}
	for _, ref := range *v.Referrers() {
		switch x := ref.(type) {
		case *ssa.DebugRef:
		case *ssa.Field:
			if x.X == v && x.Field == field {
				if esc, why := c.escapes(x); esc {
					return true, why
				}
			}
		case *ssa.Store:
			if x.Val != v {
				continue
			}
			if al, ok := x.Addr.(*ssa.Alloc); ok {
				if esc, why := c.structFieldEscapes(al, field, depth+1); esc {
					return true, why
				}
				continue
			}
			return true, "is copied into memory that is not a local variable"
		case ssa.CallInstruction:
			cc := x.Common()
			for j, arg := range cc.Args {
				if arg != v {
					continue
				}
				callees := c.e.callees[x]
				if len(callees) == 0 || c.e.foreign[x] || s45_builtinName(cc) != "" {
					return true, "is handed to a function outside the module"
				}
				for _, cf := range callees {
					pi := j
					if cc.IsInvoke() {
						pi = j + 1
					}
					if pi >= len(cf.Params) {
						return true, "is handed to " + core.FuncKey(cf)
					}
					if esc, why := c.structValueEscapes(cf.Params[pi], field, depth+1); esc {
						return true, why
					}
				}
			}
		default:
			return true, fmt.Sprintf("is used by %T", ref)
		}
	}
	return false, ""
}

// cellEscapes: a function value kept in the local variable al escapes when a value read from the variable does, or
// when the variable is not a plain one.
func (c *s5ctx) cellEscapes(al *ssa.Alloc) (bool, string) {
	if !c.e.isSimpleCell(al) {
		return true, fmt.Sprintf("is kept in the variable %s whose address is used beyond plain reads and writes", al.Comment)
	}
	for _, ref := range *al.Referrers() {
		switch x := ref.(type) {
		case *ssa.UnOp:
			if esc, why := c.escapes(x); esc {
				return true, why
			}
		case *ssa.MakeClosure:
			cf := x.Fn.(*ssa.Function)
			for k, b := range x.Bindings {
				if b != al || k >= len(cf.FreeVars) {
					continue
				}
				for _, r2 := range *cf.FreeVars[k].Referrers() {
					if ld, ok := r2.(*ssa.UnOp); ok {
						if esc, why := c.escapes(ld); esc {
							return true, why
						}
					}
				}
			}
			// a closure that captures the variable and itself escapes keeps the function value alive
			if esc, why := c.escapes(x); esc {
				return true, fmt.Sprintf("is captured by the closure %s, which %s", x.Fn.Name(), why)
			}
		}
	}
	return false, ""
}

// confinedToActivation: every object the address may denote is a local allocation that does not outlive the
// call that created it: it is not returned, not stored through a parameter or into a package variable, not
// captured by a closure, and not stored into another local object that does any of these.
func (c *s5ctx) confinedToActivation(addr ssa.Value) bool {
	roots := c.e.get(addr)
	if len(roots) == 0 {
		return false
	}
	esc := c.escapingLocals()
	for r := range roots {
		if r.kind != rkLocal || esc[r.obj] {
			return false
		}
		al, ok := r.obj.(*ssa.Alloc)
		if !ok {
			return false
		}
		if _, isStruct := types.Unalias(al.Type().(*types.Pointer).Elem()).Underlying().(*types.Struct); !isStruct {
			return false
		}
	}
	return true
}

// escapingLocals: local allocation sites that may be reachable after the call that created them returned.
func (c *s5ctx) escapingLocals() map[ssa.Value]bool {
	if c.escLocals != nil {
		return c.escLocals
	}
	e := c.e
	esc := map[ssa.Value]bool{}
	mark := func(s rootSet) {
		for r := range s {
			if r.kind == rkLocal {
				esc[r.obj] = true
			}
		}
	}
	for _, s := range e.pstore {
		mark(s)
	}
	for _, rs := range e.ret {
		for _, s := range rs {
			mark(s)
		}
	}
	for of, s := range e.contents {
		if g, ok := of.obj.(*ssa.Global); ok && g != nil {
			mark(s)
		}
	}
	// captured by a closure, sent on a channel, or stored into a package variable directly
	for _, fn := range e.fns {
		for _, b := range fn.Blocks {
			for _, in := range b.Instrs {
				switch x := in.(type) {
				case *ssa.MakeClosure:
					for _, bnd := range x.Bindings {
						mark(e.get(bnd))
						held := rootSet{}
						e.loadOf(e.get(bnd), held)
						mark(held)
					}
				case *ssa.Send:
					mark(e.get(x.X))
				case *ssa.Store:
					if _, isG := x.Addr.(*ssa.Global); isG {
						mark(e.get(x.Val))
					}
				case *ssa.Go:
					for _, a := range x.Call.Args {
						mark(e.get(a))
					}
				}
			}
		}
	}
	// transitively: what an escaping local object holds escapes too
	for changed := true; changed; {
		changed = false
		for of, s := range e.contents {
			if !esc[of.obj] {
				continue
			}
			for r := range s {
				if r.kind == rkLocal && !esc[r.obj] {
					esc[r.obj] = true
					changed = true
				}
			}
		}
	}
	c.escLocals = esc
	return esc
}
