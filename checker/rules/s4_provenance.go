package rules

import (
	"fmt"
	"go/types"
	"sort"
	"strings"

	"golang.org/x/tools/go/ssa"

	"qverif/core"
	"qverif/spec"
)

// S4 — write provenance.  Every Store, MapUpdate, copy, append, delete and clear of the analysed module is traced
// to the roots of the memory it writes (see s45_util.go).  The write is discharged when every root is memory
// allocated by the running call; a parameter root becomes an obligation on every caller; a chain that ends at a
// parameter of a public entry point or at a package variable is a violation.

type s4Site struct {
	fn    *ssa.Function
	instr ssa.Instruction
	addr  ssa.Value
	kind  string
}

type s4Obl struct {
	fn    *ssa.Function
	idx   int
	deep  bool
	field int
	one   bool // exactly one load from the parameter (see pRoot.one)
}

type s4Finding struct {
	undecided bool
	key       string // stable part for the obligation key
	text      string // what the chain ends in
}

type s4Edge struct {
	to  s4Obl
	via string
}

type s4Node struct {
	findings []s4Finding
	next     []s4Edge
	note     string // how the obligation is met when there is nothing to report
}

type s4ctx struct {
	p     *core.Program
	a     *spec.Anchors
	r     *core.Report
	e     *provEngine
	nodes map[s4Obl]*s4Node
	walk  map[*ssa.Function]bool

	fnReset, fnAccumulate, fnSGDUpdate, fnFCConfig *ssa.Function
}

// S4Provenance classifies every memory write of the module by the provenance of the written location.
func S4Provenance(p *core.Program, a *spec.Anchors, r *core.Report) {
	r.Rule("S4: every Store / MapUpdate / copy / append / delete writes memory whose roots (through FieldAddr, IndexAddr, Slice, Phi, conversions, interface boxing, loads, calls and closure bindings) are allocations of the running call; a parameter root is an obligation on every caller (fixed point over the VTA call graph); a chain ending at a parameter of an exported function of tensor/cputensor/component or at a package variable is a violation; allowed non-fresh writers are named by function object and field")
	r.Assume("S4/S5: functions outside the module (fmt, math, gonum distuv, errors) neither write through nor retain the slices and pointers they are given")
	c := &s4ctx{p: p, a: a, r: r, e: provEngineFor(p), nodes: map[s4Obl]*s4Node{}, walk: map[*ssa.Function]bool{}}
	if c.e.Rounds > 200 {
		r.Undecide("S4", "engine", "fixpoint", "", "the points-to fixed point did not converge in 200 rounds")
	}
	if bp := p.Func(core.PkgGrad, "BackPropagate"); bp != nil {
		for fn := range reachableInModule(c.e.g, bp) {
			if core.PkgPathOf(fn) == core.PkgGrad && !isGradFnClosure(fn) {
				c.walk[fn] = true
			}
		}
	}
	c.fnReset = p.Func(core.PkgCPU, "(*CPUTensor).ResetGradContext")
	c.fnAccumulate = p.Func(core.PkgMetrics, "(*Accuracy).Accumulate")
	c.fnSGDUpdate = p.Func(core.PkgOptimizers, "(*SGD).Update")
	c.fnFCConfig = p.Func(core.PkgLayers, "toValidFCConfig")

	var sites []s4Site
	for _, fn := range c.e.fns {
		for _, b := range fn.Blocks {
			for _, in := range b.Instrs {
				switch x := in.(type) {
				case *ssa.Store:
					sites = append(sites, s4Site{fn, in, x.Addr, "store"})
				case *ssa.MapUpdate:
					sites = append(sites, s4Site{fn, in, x.Map, "mapupdate"})
				case *ssa.Send:
					// a channel send writes the channel's buffer
					sites = append(sites, s4Site{fn, in, x.Chan, "send"})
				case ssa.CallInstruction:
					cc := x.Common()
					switch s45_builtinName(cc) {
					case "copy":
						sites = append(sites, s4Site{fn, in, cc.Args[0], "copy"})
					case "append":
						if !s45_isNilConst(cc.Args[0]) {
							sites = append(sites, s4Site{fn, in, cc.Args[0], "append"})
						}
					case "delete", "clear":
						sites = append(sites, s4Site{fn, in, cc.Args[0], s45_builtinName(cc)})
					}
					// standard-library helpers that write into the backing array of their first argument
					if callee := cc.StaticCallee(); callee != nil && len(cc.Args) > 0 {
						if name, ok := stdInPlace(callee); ok {
							sites = append(sites, s4Site{fn, in, cc.Args[0], name})
						}
					}
				}
			}
		}
	}
	counts := map[string]int{}
	ordinal := map[string]int{}
	for _, s := range sites {
		r.Func(core.FuncKey(s.fn))
		counts[s.kind]++
		c.checkSite(s, ordinal)
	}
	total := 0
	for k, n := range counts {
		r.Count("S4.write_sites_"+k, n)
		total += n
	}
	r.Count("S4.write_sites", total)
	r.Min("S4.write_sites", 60)
	r.Min("S4.write_sites_store", 40)
	r.Min("S4.write_sites_copy", 2)
	r.Min("S4.write_sites_append", 1)
}

func (c *s4ctx) siteWhat(s s4Site, ordinal map[string]int) string {
	w := s.kind + " " + s45_clip(s45_renderVal(s.addr, 0), 60)
	k := core.FuncKey(s.fn) + "|" + w
	ordinal[k]++
	if n := ordinal[k]; n > 1 {
		w += fmt.Sprintf(" (%d)", n)
	}
	return w
}

// allowed returns the reason why a write to non-fresh memory at this site is permitted, or "".
func (c *s4ctx) allowed(s s4Site) (reason string, note bool) {
	switch x := s.instr.(type) {
	case *ssa.Store:
		fr, isField := asFieldAddr(x.Addr)
		// 1. the back-propagation walk marks contexts and accumulates gradients (property C10: "only BackPropagate assigns gradients")
		if isField && c.walk[s.fn] && sameNamed(fr.Struct, c.a.GradContext) && (fr.Index == c.a.GDirty || fr.Index == c.a.GGradient) {
			return "the back-propagation walk is the one writer of GradContext." + fr.Name, false
		}
		// 2. ResetGradContext replaces the receiver's context (property C10: "only ResetGradContext changes tracking")
		if isField && c.fnReset != nil && s.fn == c.fnReset && sameNamed(fr.Struct, c.a.CPUTensor) && fr.Index == c.a.FGctx && paramIndex(s.fn, fr.Base) == 0 {
			return "ResetGradContext replaces the receiver's gradient context; shape and elements are untouched", false
		}
		// 3. a metric accumulates into its own counters
		//    (matched by package and type, not by function or field name: the counters may live in an embedded
		//    helper struct and be updated by its methods)
		mfr, mIsField := fr, isField
		if !mIsField {
			// an element of an array-valued counter field: &c.seen[i]
			a := x.Addr
			for i := 0; i < 4; i++ {
				ia, ok := a.(*ssa.IndexAddr)
				if !ok {
					break
				}
				a = ia.X
			}
			mfr, mIsField = asFieldAddr(a)
		}
		if mIsField && c.fnAccumulate != nil && core.PkgPathOf(s.fn) == core.PkgMetrics && mfr.Struct.Obj().Pkg() != nil && mfr.Struct.Obj().Pkg().Path() == core.PkgMetrics && !c.e.pointerful(x.Val.Type()) {
			onlyParams := true
			for r := range c.e.get(s.addr) {
				if r.kind != rkParam && r.kind != rkLocal {
					onlyParams = false
				}
			}
			if onlyParams {
				return "a metric updates the scalar counters of its own object; no tensor is involved", false
			}
		}
		// 3b. once-guarded lazy initialisation: the store sits in a function literal whose only use is as the argument
		//     of (*sync.Once).Do on a Once that is a field of the very object being written, and the value is scalar
		//     data (a table of bounds computed on first use).  Every call - and every goroutine - sees it written once.
		if mIsField && !c.e.pointerful(x.Val.Type()) && s.fn.Parent() != nil {
			if owner := onceGuardedBy(s.fn); owner != nil && sameNamed(mfr.Struct, owner) {
				return "initialises scalar state of its own object inside sync.Once.Do (written once, before any reader proceeds)", false
			}
		}
		// 4. the optimizer step replaces the tensor handle behind the pointer it is given; the old tensor is not modified
		if c.fnSGDUpdate != nil && s.fn == c.fnSGDUpdate && len(s.fn.Params) > 1 && x.Addr == s.fn.Params[1] {
			return "SGD.Update stores the new weight through the *tensor.Tensor it was given: the variable changes, the old tensor does not", false
		}
	case *ssa.MapUpdate:
		// 5. the config copy of the FC layer shares the Initializers map with the caller's config: filling in the defaults
		//    writes the caller's map when it is non-nil.  No tensor or slice is involved and no property covers it.
		// (matched by the type of the object the map lives in, not by function: the defaults may be filled in by any helper)
		if fr, ok := loadOfField(x.Map); ok && strings.HasSuffix(fr.Struct.Obj().Name(), "Config") {
			if mt, ok := x.Map.Type().Underlying().(*types.Map); ok && !sameNamed(namedOf(mt.Elem()), c.a.TensorIface) {
				return "fills defaults into a map field of a configuration struct, which is the caller's map when that was non-nil (config data: no tensor, slice or gradient memory is involved and no property covers it)", true
			}
		}
	}
	return "", false
}

func (c *s4ctx) checkSite(s s4Site, ordinal map[string]int) {
	key := core.FuncKey(s.fn)
	what := c.siteWhat(s, ordinal)
	pos := c.p.Pos(s.instr.Pos())
	roots := c.e.get(s.addr)
	expr := s45_clip(s45_renderVal(s.addr, 0), 90)

	if len(roots) == 0 {
		if s45_isNilConst(s.addr) {
			c.r.Pass("S4.write", key, what, pos, "writes through a nil constant (cannot execute)")
			return
		}
		c.r.Undecide("S4.write", key, what, pos, fmt.Sprintf("the written location %s has no root the analysis recognises", expr))
		return
	}
	allFresh := true
	for r := range roots {
		if r.kind != rkLocal {
			allFresh = false
		}
	}
	if allFresh {
		var where []string
		for _, r := range roots.sorted(c.e) {
			where = append(where, c.e.rootString(r))
		}
		c.r.Pass("S4.write", key, what, pos, "writes memory allocated by the running call: "+s45_clip(strings.Join(where, "; "), 300))
		return
	}
	if reason, note := c.allowed(s); reason != "" {
		if note {
			c.r.Note("S4.write", key, what, pos, reason)
			c.r.Count("S4.noted_writers", 1)
		} else {
			c.r.Pass("S4.allowed-writer", key, what, pos, reason)
			c.r.Count("S4.allowed_writers", 1)
		}
		return
	}
	var metBy []string
	bad := false
	var entries []string
	var firstText string
	var firstPath []string
	for _, r := range roots.sorted(c.e) {
		switch r.kind {
		case rkLocal:
		case rkGlobal:
			bad = true
			c.r.Violate("S4.write", key, what+" ← "+r.obj.Name(), pos,
				fmt.Sprintf("writes %s, which is %s: package-level state is shared by every call", expr, c.e.rootString(r)),
				fmt.Sprintf("%s %s ⇐ %s", s.kind, expr, c.e.rootString(r)))
		case rkUnknown:
			bad = true
			c.r.Undecide("S4.write", key, what, pos, fmt.Sprintf("the written location %s comes from %s", expr, c.e.rootString(r)))
		case rkParam:
			start := s4Obl{r.fn, r.idx, r.deep, r.field, r.one}
			first := fmt.Sprintf("%s %s at %s in %s writes %s", s.kind, expr, pos, key, c.e.rootString(r))
			fs := c.collect(start, first)
			if len(fs) == 0 {
				metBy = append(metBy, c.nodeFor(start).note)
				continue
			}
			for _, f := range fs {
				bad = true
				if f.f.undecided {
					c.r.Undecide("S4.write", key, what+" ← "+f.f.key, pos, fmt.Sprintf("the written location %s: %s", expr, f.f.text))
					continue
				}
				entries = append(entries, f.f.key)
				if firstPath == nil {
					firstText, firstPath = f.f.text, f.path
				}
			}
		}
	}
	if len(entries) > 0 {
		entries = s45_uniqStrings(entries)
		sort.Strings(entries)
		more := ""
		if len(entries) > 1 {
			more = fmt.Sprintf(" (reached from %d public entry points: %s)", len(entries), s45_clip(strings.Join(entries, ", "), 300))
		}
		c.r.Violate("S4.write", key, what, pos,
			fmt.Sprintf("writes %s, memory that is not allocated by the running call: %s%s — an existing tensor or the caller owns it", expr, firstText, more),
			strings.Join(firstPath, " ⇐ "))
	}
	if !bad {
		sort.Strings(metBy)
		c.r.Pass("S4.write", key, what, pos, "every caller supplies memory allocated by the running call: "+s45_clip(strings.Join(s45_uniqStrings(metBy), "; "), 300))
	}
}

func s45_uniqStrings(in []string) []string {
	var out []string
	seen := map[string]bool{}
	for _, s := range in {
		if s != "" && !seen[s] {
			seen[s] = true
			out = append(out, s)
		}
	}
	return out
}

type s4Found struct {
	f    s4Finding
	path []string
}

// collect walks the obligation graph from start and returns every finding with the path that leads to it.
func (c *s4ctx) collect(start s4Obl, first string) []s4Found {
	var out []s4Found
	seen := map[s4Obl]bool{}
	var dfs func(k s4Obl, path []string)
	dfs = func(k s4Obl, path []string) {
		if seen[k] {
			return
		}
		seen[k] = true
		n := c.nodeFor(k)
		for _, f := range n.findings {
			out = append(out, s4Found{f, append(append([]string{}, path...), f.text)})
		}
		for _, ed := range n.next {
			dfs(ed.to, append(append([]string{}, path...), ed.via))
		}
	}
	dfs(start, []string{first})
	return out
}

// nodeFor expands one obligation "parameter idx of fn (or memory loaded from it) is memory of the running call".
func (c *s4ctx) nodeFor(k s4Obl) *s4Node {
	if n, ok := c.nodes[k]; ok {
		return n
	}
	n := &s4Node{}
	c.nodes[k] = n
	e := c.e
	pn := s45_paramName(k.fn, k.idx)
	fk := core.FuncKey(k.fn)
	what := "parameter " + pn
	if k.deep {
		what = "memory loaded from parameter " + pn
	} else if k.one {
		what = "the memory parameter " + pn + " points to"
	}
	if c.fnReset != nil && k.fn == c.fnReset && k.idx == 0 && k.field == c.a.FGctx && !k.deep && !k.one {
		// the gradient-context field of ResetGradContext's own receiver: the one sanctioned replacement, whichever
		// helper performs the store
		n.note = "the gctx field of the receiver of ResetGradContext"
		return n
	}
	if s45_isPublicEntry(k.fn) {
		n.findings = append(n.findings, s4Finding{key: fk + "." + pn,
			text: fmt.Sprintf("%s of the public %s (%s)", what, fk, c.p.FuncPos(k.fn))})
		return n
	}
	ins := e.callersOfFn(k.fn)
	if len(ins) == 0 {
		n.findings = append(n.findings, s4Finding{undecided: true, key: fk + "." + pn,
			text: fmt.Sprintf("%s of %s, for which the call graph has no caller", what, fk)})
		return n
	}
	var notes []string
	for _, ed := range ins {
		caller := ed.caller
		ck := core.FuncKey(caller)
		spos := c.p.Pos(ed.site.Pos())
		if !e.analysed[caller] {
			n.findings = append(n.findings, s4Finding{undecided: true, key: fk + "." + pn + "@" + ck,
				text: fmt.Sprintf("%s of %s is supplied by %s (%s), which is not an analysed source function", what, fk, ck, spos)})
			continue
		}
		arg := s45_argOf(ed.site, k.fn, k.idx)
		if arg == nil {
			n.findings = append(n.findings, s4Finding{undecided: true, key: fk + "." + pn + "@" + ck,
				text: fmt.Sprintf("cannot match %s of %s with an operand of the call at %s", what, fk, spos)})
			continue
		}
		roots := rootSet{}
		switch {
		case k.deep:
			e.deepOf(s45_withField(e.get(arg), k.field), roots)
		case k.one:
			e.loadOf(s45_withField(e.get(arg), k.field), roots)
		default:
			roots.addAll(s45_withField(e.get(arg), k.field))
		}
		argExpr := s45_clip(s45_renderVal(arg, 0), 60)
		for _, r := range roots.sorted(e) {
			switch r.kind {
			case rkLocal:
				notes = append(notes, fmt.Sprintf("%s passes %s", ck, s45_clip(s45_renderVal(r.obj, 0), 30)))
			case rkParam:
				via := fmt.Sprintf("%s passes %s for %s of %s at %s, which is %s", ck, argExpr, pn, k.fn.Name(), spos, e.rootString(r))
				if k.deep {
					via = fmt.Sprintf("%s passes %s for %s of %s at %s, through which %s is reachable", ck, argExpr, pn, k.fn.Name(), spos, e.rootString(r))
				}
				n.next = append(n.next, s4Edge{s4Obl{r.fn, r.idx, r.deep, r.field, r.one}, via})
				if r.fn != k.fn || r.idx != k.idx {
					notes = append(notes, fmt.Sprintf("%s forwards its %s", ck, s45_paramName(r.fn, r.idx)))
				}
			case rkGlobal:
				n.findings = append(n.findings, s4Finding{key: r.obj.Name(),
					text: fmt.Sprintf("%s passes %s for %s of %s at %s: %s", ck, argExpr, pn, k.fn.Name(), spos, e.rootString(r))})
			default:
				n.findings = append(n.findings, s4Finding{undecided: true, key: fk + "." + pn + "@" + ck,
					text: fmt.Sprintf("%s passes %s for %s of %s at %s: %s", ck, argExpr, pn, k.fn.Name(), spos, e.rootString(r))})
			}
		}
	}
	n.note = fmt.Sprintf("%s of %s ← %s", what, k.fn.Name(), s45_clip(strings.Join(s45_uniqStrings(notes), ", "), 160))
	return n
}

var _ = types.Identical

// stdInPlace recognises the in-place helpers of packages slices and sort (they shift, sort or overwrite the
// elements of the slice they are given; Insert/Replace do so whenever the capacity allows).
func stdInPlace(fn *ssa.Function) (string, bool) {
	pk := fn.Pkg
	if pk == nil && fn.Origin() != nil {
		pk = fn.Origin().Pkg
	}
	if pk == nil {
		return "", false
	}
	name := fn.Name()
	if i := strings.Index(name, "["); i >= 0 {
		name = name[:i]
	}
	switch pk.Pkg.Path() {
	case "slices":
		switch name {
		case "Insert", "Delete", "DeleteFunc", "Replace", "Compact", "CompactFunc", "Reverse", "Sort", "SortFunc", "SortStableFunc":
			return "slices." + name, true
		}
	case "sort":
		switch name {
		case "Ints", "Float64s", "Strings", "Slice", "SliceStable", "Sort", "Stable":
			return "sort." + name, true
		}
	}
	return "", false
}

// onceGuardedBy: fn is a function literal used only as the argument of (*sync.Once).Do where the Once is a field of a
// named struct; returns that struct type (nil otherwise).
func onceGuardedBy(fn *ssa.Function) *types.Named {
	parent := fn.Parent()
	if parent == nil {
		return nil
	}
	var owner *types.Named
	found := false
	for _, b := range parent.Blocks {
		for _, in := range b.Instrs {
			mc, ok := in.(*ssa.MakeClosure)
			if !ok || mc.Fn != fn {
				continue
			}
			refs := mc.Referrers()
			if refs == nil {
				return nil
			}
			for _, ref := range *refs {
				if _, isDbg := ref.(*ssa.DebugRef); isDbg {
					continue
				}
				call, ok := ref.(*ssa.Call)
				if !ok {
					return nil
				}
				callee := call.Call.StaticCallee()
				if callee == nil || callee.String() != "(*sync.Once).Do" || len(call.Call.Args) != 2 || call.Call.Args[1] != mc {
					return nil
				}
				fa, ok := call.Call.Args[0].(*ssa.FieldAddr)
				if !ok {
					return nil
				}
				pt, ok := types.Unalias(fa.X.Type()).Underlying().(*types.Pointer)
				if !ok {
					return nil
				}
				n, ok := types.Unalias(pt.Elem()).(*types.Named)
				if !ok {
					return nil
				}
				if owner != nil && owner != n {
					return nil
				}
				owner, found = n, true
			}
		}
	}
	if !found {
		return nil
	}
	return owner
}
