package rules

import (
	"fmt"
	"go/token"
	"go/types"
	"os"
	"sort"
	"strings"
	"time"

	"golang.org/x/tools/go/callgraph"
	"golang.org/x/tools/go/ssa"

	"qverif/core"
)

// Shared machinery of S4 (write provenance) and S5 (caller-slice retention): a small inclusion-based
// points-to analysis over go/ssa.
//
// Every value of pointer-like type (pointer, slice, map, interface, struct/array holding one) is mapped to the set
// of ROOTS of the memory it addresses:
//
//	Local(site)        an allocation instruction (new / make / composite literal / varargs array / append result);
//	                   allocation sites have a program-wide identity, so an object returned by a callee or captured
//	                   by a closure keeps its root
//	Param(f,i,deep)    the object parameter i of f addresses (deep=false) or anything loaded from it (deep=true);
//	                   always expressed in the terms of the function that OWNS the parameter: whoever needs a fact
//	                   about it gets an obligation on every caller of f
//	Global(g,deep)     a package-level variable (or memory loaded from it)
//	Unknown(instr)     the result of something the analysis does not model (channel receive, foreign call result)
//
// contents[site] is what has been stored into a local object (field- and index-insensitive, flow-insensitive, with the
// effects of callees that receive its address); loading from a local object yields its contents.  Local variable
// cells (the Allocs go/ssa creates for captured variables) are read flow-sensitively: a load sees the stores that
// reach it, a closure sees the stores that reach its MakeClosure or follow it.
// Function summaries: ret[f] (roots of the results, in f's terms: substituted at each call site) and
// pstore[f,i,deep] (roots of what f and its callees store through parameter i).

type rKind uint8

const (
	rkLocal rKind = iota
	rkParam
	rkGlobal
	rkUnknown
)

type pRoot struct {
	kind rKind
	obj  ssa.Value     // rkLocal: allocation site, rkGlobal: *ssa.Global, rkUnknown: the unmodelled instruction
	fn   *ssa.Function // rkParam
	idx  int           // rkParam
	deep bool          // rkParam / rkGlobal: memory loaded (at any depth) from the root object
	// one: memory reached by EXACTLY ONE load from the root object / its field (the array behind a slice-valued
	// field, the object behind a pointer-valued field); a further load makes it deep.  Lets a helper object that is
	// fresh in the caller (builder, work list) be told from the older objects its elements point to.
	one bool
	// field: first-level struct field of the root object through which the memory is addressed (deep=false) or was
	// reached (deep=true); noField when the whole object / an element is meant
	field int
}

const noField = -1

// keyField: pseudo-field under which a map object holds its KEYS (values live under noField), so that a lookup
// does not return the keys (a map from existing contexts to fresh counters yields fresh counters)
const keyField = -2

type objField struct {
	obj   ssa.Value
	field int
}

type rootSet map[pRoot]struct{}

func (s rootSet) add(r pRoot) bool {
	if _, ok := s[r]; ok {
		return false
	}
	s[r] = struct{}{}
	return true
}

func (s rootSet) addAll(o rootSet) bool {
	ch := false
	for r := range o {
		if s.add(r) {
			ch = true
		}
	}
	return ch
}

func (s rootSet) sorted(e *provEngine) []pRoot {
	out := make([]pRoot, 0, len(s))
	for r := range s {
		out = append(out, r)
	}
	sort.Slice(out, func(i, j int) bool { return e.rootString(out[i]) < e.rootString(out[j]) })
	return out
}

type pstoreKey struct {
	fn    *ssa.Function
	idx   int
	deep  bool
	field int
	// one: the store goes into memory EXACTLY ONE load away from the parameter's object (the array behind a
	// slice cell passed by address); keeps a work-list helper from smearing its elements over everything
	// reachable from the list
	one bool
	// slotT/slotF: the named struct type and field the storing instruction addresses (nil: an element or a
	// whole-value store).  A store applied at depth to the local objects reachable from an argument only lands in
	// objects that hold a slotT by value: "gctx.gradient = g" somewhere below a work list does not smear g over
	// the list's arrays and every edge in them.
	slotT *types.Named
	slotF int
}

// pstoreLevel: 0 the parameter's object, 1 one load away, 2 any depth.
func pstoreLevel(deep, one bool) int {
	switch {
	case deep:
		return 2
	case one:
		return 1
	}
	return 0
}

func mkPstoreKey(fn *ssa.Function, idx, level, field int, slotT *types.Named, slotF int) pstoreKey {
	if slotT == nil {
		slotF = 0
	}
	return pstoreKey{fn: fn, idx: idx, deep: level >= 2, one: level == 1, field: field, slotT: slotT, slotF: slotF}
}

// slotOf: the (named struct, field) a store address names directly, or nil.
func slotOf(addr ssa.Value) (*types.Named, int) {
	fa, ok := addr.(*ssa.FieldAddr)
	if !ok {
		return nil, 0
	}
	pt, ok := types.Unalias(fa.X.Type()).Underlying().(*types.Pointer)
	if !ok {
		return nil, 0
	}
	n, ok := types.Unalias(pt.Elem()).(*types.Named)
	if !ok || n.TypeArgs().Len() > 0 {
		return nil, 0
	}
	if _, isStruct := n.Underlying().(*types.Struct); !isStruct {
		return nil, 0
	}
	return n, fa.Field
}

// objType: the type of the memory a local allocation site stands for (nil: not known).
func objType(obj ssa.Value) types.Type {
	switch x := obj.(type) {
	case *ssa.Alloc:
		if pt, ok := types.Unalias(x.Type()).Underlying().(*types.Pointer); ok {
			return pt.Elem()
		}
	case *ssa.MakeSlice:
		if sl, ok := types.Unalias(x.Type()).Underlying().(*types.Slice); ok {
			return types.NewArray(sl.Elem(), 1)
		}
	case *ssa.Call:
		if b, ok := x.Call.Value.(*ssa.Builtin); ok && b.Name() == "append" {
			if sl, ok := types.Unalias(x.Type()).Underlying().(*types.Slice); ok {
				return types.NewArray(sl.Elem(), 1)
			}
		}
		// a call of an allocation wrapper: the object it returns
		if pt, ok := types.Unalias(x.Type()).Underlying().(*types.Pointer); ok && x.Call.StaticCallee() != nil {
			return pt.Elem()
		}
	}
	return nil
}

// holdsSlot: 2 the object IS a slotT, 1 it may hold one by value (or its type is not known), 0 it cannot.
func holdsSlot(obj ssa.Value, slotT *types.Named) int {
	t := objType(obj)
	if t == nil {
		return 1
	}
	if types.Identical(types.Unalias(t), slotT) {
		return 2
	}
	var inside func(t types.Type, depth int) bool
	inside = func(t types.Type, depth int) bool {
		if depth > 6 {
			return true
		}
		if types.Identical(types.Unalias(t), slotT) {
			return true
		}
		switch u := types.Unalias(t).Underlying().(type) {
		case *types.Struct:
			for i := 0; i < u.NumFields(); i++ {
				if inside(u.Field(i).Type(), depth+1) {
					return true
				}
			}
		case *types.Array:
			return inside(u.Elem(), depth+1)
		case *types.TypeParam:
			return true
		}
		return false
	}
	if inside(t, 0) {
		return 1
	}
	return 0
}

// growSlot stores t into a local object reached at depth by a store with the given slot.
func (e *provEngine) growSlot(o ssa.Value, fallbackField int, k pstoreKey, t rootSet) {
	if k.slotT == nil || e.noSlot {
		e.growContents(o, fallbackField, t)
		return
	}
	switch holdsSlot(o, k.slotT) {
	case 2:
		e.growContents(o, k.slotF, t)
	case 1:
		e.growContents(o, noField, t)
	}
}

type fnParam struct {
	fn  *ssa.Function
	idx int
}

type callerSite struct {
	caller *ssa.Function
	site   ssa.CallInstruction
}

type provEngine struct {
	p         *core.Program
	g         *callgraph.Graph
	fns       []*ssa.Function
	analysed  map[*ssa.Function]bool
	pts       map[ssa.Value]rootSet
	contents  map[objField]rootSet
	fields    map[ssa.Value][]int // fields of an object that have contents
	pstore    map[pstoreKey]rootSet
	pkeys     map[fnParam][]pstoreKey
	reachMemo map[objField][]ssa.Value
	deepMemo  map[objField]rootSet
	noSlot    bool
	// wrappers: module functions that allocate one object, fill its fields and return it (newTensor(dims, data)); a call
	// to one is an allocation site of its own - one abstract object per CALL, not one per helper
	wrappers map[*ssa.Function]ssa.Value
	callers  map[*ssa.Function][]callerSite
	ret      map[*ssa.Function][]rootSet
	mcSites  map[*ssa.Function][]*ssa.MakeClosure
	callees  map[ssa.Instruction][]*ssa.Function // analysed callees of a call site
	foreign  map[ssa.Instruction]bool            // the site has a callee outside the module, or none was resolved
	ptrful   map[types.Type]bool
	simple   map[*ssa.Alloc]int8
	cellAt   map[ssa.Instruction][]ssa.Value
	cellFrom map[cellFromKey][]ssa.Value
	errorT   types.Type
	changed  bool
	Rounds   int
}

type cellFromKey struct {
	a  *ssa.Alloc
	mc *ssa.MakeClosure
}

var provEngines = map[*core.Program]*provEngine{}

// provEngineFor builds (once per loaded program) the points-to facts.
func provEngineFor(p *core.Program) *provEngine {
	if e, ok := provEngines[p]; ok {
		return e
	}
	e := &provEngine{
		p: p, g: p.VTA(),
		analysed: map[*ssa.Function]bool{},
		pts:      map[ssa.Value]rootSet{},
		contents: map[objField]rootSet{},
		fields:   map[ssa.Value][]int{},
		pstore:   map[pstoreKey]rootSet{},
		pkeys:    map[fnParam][]pstoreKey{},
		callers:  map[*ssa.Function][]callerSite{},
		ret:      map[*ssa.Function][]rootSet{},
		mcSites:  map[*ssa.Function][]*ssa.MakeClosure{},
		callees:  map[ssa.Instruction][]*ssa.Function{},
		foreign:  map[ssa.Instruction]bool{},
		ptrful:   map[types.Type]bool{},
		simple:   map[*ssa.Alloc]int8{},
		cellAt:   map[ssa.Instruction][]ssa.Value{},
		cellFrom: map[cellFromKey][]ssa.Value{},
		errorT:   types.Universe.Lookup("error").Type(),
	}
	e.fns = p.ModuleFunctions()
	// the slot filter of parameter-store summaries relies on typed pointers: off if any analysed package
	// imports unsafe
	for _, fn := range e.fns {
		if fn.Pkg != nil && fn.Pkg.Pkg != nil {
			for _, imp := range fn.Pkg.Pkg.Imports() {
				if imp.Path() == "unsafe" {
					e.noSlot = true
				}
			}
		}
	}
	// synthetic wrappers of module functions (method-expression thunks, bound-method closures) that call sites
	// through function values resolve to: analysed like any other function
	{
		have := map[*ssa.Function]bool{}
		for _, fn := range e.fns {
			have[fn] = true
		}
		for _, n := range e.g.Nodes {
			if n == nil || n.Func == nil {
				continue
			}
			for _, ed := range n.Out {
				cf := ed.Callee.Func
				if cf != nil && !have[cf] && isWrapper(cf) && cf.Blocks != nil && core.InModule(cf) && core.InModule(n.Func) {
					have[cf] = true
					e.fns = append(e.fns, cf)
				}
			}
		}
	}
	for _, fn := range e.fns {
		e.analysed[fn] = true
		n := fn.Signature.Results().Len()
		e.ret[fn] = make([]rootSet, n)
		for i := range e.ret[fn] {
			e.ret[fn][i] = rootSet{}
		}
	}
	for _, fn := range e.fns {
		for _, b := range fn.Blocks {
			for _, in := range b.Instrs {
				if mc, ok := in.(*ssa.MakeClosure); ok {
					if cf, ok := mc.Fn.(*ssa.Function); ok {
						e.mcSites[cf] = append(e.mcSites[cf], mc)
					}
				}
			}
		}
		// VTA resolves calls through func values precisely; for interface calls it only knows the types that flow
		// from allocation sites, which in a library misses everything a user passes in: add the CHA edges there.
		addEdges := func(g *callgraph.Graph, invokeOnly bool) {
			n := g.Nodes[fn]
			if n == nil {
				return
			}
			for _, ed := range n.Out {
				if ed.Site == nil || (invokeOnly && !ed.Site.Common().IsInvoke()) {
					continue
				}
				cf := ed.Callee.Func
				if !e.analysed[cf] {
					e.foreign[ed.Site] = true
					continue
				}
				dup := false
				for _, x := range e.callees[ed.Site] {
					if x == cf {
						dup = true
					}
				}
				if !dup {
					e.callees[ed.Site] = append(e.callees[ed.Site], cf)
					e.callers[cf] = append(e.callers[cf], callerSite{fn, ed.Site})
				}
			}
		}
		addEdges(e.g, false)
		addEdges(p.CHA(), true)
	}
	for site := range e.callees {
		cs := e.callees[site]
		sort.Slice(cs, func(i, j int) bool { return core.FuncKey(cs[i]) < core.FuncKey(cs[j]) })
	}
	for fn := range e.callers {
		cs := e.callers[fn]
		sort.SliceStable(cs, func(i, j int) bool {
			ka, kb := core.FuncKey(cs[i].caller), core.FuncKey(cs[j].caller)
			if ka != kb {
				return ka < kb
			}
			return cs[i].site.Pos() < cs[j].site.Pos()
		})
	}
	e.solve()
	provEngines[p] = e
	return e
}

/* ---------------- types ---------------- */

// pointerful reports whether a value of type t can address mutable memory.  Function values are not tracked
// (captured variables are resolved through the MakeClosure bindings instead); error values are never written through.
func (e *provEngine) pointerful(t types.Type) bool {
	if t == nil {
		return false
	}
	if v, ok := e.ptrful[t]; ok {
		return v
	}
	e.ptrful[t] = false // recursive types: a cycle goes through a pointer, which answers true first
	var res bool
	if types.Identical(t, e.errorT) {
		res = false
	} else {
		switch u := types.Unalias(t).Underlying().(type) {
		case *types.Basic:
			res = u.Kind() == types.UnsafePointer
		case *types.Pointer, *types.Slice, *types.Map, *types.Chan, *types.Interface, *types.TypeParam:
			res = true
		case *types.Signature:
			res = false
		case *types.Struct:
			for i := 0; i < u.NumFields(); i++ {
				if e.pointerful(u.Field(i).Type()) {
					res = true
					break
				}
			}
		case *types.Array:
			res = e.pointerful(u.Elem())
		case *types.Tuple:
			for i := 0; i < u.Len(); i++ {
				if e.pointerful(u.At(i).Type()) {
					res = true
				}
			}
		default:
			res = true
		}
	}
	e.ptrful[t] = res
	return res
}

func s45_isSliceType(t types.Type) bool {
	_, ok := types.Unalias(t).Underlying().(*types.Slice)
	return ok
}

func s45_isInterfaceType(t types.Type) bool {
	switch types.Unalias(t).Underlying().(type) {
	case *types.Interface:
		return true
	}
	_, tp := types.Unalias(t).(*types.TypeParam)
	return tp
}

// isSliceOrAny: the parameter kinds through which a caller hands over a backing array: slices, `any`
// (TensorOf data) and type parameters (the generic façade of TensorOf).
func s45_isSliceOrAny(t types.Type) bool {
	if s45_isSliceType(t) {
		return true
	}
	if _, ok := types.Unalias(t).(*types.TypeParam); ok {
		return true
	}
	if it, ok := types.Unalias(t).Underlying().(*types.Interface); ok {
		return it.NumMethods() == 0
	}
	return false
}

/* ---------------- value lookup ---------------- */

func s45_paramIdx(prm *ssa.Parameter) int {
	for i, q := range prm.Parent().Params {
		if q == prm {
			return i
		}
	}
	return -1
}

func s45_freeVarIdx(fv *ssa.FreeVar) int {
	for i, q := range fv.Parent().FreeVars {
		if q == fv {
			return i
		}
	}
	return -1
}

// get returns the roots of v (read-only result).
func (e *provEngine) get(v ssa.Value) rootSet {
	switch x := v.(type) {
	case nil:
		return nil
	case *ssa.Parameter:
		if !e.pointerful(x.Type()) {
			return nil
		}
		return rootSet{pRoot{kind: rkParam, fn: x.Parent(), idx: s45_paramIdx(x), field: noField}: {}}
	case *ssa.FreeVar:
		out := rootSet{}
		k := s45_freeVarIdx(x)
		for _, mc := range e.mcSites[x.Parent()] {
			if k < len(mc.Bindings) {
				out.addAll(e.get(mc.Bindings[k]))
			}
		}
		return out
	case *ssa.Global:
		return rootSet{pRoot{kind: rkGlobal, obj: x, field: noField}: {}}
	case *ssa.Const, *ssa.Function, *ssa.Builtin:
		return nil
	}
	return e.pts[v]
}

// contentsOf: what has been stored into field f of obj (noField: into any part of it).
func (e *provEngine) contentsOf(obj ssa.Value, f int, out rootSet) {
	out.addAll(e.contents[objField{obj, noField}])
	if f != noField {
		out.addAll(e.contents[objField{obj, f}])
		return
	}
	for _, g := range e.fields[obj] {
		if g == keyField {
			continue
		}
		out.addAll(e.contents[objField{obj, g}])
	}
}

// keysOf: the roots of the keys stored in map objects with the given roots.
func (e *provEngine) keysOf(s rootSet, out rootSet) {
	for r := range s {
		switch r.kind {
		case rkLocal:
			out.addAll(e.contents[objField{r.obj, keyField}])
		case rkParam, rkGlobal:
			r.deep, r.one = true, false
			out.add(r)
		default:
			out.add(r)
		}
	}
}

// loadOf: the roots of a value loaded (one level) from memory with the given roots.
func (e *provEngine) loadOf(s rootSet, out rootSet) {
	for r := range s {
		switch r.kind {
		case rkLocal:
			e.contentsOf(r.obj, r.field, out)
		case rkParam, rkGlobal:
			if !r.deep && !r.one {
				r.one = true
			} else {
				r.deep, r.one = true, false
			}
			out.add(r)
		default:
			out.add(r)
		}
	}
}

// reachFrom: the local objects reachable from field f of obj by one or more loads.
func (e *provEngine) reachFrom(obj ssa.Value, f int) []ssa.Value {
	// memoised per round: contents only grow, a stale answer inside a round is completed by
	// the next round (any growth sets e.changed)
	mk := objField{obj, f}
	if w, ok := e.reachMemo[mk]; ok {
		return w
	}
	w := e.reachFromUncached(obj, f)
	if e.reachMemo == nil {
		e.reachMemo = map[objField][]ssa.Value{}
	}
	e.reachMemo[mk] = w
	return w
}

func (e *provEngine) reachFromUncached(obj ssa.Value, f int) []ssa.Value {
	first := rootSet{}
	e.contentsOf(obj, f, first)
	seen := map[ssa.Value]bool{}
	var work []ssa.Value
	for r := range first {
		if r.kind == rkLocal && !seen[r.obj] {
			seen[r.obj] = true
			work = append(work, r.obj)
		}
	}
	for i := 0; i < len(work); i++ {
		c := rootSet{}
		e.contentsOf(work[i], noField, c)
		for r := range c {
			if r.kind == rkLocal && !seen[r.obj] {
				seen[r.obj] = true
				work = append(work, r.obj)
			}
		}
	}
	return work
}

// deepOf: the roots of everything reachable by one or more loads from memory with the given roots.
func (e *provEngine) deepOf(s rootSet, out rootSet) {
	addDeep := func(c rootSet) {
		for r := range c {
			out.add(r)
			if (r.kind == rkParam || r.kind == rkGlobal) && !r.deep {
				r.deep, r.one = true, false
				out.add(r)
			}
		}
	}
	for r := range s {
		switch r.kind {
		case rkLocal:
			// memoised per round like reachFrom
			mk := objField{r.obj, r.field}
			m, ok := e.deepMemo[mk]
			if !ok {
				m = rootSet{}
				outer := out
				out = m
				c := rootSet{}
				e.contentsOf(r.obj, r.field, c)
				addDeep(c)
				for _, o := range e.reachFrom(r.obj, r.field) {
					c := rootSet{}
					e.contentsOf(o, noField, c)
					addDeep(c)
				}
				out = outer
				if e.deepMemo == nil {
					e.deepMemo = map[objField]rootSet{}
				}
				e.deepMemo[mk] = m
			}
			out.addAll(m)
		case rkParam, rkGlobal:
			r.deep, r.one = true, false
			out.add(r)
		default:
			out.add(r)
		}
	}
}

// withField narrows roots of a pointer to a struct to its field f.
func s45_withField(s rootSet, f int) rootSet {
	if f == noField {
		return s
	}
	out := rootSet{}
	for r := range s {
		if (r.kind == rkLocal || r.kind == rkParam || r.kind == rkGlobal) && r.field == noField && !(r.deep) && !r.one {
			r.field = f
		}
		out.add(r)
	}
	return out
}

// argOf returns the operand of the call site bound to parameter i of callee (receiver included), or nil.
func s45_argOf(site ssa.CallInstruction, callee *ssa.Function, i int) ssa.Value {
	c := site.Common()
	if c.IsInvoke() {
		if i == 0 {
			return c.Value
		}
		i--
	}
	if i < 0 || i >= len(c.Args) {
		return nil
	}
	return c.Args[i]
}

// subst rewrites roots expressed in callee's parameter terms into the caller's terms at site.
func (e *provEngine) subst(s rootSet, site ssa.CallInstruction, callee *ssa.Function, out rootSet) {
	for r := range s {
		if r.kind == rkParam && r.fn == callee {
			arg := s45_argOf(site, callee, r.idx)
			if arg == nil {
				if v, ok := site.(ssa.Value); ok {
					out.add(pRoot{kind: rkUnknown, obj: v, field: noField})
				}
				continue
			}
			switch {
			case r.deep:
				e.deepOf(s45_withField(e.get(arg), r.field), out)
			case r.one:
				e.loadOf(s45_withField(e.get(arg), r.field), out)
			default:
				out.addAll(s45_withField(e.get(arg), r.field))
			}
			continue
		}
		out.add(r)
	}
}

/* ---------------- local variable cells ---------------- */

// isSimpleCell: an Alloc used only as a variable: stored to, loaded from and captured by closures that only read it.
func (e *provEngine) isSimpleCell(a *ssa.Alloc) bool {
	if v, ok := e.simple[a]; ok {
		return v > 0
	}
	ok := true
	for _, ref := range *a.Referrers() {
		switch x := ref.(type) {
		case *ssa.Store:
			if x.Addr != a || x.Val == a {
				ok = false
			}
		case *ssa.UnOp:
			if x.Op != token.MUL {
				ok = false
			}
		case *ssa.DebugRef:
		case *ssa.MakeClosure:
			cf, isFn := x.Fn.(*ssa.Function)
			if !isFn {
				ok = false
				break
			}
			for k, b := range x.Bindings {
				if b != a || k >= len(cf.FreeVars) {
					continue
				}
				for _, r2 := range *cf.FreeVars[k].Referrers() {
					switch y := r2.(type) {
					case *ssa.UnOp:
						if y.Op != token.MUL {
							ok = false
						}
					case *ssa.DebugRef:
					default:
						ok = false
					}
				}
			}
		default:
			ok = false
		}
	}
	if ok {
		e.simple[a] = 1
	} else {
		e.simple[a] = -1
	}
	return ok
}

func s45_instrIndex(in ssa.Instruction) int {
	for i, x := range in.Block().Instrs {
		if x == in {
			return i
		}
	}
	return -1
}

// reachingStores: the values stored into cell a that may be its content when `at` executes.
func s45_reachingStores(a *ssa.Alloc, at ssa.Instruction) []ssa.Value {
	var out []ssa.Value
	seen := map[*ssa.BasicBlock]bool{}
	var walk func(b *ssa.BasicBlock, from int)
	walk = func(b *ssa.BasicBlock, from int) {
		for i := from - 1; i >= 0; i-- {
			if st, ok := b.Instrs[i].(*ssa.Store); ok && st.Addr == a {
				out = append(out, st.Val)
				return
			}
		}
		for _, pr := range b.Preds {
			if !seen[pr] {
				seen[pr] = true
				walk(pr, len(pr.Instrs))
			}
		}
	}
	walk(at.Block(), s45_instrIndex(at))
	return out
}

// laterStores: the values stored into cell a on some path after `at`.
func s45_laterStores(a *ssa.Alloc, at ssa.Instruction) []ssa.Value {
	var out []ssa.Value
	b0 := at.Block()
	for i := s45_instrIndex(at) + 1; i < len(b0.Instrs); i++ {
		if st, ok := b0.Instrs[i].(*ssa.Store); ok && st.Addr == a {
			out = append(out, st.Val)
		}
	}
	seen := map[*ssa.BasicBlock]bool{}
	work := append([]*ssa.BasicBlock{}, b0.Succs...)
	for len(work) > 0 {
		b := work[0]
		work = work[1:]
		if seen[b] {
			continue
		}
		seen[b] = true
		for _, in := range b.Instrs {
			if st, ok := in.(*ssa.Store); ok && st.Addr == a {
				out = append(out, st.Val)
			}
		}
		work = append(work, b.Succs...)
	}
	return out
}

// cellValuesAt: what a load of simple cell a at instruction `at` may observe.
func (e *provEngine) cellValuesAt(a *ssa.Alloc, at ssa.Instruction) []ssa.Value {
	if v, ok := e.cellAt[at]; ok {
		return v
	}
	v := s45_reachingStores(a, at)
	e.cellAt[at] = v
	return v
}

// cellValuesFrom: what a closure created at mc may observe in the captured simple cell a.
func (e *provEngine) cellValuesFrom(a *ssa.Alloc, mc *ssa.MakeClosure) []ssa.Value {
	k := cellFromKey{a, mc}
	if v, ok := e.cellFrom[k]; ok {
		return v
	}
	v := append(s45_reachingStores(a, mc), s45_laterStores(a, mc)...)
	e.cellFrom[k] = v
	return v
}

// capturedValues: the values a closure created at mc may find behind binding b, or nil,false when b is not a simple cell.
func (e *provEngine) capturedValues(b ssa.Value, mc *ssa.MakeClosure) ([]ssa.Value, bool) {
	a, ok := b.(*ssa.Alloc)
	if !ok || !e.isSimpleCell(a) {
		return nil, false
	}
	return e.cellValuesFrom(a, mc), true
}

/* ---------------- transfer functions ---------------- */

func (e *provEngine) evalLoad(u *ssa.UnOp) rootSet {
	out := rootSet{}
	switch x := u.X.(type) {
	case *ssa.Alloc:
		if e.isSimpleCell(x) {
			for _, v := range e.cellValuesAt(x, u) {
				out.addAll(e.get(v))
			}
			return out
		}
	case *ssa.FreeVar:
		k := s45_freeVarIdx(x)
		for _, mc := range e.mcSites[x.Parent()] {
			if k >= len(mc.Bindings) {
				continue
			}
			if vals, ok := e.capturedValues(mc.Bindings[k], mc); ok {
				for _, v := range vals {
					out.addAll(e.get(v))
				}
			} else {
				e.loadOf(e.get(mc.Bindings[k]), out)
			}
		}
		return out
	}
	e.loadOf(e.get(u.X), out)
	return out
}

func s45_builtinName(c *ssa.CallCommon) string {
	if b, ok := c.Value.(*ssa.Builtin); ok {
		return b.Name()
	}
	return ""
}

func s45_isNilConst(v ssa.Value) bool {
	c, ok := v.(*ssa.Const)
	return ok && c.IsNil()
}

func (e *provEngine) callResult(call *ssa.Call, k int, t types.Type) rootSet {
	out := rootSet{}
	// standard-library slice helpers: what their result may alias is documented
	if callee := call.Call.StaticCallee(); callee != nil {
		o := callee
		if oo := callee.Origin(); oo != nil {
			o = oo
		}
		if o.Pkg != nil && o.Pkg.Pkg.Path() == "slices" && k == 0 {
			switch o.Name() {
			case "Clone", "Concat", "Repeat", "Collect", "Sorted", "SortedFunc", "AppendSeq":
				out.add(pRoot{kind: rkLocal, obj: call, field: noField})
				return out
			case "Grow", "Insert", "Delete", "DeleteFunc", "Compact", "CompactFunc", "Clip", "Replace":
				// the argument's array (possibly extended in place) or a new one
				out.add(pRoot{kind: rkLocal, obj: call, field: noField})
				if len(call.Call.Args) > 0 {
					out.addAll(e.get(call.Call.Args[0]))
				}
				return out
			}
		}
	}
	if k == 0 {
		if w := call.Call.StaticCallee(); w != nil && e.wrappers[w] != nil && !call.Call.IsInvoke() {
			out.add(pRoot{kind: rkLocal, obj: call, field: noField})
			return out
		}
	}
	for _, cf := range e.callees[call] {
		if k < len(e.ret[cf]) {
			e.subst(e.ret[cf][k], call, cf, out)
		}
	}
	if (e.foreign[call] || len(e.callees[call]) == 0) && e.pointerful(t) {
		out.add(pRoot{kind: rkUnknown, obj: call, field: noField})
	}
	return out
}

func (e *provEngine) eval(v ssa.Value) rootSet {
	switch x := v.(type) {
	case *ssa.Alloc, *ssa.MakeSlice, *ssa.MakeMap, *ssa.MakeChan:
		return rootSet{pRoot{kind: rkLocal, obj: v, field: noField}: {}}
	case *ssa.FieldAddr:
		return s45_withField(e.get(x.X), x.Field)
	case *ssa.IndexAddr:
		return e.get(x.X)
	case *ssa.Slice:
		return e.get(x.X)
	case *ssa.ChangeType:
		return e.get(x.X)
	case *ssa.ChangeInterface:
		return e.get(x.X)
	case *ssa.MakeInterface:
		return e.get(x.X)
	case *ssa.SliceToArrayPointer:
		return e.get(x.X)
	case *ssa.Convert:
		if e.pointerful(x.X.Type()) {
			return e.get(x.X)
		}
		return rootSet{pRoot{kind: rkLocal, obj: v, field: noField}: {}} // e.g. string → []byte: a new array
	case *ssa.TypeAssert:
		return e.get(x.X)
	case *ssa.Field:
		// a field of a struct VALUE that was loaded from memory: select the field at the address it was loaded from
		// (struct values kept in slices / work lists stay field-sensitive)
		if ld, ok := x.X.(*ssa.UnOp); ok && ld.Op == token.MUL {
			if _, isAlloc := ld.X.(*ssa.Alloc); !isAlloc || !e.isSimpleCell(ld.X.(*ssa.Alloc)) {
				out := rootSet{}
				e.loadOf(s45_withField(e.get(ld.X), x.Field), out)
				return out
			}
		}
		return e.get(x.X)
	case *ssa.Index:
		return e.get(x.X)
	case *ssa.Phi:
		out := rootSet{}
		for _, ed := range x.Edges {
			out.addAll(e.get(ed))
		}
		return out
	case *ssa.Extract:
		switch t := x.Tuple.(type) {
		case *ssa.Call:
			return e.callResult(t, x.Index, x.Type())
		case *ssa.TypeAssert:
			if x.Index == 0 {
				return e.get(t.X)
			}
		case *ssa.Lookup:
			if x.Index == 0 {
				out := rootSet{}
				e.loadOf(e.get(t.X), out)
				return out
			}
		case *ssa.Next:
			if rng, ok := t.Iter.(*ssa.Range); ok && x.Index > 0 {
				out := rootSet{}
				if _, isMap := types.Unalias(rng.X.Type()).Underlying().(*types.Map); isMap && x.Index == 1 {
					e.keysOf(e.get(rng.X), out)
					return out
				}
				e.loadOf(e.get(rng.X), out)
				return out
			}
		default:
			if x.Index == 0 {
				return rootSet{pRoot{kind: rkUnknown, obj: v, field: noField}: {}}
			}
		}
		return nil
	case *ssa.UnOp:
		switch x.Op {
		case token.MUL:
			return e.evalLoad(x)
		case token.ARROW:
			return rootSet{pRoot{kind: rkUnknown, obj: v, field: noField}: {}}
		}
		return nil
	case *ssa.Lookup:
		out := rootSet{}
		e.loadOf(e.get(x.X), out)
		return out
	case *ssa.Call:
		switch s45_builtinName(&x.Call) {
		case "append":
			out := rootSet{pRoot{kind: rkLocal, obj: v, field: noField}: {}}
			out.addAll(e.get(x.Call.Args[0]))
			return out
		case "":
			if _, isTuple := x.Type().(*types.Tuple); isTuple {
				return nil
			}
			return e.callResult(x, 0, x.Type())
		}
		return nil
	}
	return nil
}

func (e *provEngine) growPts(k ssa.Value, add rootSet) {
	if len(add) == 0 {
		return
	}
	s := e.pts[k]
	if s == nil {
		s = rootSet{}
		e.pts[k] = s
	}
	if s.addAll(add) {
		e.changed = true
	}
}

func (e *provEngine) growContents(obj ssa.Value, f int, add rootSet) {
	if len(add) == 0 {
		return
	}
	k := objField{obj, f}
	s := e.contents[k]
	if s == nil {
		s = rootSet{}
		e.contents[k] = s
		if f != noField {
			e.fields[obj] = append(e.fields[obj], f)
		}
	}
	if s.addAll(add) {
		e.changed = true
	}
}

func (e *provEngine) growPstore(k pstoreKey, add rootSet) {
	if len(add) == 0 {
		return
	}
	s := e.pstore[k]
	if s == nil {
		if os.Getenv("QVERIF_DEBUG") == "3" && k.fn.Name() == "Mul" {
			fmt.Fprintf(os.Stderr, "NEWKEY Mul #%d deep=%v one=%v f=%d at %s adding:", k.idx, k.deep, k.one, k.field, dbgSite)
			for r := range add {
				fmt.Fprintf(os.Stderr, " %s", e.rootString(r))
			}
			fmt.Fprintln(os.Stderr)
		}
		s = rootSet{}
		e.pstore[k] = s
		e.pkeys[fnParam{k.fn, k.idx}] = append(e.pkeys[fnParam{k.fn, k.idx}], k)
	}
	if s.addAll(add) {
		e.changed = true
	}
}

// storeEffect records that values with roots val are stored into memory with roots addr.
func (e *provEngine) storeEffect(addr, val rootSet) {
	e.storeEffectAt(nil, addr, val)
}

// storeEffectAt: as storeEffect, with the address operand of the storing instruction (names the slot written).
func (e *provEngine) storeEffectAt(addrVal ssa.Value, addr, val rootSet) {
	if len(val) == 0 {
		return
	}
	var slotT *types.Named
	slotF := 0
	if addrVal != nil {
		slotT, slotF = slotOf(addrVal)
	}
	for r := range addr {
		switch r.kind {
		case rkLocal:
			e.growContents(r.obj, r.field, val)
		case rkParam:
			e.growPstore(mkPstoreKey(r.fn, r.idx, pstoreLevel(r.deep, r.one), r.field, slotT, slotF), val)
		}
	}
}

var dbgSite string

func (e *provEngine) callEffects(site ssa.CallInstruction) {
	if os.Getenv("QVERIF_DEBUG") == "3" {
		dbgSite = site.Parent().String() + ": " + site.String()
	}
	c := site.Common()
	switch s45_builtinName(c) {
	case "append":
		v := site.(ssa.Value)
		elems := rootSet{}
		if len(c.Args) > 1 && e.pointerful(c.Args[1].Type()) {
			if sl, ok := types.Unalias(c.Args[1].Type()).Underlying().(*types.Slice); ok && e.pointerful(sl.Elem()) {
				e.loadOf(e.get(c.Args[1]), elems)
			}
		}
		// elements that are struct values keep their fields apart: copy the contents of the argument arrays field by field
		if sl, ok := types.Unalias(v.Type()).Underlying().(*types.Slice); ok && s45_isStruct(sl.Elem()) && len(c.Args) > 1 {
			self := rootSet{pRoot{kind: rkLocal, obj: v, field: noField}: {}}
			if e.copyFieldwise(self, e.get(c.Args[1])) && e.copyFieldwise(self, e.get(c.Args[0])) && e.copyFieldwise(e.get(c.Args[0]), e.get(c.Args[1])) {
				return
			}
		}
		old := rootSet{}
		e.loadOf(e.get(c.Args[0]), old)
		e.growContents(v, noField, elems)
		e.growContents(v, noField, old)
		e.storeEffect(e.get(c.Args[0]), elems)
		return
	case "copy":
		if sl, ok := types.Unalias(c.Args[0].Type()).Underlying().(*types.Slice); ok && e.pointerful(sl.Elem()) {
			if s45_isStruct(sl.Elem()) && e.copyFieldwise(e.get(c.Args[0]), e.get(c.Args[1])) {
				return
			}
			src := rootSet{}
			e.loadOf(e.get(c.Args[1]), src)
			e.storeEffect(e.get(c.Args[0]), src)
		}
		return
	case "":
	default:
		return
	}
	for _, cf := range e.callees[site.(ssa.Instruction)] {
		for i := range cf.Params {
			arg := s45_argOf(site, cf, i)
			if arg == nil {
				continue
			}
			keys := e.pkeys[fnParam{cf, i}]
			for ki := 0; ki < len(keys); ki++ {
				k := keys[ki]
				st := e.pstore[k]
				if len(st) == 0 {
					continue
				}
				t := rootSet{}
				e.subst(st, site, cf, t)
				for r := range e.get(arg) {
					f := r.field
					if f == noField {
						f = k.field
					}
					switch r.kind {
					case rkLocal:
						switch {
						case k.deep:
							for _, o := range e.reachFrom(r.obj, f) {
								e.growSlot(o, noField, k, t)
							}
						case k.one:
							first := rootSet{}
							e.contentsOf(r.obj, f, first)
							for r2 := range first {
								switch r2.kind {
								case rkLocal:
									if r2.field != noField {
										e.growContents(r2.obj, r2.field, t)
									} else {
										e.growSlot(r2.obj, noField, k, t)
									}
								case rkParam:
									e.growPstore(mkPstoreKey(r2.fn, r2.idx, pstoreLevel(r2.deep, r2.one), r2.field, k.slotT, k.slotF), t)
								}
							}
						default:
							e.growContents(r.obj, f, t)
						}
					case rkParam:
						e.growPstore(mkPstoreKey(r.fn, r.idx, pstoreLevel(k.deep, k.one)+pstoreLevel(r.deep, r.one), f, k.slotT, k.slotF), t)
					}
				}
			}
		}
	}
}

// findWrappers: functions whose every return hands back the same object X - an allocation of theirs (or the result of
// another wrapper) that is otherwise only used to address its fields.
func (e *provEngine) findWrappers() {
	e.wrappers = map[*ssa.Function]ssa.Value{}
	strip := func(v ssa.Value) ssa.Value {
		for {
			switch x := v.(type) {
			case *ssa.MakeInterface:
				v = x.X
			case *ssa.ChangeType:
				v = x.X
			default:
				return v
			}
		}
	}
	var onlyFieldsAndReturn func(v ssa.Value, depth int) bool
	onlyFieldsAndReturn = func(v ssa.Value, depth int) bool {
		refs := v.Referrers()
		if refs == nil || depth > 3 {
			return false
		}
		for _, ref := range *refs {
			switch r := ref.(type) {
			case *ssa.FieldAddr:
				if r.X != v {
					return false
				}
				fr := r.Referrers()
				if fr == nil {
					return false
				}
				for _, u := range *fr {
					st, ok := u.(*ssa.Store)
					if _, isDbg := u.(*ssa.DebugRef); isDbg {
						continue
					}
					if !ok || st.Addr != r || st.Val == v {
						return false
					}
				}
			case *ssa.Return, *ssa.DebugRef:
			case *ssa.MakeInterface:
				if !onlyFieldsAndReturn(r, depth+1) {
					return false
				}
			case *ssa.ChangeType:
				if !onlyFieldsAndReturn(r, depth+1) {
					return false
				}
			default:
				return false
			}
		}
		return true
	}
	for round := 0; round < 4; round++ {
		changed := false
		for _, fn := range e.fns {
			if e.wrappers[fn] != nil || len(fn.Blocks) == 0 || fn.Signature.Results().Len() != 1 || len(fn.FreeVars) > 0 {
				continue
			}
			if _, ok := types.Unalias(fn.Signature.Results().At(0).Type()).Underlying().(*types.Pointer); !ok {
				continue
			}
			var x ssa.Value
			ok := true
			nret := 0
			for _, b := range fn.Blocks {
				for _, in := range b.Instrs {
					ret, isRet := in.(*ssa.Return)
					if !isRet {
						continue
					}
					nret++
					v := strip(ret.Results[0])
					if x == nil {
						x = v
					} else if x != v {
						ok = false
					}
				}
			}
			if !ok || x == nil || nret == 0 {
				continue
			}
			switch a := x.(type) {
			case *ssa.Alloc:
				if !a.Heap {
					continue
				}
			case *ssa.Call:
				w := a.Call.StaticCallee()
				if w == nil || a.Call.IsInvoke() || e.wrappers[w] == nil || w == fn {
					continue
				}
			default:
				continue
			}
			if !onlyFieldsAndReturn(x, 0) {
				continue
			}
			e.wrappers[fn] = x
			changed = true
		}
		if !changed {
			break
		}
	}
}

// wrapperTransfer: what the wrapper stored into its object, in the caller's terms, becomes the contents of the object
// this call stands for.
func (e *provEngine) wrapperTransfer(call *ssa.Call) {
	w := call.Call.StaticCallee()
	if w == nil || call.Call.IsInvoke() {
		return
	}
	x := e.wrappers[w]
	if x == nil {
		return
	}
	keys := append([]int{noField}, e.fields[x]...)
	for _, f := range keys {
		src := e.contents[objField{x, f}]
		if len(src) == 0 {
			continue
		}
		t := rootSet{}
		e.subst(src, call, w, t)
		e.growContents(call, f, t)
	}
}

func (e *provEngine) solve() {
	if e.wrappers == nil {
		e.findWrappers()
	}
	for {
		e.changed = false
		e.reachMemo = nil
		e.deepMemo = nil
		e.Rounds++
		for _, fn := range e.fns {
			for _, b := range fn.Blocks {
				for _, in := range b.Instrs {
					if cl, ok := in.(*ssa.Call); ok && len(e.wrappers) > 0 {
						e.wrapperTransfer(cl)
					}
					if v, ok := in.(ssa.Value); ok {
						s := e.eval(v)
						if len(s) > 0 {
							_, isTuple := v.Type().(*types.Tuple)
							if isTuple || e.pointerful(v.Type()) {
								e.growPts(v, s)
							}
						}
					}
					switch x := in.(type) {
					case *ssa.Store:
						if e.pointerful(x.Val.Type()) {
							if ld, ok := x.Val.(*ssa.UnOp); ok && ld.Op == token.MUL && s45_isStruct(x.Val.Type()) && e.copyFieldwise(e.get(x.Addr), e.get(ld.X)) {
								break
							}
							e.storeEffectAt(x.Addr, e.get(x.Addr), e.get(x.Val))
						}
					case *ssa.MapUpdate:
						if e.pointerful(x.Value.Type()) {
							e.storeEffect(e.get(x.Map), e.get(x.Value))
						}
						if e.pointerful(x.Key.Type()) {
							// keys are kept apart from values in local map objects
							keys := e.get(x.Key)
							local := rootSet{}
							other := rootSet{}
							for r := range e.get(x.Map) {
								if r.kind == rkLocal {
									local.add(r)
								} else {
									other.add(r)
								}
							}
							for r := range local {
								e.growContents(r.obj, keyField, keys)
							}
							for r := range other {
								if r.kind == rkParam && !r.deep && !r.one && r.field == noField {
									// a map handed in as a parameter: remember the keys as keys for the caller's map object
									e.growPstore(mkPstoreKey(r.fn, r.idx, 0, keyField, nil, 0), keys)
								} else {
									e.storeEffect(rootSet{r: {}}, keys)
								}
							}
						}
					case *ssa.Send:
						if e.pointerful(x.X.Type()) {
							e.storeEffect(e.get(x.Chan), e.get(x.X))
						}
					case ssa.CallInstruction:
						e.callEffects(x)
					case *ssa.Return:
						for k, res := range x.Results {
							if k < len(e.ret[fn]) && e.pointerful(res.Type()) {
								if e.ret[fn][k].addAll(e.get(res)) {
									e.changed = true
								}
							}
						}
					}
				}
			}
		}
		if os.Getenv("QVERIF_DEBUG") != "" {
			tp, tc, tps := 0, 0, 0
			for _, s := range e.pts {
				tp += len(s)
			}
			for _, s := range e.contents {
				tc += len(s)
			}
			for _, s := range e.pstore {
				tps += len(s)
			}
			if os.Getenv("QVERIF_DEBUG") == "4" && e.Rounds <= 4 {
				for k, s := range e.contents {
					if in, ok := k.obj.(ssa.Instruction); ok && in.Parent() != nil && (in.Parent().Name() == "count" || in.Parent().Name() == "push" || in.Parent().Name() == "rootEdge") {
						fmt.Fprintf(os.Stderr, "  R%d CNT %s in %s f=%d:\n", e.Rounds, k.obj.String(), in.Parent().Name(), k.field)
						for _, r := range s.sorted(e) {
							fmt.Fprintf(os.Stderr, "      %s\n", e.rootString(r))
						}
					}
				}
				for k, s := range e.pstore {
					if k.fn.Name() == "push" || k.fn.Name() == "pushAll" || k.fn.Name() == "pop" || k.fn.Name() == "register" {
						fmt.Fprintf(os.Stderr, "  R%d PST %s #%d deep=%v one=%v f=%d:\n", e.Rounds, k.fn.Name(), k.idx, k.deep, k.one, k.field)
						for _, r := range s.sorted(e) {
							fmt.Fprintf(os.Stderr, "      %s\n", e.rootString(r))
						}
					}
				}
				for fn, rs := range e.ret {
					if fn.Name() == "pop" || fn.Name() == "register" || fn.Name() == "gradContextOf" {
						for i, s := range rs {
							fmt.Fprintf(os.Stderr, "  R%d RET %s %d:\n", e.Rounds, fn.Name(), i)
							for _, r := range s.sorted(e) {
								fmt.Fprintf(os.Stderr, "      %s\n", e.rootString(r))
							}
						}
					}
				}
			}
			if os.Getenv("QVERIF_DEBUG") == "2" && e.Rounds <= 5 {
				for k, s := range e.pstore {
					if len(s) > 8 {
						fmt.Fprintf(os.Stderr, "  PST %s #%d deep=%v one=%v f=%d -> %d\n", k.fn.String(), k.idx, k.deep, k.one, k.field, len(s))
					}
				}
				for k, s := range e.contents {
					if len(s) > 20 {
						fmt.Fprintf(os.Stderr, "  CNT %s@%s f=%d -> %d\n", k.obj.String(), e.p.Prog.Fset.Position(k.obj.Pos()), k.field, len(s))
					}
				}
			}
			fmt.Fprintf(os.Stderr, "DBG solve round %d changed=%v pts=%d/%d contents=%d/%d pstore=%d/%d %s\n", e.Rounds, e.changed, len(e.pts), tp, len(e.contents), tc, len(e.pstore), tps, time.Now().Format("15:04:05"))
		}
		if !e.changed || e.Rounds > 200 {
			return
		}
	}
}

/* ---------------- public entry points ---------------- */

func s45_isEntryPkg(path string) bool {
	return path == core.PkgTensor || path == core.PkgCPU || strings.HasPrefix(path, core.ModPath+"/component/")
}

// isPublicEntry: an exported function or method of package tensor, cputensor or a component package: callable by a
// library user with arguments the library knows nothing about.
func s45_isPublicEntry(fn *ssa.Function) bool {
	if fn == nil || fn.Parent() != nil {
		return false
	}
	o := fn.Object()
	if o == nil {
		if org := fn.Origin(); org != nil && org != fn {
			return s45_isPublicEntry(org)
		}
		return false
	}
	if !o.Exported() {
		return false
	}
	return s45_isEntryPkg(core.PkgPathOf(fn))
}

/* ---------------- rendering ---------------- */

func s45_shortType(t types.Type) string {
	return types.TypeString(t, func(p *types.Package) string { return p.Name() })
}

func s45_fieldNameOf(fa *ssa.FieldAddr) string {
	t := fa.X.Type()
	if p, ok := types.Unalias(t).Underlying().(*types.Pointer); ok {
		if st, ok := types.Unalias(p.Elem()).Underlying().(*types.Struct); ok && fa.Field < st.NumFields() {
			return st.Field(fa.Field).Name()
		}
	}
	return fmt.Sprintf("#%d", fa.Field)
}

// renderVal prints an SSA value as a short source-like expression.
func s45_renderVal(v ssa.Value, depth int) string {
	if v == nil {
		return "?"
	}
	if depth > 8 {
		return "…"
	}
	switch x := v.(type) {
	case *ssa.Parameter:
		return x.Name()
	case *ssa.FreeVar:
		return x.Name()
	case *ssa.Global:
		return x.Name()
	case *ssa.Const:
		if x.IsNil() {
			return "nil"
		}
		return x.Value.String()
	case *ssa.Function:
		return x.Name()
	case *ssa.Alloc:
		switch x.Comment {
		case "", "new":
			return "new(" + s45_shortType(x.Type().(*types.Pointer).Elem()) + ")"
		case "complit":
			return "&" + s45_shortType(x.Type().(*types.Pointer).Elem()) + "{…}"
		case "slicelit", "varargs", "makeslice":
			return s45_shortType(x.Type().(*types.Pointer).Elem()) + "{…}"
		}
		return x.Comment
	case *ssa.MakeSlice:
		return "make(" + s45_shortType(x.Type()) + ")"
	case *ssa.MakeMap:
		return "make(" + s45_shortType(x.Type()) + ")"
	case *ssa.FieldAddr:
		return "&" + strings.TrimPrefix(s45_renderVal(x.X, depth+1), "&") + "." + s45_fieldNameOf(x)
	case *ssa.Field:
		return s45_renderVal(x.X, depth+1) + fmt.Sprintf(".#%d", x.Field)
	case *ssa.IndexAddr:
		return "&" + strings.TrimPrefix(s45_renderVal(x.X, depth+1), "&") + "[" + s45_renderIndex(x.Index) + "]"
	case *ssa.Index:
		return s45_renderVal(x.X, depth+1) + "[" + s45_renderIndex(x.Index) + "]"
	case *ssa.Lookup:
		return s45_renderVal(x.X, depth+1) + "[" + s45_renderIndex(x.Index) + "]"
	case *ssa.UnOp:
		if x.Op == token.MUL {
			s := s45_renderVal(x.X, depth+1)
			if strings.HasPrefix(s, "&") {
				return s[1:]
			}
			switch x.X.(type) {
			case *ssa.Alloc, *ssa.FreeVar, *ssa.Global:
				return s // a variable read
			}
			return "*" + s
		}
		return x.Op.String() + s45_renderVal(x.X, depth+1)
	case *ssa.BinOp:
		return s45_renderVal(x.X, depth+1) + x.Op.String() + s45_renderVal(x.Y, depth+1)
	case *ssa.Slice:
		return strings.TrimPrefix(s45_renderVal(x.X, depth+1), "&") + "[:]"
	case *ssa.MakeInterface:
		return s45_renderVal(x.X, depth+1)
	case *ssa.ChangeType:
		return s45_renderVal(x.X, depth+1)
	case *ssa.ChangeInterface:
		return s45_renderVal(x.X, depth+1)
	case *ssa.Convert:
		return s45_renderVal(x.X, depth+1)
	case *ssa.TypeAssert:
		return s45_renderVal(x.X, depth+1) + ".(" + s45_shortType(x.AssertedType) + ")"
	case *ssa.Extract:
		return s45_renderVal(x.Tuple, depth+1) + fmt.Sprintf("#%d", x.Index)
	case *ssa.Call:
		c := x.Call
		if c.IsInvoke() {
			return s45_renderVal(c.Value, depth+1) + "." + c.Method.Name() + "(…)"
		}
		if b, ok := c.Value.(*ssa.Builtin); ok {
			return b.Name() + "(" + s45_renderVal(c.Args[0], depth+1) + ",…)"
		}
		if f := c.StaticCallee(); f != nil {
			return f.Name() + "(…)"
		}
		return s45_renderVal(c.Value, depth+1) + "(…)"
	case *ssa.Phi:
		var parts []string
		seen := map[string]bool{}
		for _, ed := range x.Edges {
			s := s45_renderVal(ed, depth+3)
			if !seen[s] && len(parts) < 3 {
				seen[s] = true
				parts = append(parts, s)
			}
		}
		if x.Comment != "" {
			return x.Comment + "=φ(" + strings.Join(parts, "|") + ")"
		}
		return "φ(" + strings.Join(parts, "|") + ")"
	case *ssa.MakeClosure:
		return "func " + x.Fn.Name()
	}
	return v.Name()
}

func s45_renderIndex(v ssa.Value) string {
	switch x := v.(type) {
	case *ssa.Const:
		return s45_renderVal(x, 0)
	case *ssa.Parameter:
		return x.Name()
	}
	return "i"
}

func s45_clip(s string, n int) string {
	r := []rune(s)
	if len(r) <= n {
		return s
	}
	return string(r[:n-1]) + "…"
}

func s45_paramName(fn *ssa.Function, i int) string {
	if i >= 0 && i < len(fn.Params) {
		return fn.Params[i].Name()
	}
	return fmt.Sprintf("#%d", i)
}

func (e *provEngine) posOfValue(v ssa.Value) string {
	if in, ok := v.(ssa.Instruction); ok && in.Pos().IsValid() {
		return e.p.Pos(in.Pos())
	}
	if v.Pos().IsValid() {
		return e.p.Pos(v.Pos())
	}
	return "-"
}

func s45_fieldLabel(t types.Type, f int) string {
	if f == noField {
		return ""
	}
	if f == keyField {
		return ".keys"
	}
	if p, ok := types.Unalias(t).Underlying().(*types.Pointer); ok {
		t = p.Elem()
	}
	if st, ok := types.Unalias(t).Underlying().(*types.Struct); ok && f < st.NumFields() {
		return "." + st.Field(f).Name()
	}
	return fmt.Sprintf(".#%d", f)
}

func (e *provEngine) rootString(r pRoot) string {
	switch r.kind {
	case rkLocal:
		fn := "?"
		if r.obj.Parent() != nil {
			fn = core.FuncKey(r.obj.Parent())
		}
		return fmt.Sprintf("local %s%s allocated in %s (%s)", s45_clip(s45_renderVal(r.obj, 0), 40), s45_fieldLabel(r.obj.Type(), r.field), fn, e.posOfValue(r.obj))
	case rkParam:
		fl := ""
		if r.idx >= 0 && r.idx < len(r.fn.Params) {
			fl = s45_fieldLabel(r.fn.Params[r.idx].Type(), r.field)
		}
		s := fmt.Sprintf("parameter %s%s of %s", s45_paramName(r.fn, r.idx), fl, core.FuncKey(r.fn))
		if r.deep {
			s = "memory loaded from " + s
		} else if r.one {
			s = "the memory " + s + " points to"
		}
		return s
	case rkGlobal:
		s := "package variable " + r.obj.Name()
		if r.deep || r.one {
			s = "memory loaded from " + s
		}
		return s
	}
	return fmt.Sprintf("unmodelled value %s (%s)", s45_clip(s45_renderVal(r.obj, 0), 40), e.posOfValue(r.obj))
}

// callersOfFn returns the call sites that may call fn, in a stable order.
func (e *provEngine) callersOfFn(fn *ssa.Function) []callerSite {
	return e.callers[fn]
}

// isWrapper: go/ssa's synthetic forwarding functions (method-expression thunks, bound-method closures, interface
// method wrappers) - not package initialisers or generic instances.
func isWrapper(fn *ssa.Function) bool {
	return strings.HasPrefix(fn.Synthetic, "thunk for") || strings.HasPrefix(fn.Synthetic, "bound method wrapper") || strings.HasPrefix(fn.Synthetic, "wrapper for")
}

func s45_isStruct(t types.Type) bool {
	_, ok := types.Unalias(t).Underlying().(*types.Struct)
	return ok
}

// copyFieldwise models `*dst = *src` for struct-typed memory (also element-wise for arrays of structs): what each
// field of the source objects holds flows into the same field of the destination objects.  It reports false (and
// does nothing) when a root is not a plain local object, so that the caller falls back to the merged transfer.
func (e *provEngine) copyFieldwise(dst, src rootSet) bool {
	for r := range dst {
		if r.kind != rkLocal || r.field != noField {
			return false
		}
	}
	for r := range src {
		if r.kind != rkLocal || r.field != noField {
			return false
		}
	}
	for s := range src {
		keys := append([]int{noField}, e.fields[s.obj]...)
		for _, f := range keys {
			vals := e.contents[objField{s.obj, f}]
			if len(vals) == 0 {
				continue
			}
			for d := range dst {
				e.growContents(d.obj, f, vals)
			}
		}
	}
	return true
}
