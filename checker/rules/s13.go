package rules

import (
	"fmt"
	"go/types"
	"strings"

	"golang.org/x/tools/go/ssa"

	"qverif/core"
	"qverif/spec"
)

// S13TensorRetention: outside constructors, no function of the component packages (layers, activations,
// losses, metrics, optimizers, initializers) parks a tensor in state that outlives the call - a field of
// its receiver, a map or slice reachable from it, or a package variable.  Components are functions of their
// inputs and of the parameters the caller can see through Weights(); a tensor remembered from one call and
// handed out (or used) in the next couples calls that the specification treats as independent: two
// parameters initialised by one initializer become one object, a cached operand carries the tracking
// state of an earlier step into the next one.
//
// The one sanctioned store is the optimizer's: through the pointer the caller passed in (the parameter
// itself is the address).
func S13TensorRetention(p *core.Program, a *spec.Anchors, r *core.Report) {
	r.Rule("S13.retain-tensor: in the component packages, only constructors (New*) and the functions reachable only from them store a value whose type contains a Tensor into memory that outlives the call (receiver fields, maps/slices reachable from parameters, package variables); the optimizer's store through the caller's *Tensor parameter is the sanctioned exception")
	pkgs := []string{core.PkgLayers, core.PkgActs, core.PkgLosses, core.PkgMetrics, core.PkgOptimizers, core.PkgInits}
	isTensorish := func(t types.Type) bool { return containsTensor(t, a, 0) }
	nStores, nFns := 0, 0
	// functions that are constructors, or closures/static callees used only by constructors
	ctorOnly := map[*ssa.Function]bool{}
	fns := p.ModuleFunctions(pkgs...)
	for _, fn := range fns {
		if fn.Signature.Recv() == nil && fn.Parent() == nil && strings.HasPrefix(fn.Name(), "New") {
			ctorOnly[fn] = true
		}
	}
	g := p.CHA()
	for changed := true; changed; {
		changed = false
		for _, fn := range fns {
			if ctorOnly[fn] {
				continue
			}
			if par := fn.Parent(); par != nil && ctorOnly[par] {
				ctorOnly[fn], changed = true, true
				continue
			}
			node := g.Nodes[fn]
			if node == nil || len(node.In) == 0 || fn.Object() == nil || fn.Object().Exported() {
				continue
			}
			all := true
			for _, e := range node.In {
				if !ctorOnly[e.Caller.Func] {
					all = false
				}
			}
			if all {
				ctorOnly[fn], changed = true, true
			}
		}
	}
	for _, fn := range fns {
		if ctorOnly[fn] {
			continue
		}
		nFns++
		key := core.FuncKey(fn)
		for _, b := range fn.Blocks {
			for _, in := range b.Instrs {
				var target ssa.Value
				var val ssa.Value
				switch x := in.(type) {
				case *ssa.Store:
					target, val = x.Addr, x.Val
				case *ssa.MapUpdate:
					target, val = x.Map, x.Value
				default:
					continue
				}
				if !isTensorish(val.Type()) {
					continue
				}
				if c, ok := val.(*ssa.Const); ok && c.IsNil() {
					continue
				}
				root, direct := addrRoot(target)
				switch rt := root.(type) {
				case *ssa.Alloc, *ssa.MakeMap, *ssa.MakeSlice:
					_ = rt
					continue // local memory (escape of the local itself is a separate store)
				case *ssa.Parameter:
					if direct && fn.Signature.Recv() != nil && paramIndex(fn, rt) > 0 {
						nStores++
						r.Pass("S13.retain-tensor", key, "through-parameter:"+rt.Name(), p.Pos(in.Pos()), "stores through the pointer the caller passed in")
						continue
					}
				}
				nStores++
				r.Violate("S13.retain-tensor", key, "stores:"+describeRoot(root), p.Pos(in.Pos()),
					fmt.Sprintf("stores a tensor into state that outlives the call (%s): a later call can hand out or use the remembered tensor, so calls the specification treats as independent share an object and its tracking state", describeRoot(root)),
					"two parameters initialised through one object are one tensor with one gradient; a cached operand carries a spent or untracked context into the next step")
			}
		}
	}
	r.Count("S13.functions_scanned", nFns)
	r.Count("S13.tensor_stores", nStores)
	r.Min("S13.functions_scanned", 12)
	r.Min("S13.tensor_stores", 1)
}

func containsTensor(t types.Type, a *spec.Anchors, depth int) bool {
	if depth > 6 {
		return false
	}
	if types.Identical(t, a.TensorIface) || types.Identical(t, a.CPUPtr) {
		return true
	}
	if n, ok := t.(*types.Named); ok && n.Obj().Pkg() != nil && n.Obj().Pkg().Path() == core.PkgTensor && n.Obj().Name() == "Tensor" {
		return true
	}
	if al, ok := t.(*types.Alias); ok {
		return containsTensor(types.Unalias(al), a, depth+1)
	}
	switch u := t.Underlying().(type) {
	case *types.Pointer:
		return containsTensor(u.Elem(), a, depth+1)
	case *types.Slice:
		return containsTensor(u.Elem(), a, depth+1)
	case *types.Array:
		return containsTensor(u.Elem(), a, depth+1)
	case *types.Map:
		return containsTensor(u.Elem(), a, depth+1) || containsTensor(u.Key(), a, depth+1)
	case *types.Struct:
		for i := 0; i < u.NumFields(); i++ {
			if containsTensor(u.Field(i).Type(), a, depth+1) {
				return true
			}
		}
	case *types.Interface:
		if it, ok := a.TensorIface.Underlying().(*types.Interface); ok && u.NumMethods() > 0 && types.Identical(u, it) {
			return true
		}
	}
	return false
}

// addrRoot follows field/index address chains (and loads of pointers held in memory) to where the address
// comes from; direct is true when the address is the root itself.
func addrRoot(v ssa.Value) (root ssa.Value, direct bool) {
	direct = true
	for i := 0; i < 40; i++ {
		switch x := v.(type) {
		case *ssa.FieldAddr:
			v, direct = x.X, false
		case *ssa.IndexAddr:
			v, direct = x.X, false
		case *ssa.ChangeType:
			v = x.X
		case *ssa.Slice:
			v, direct = x.X, false
		case *ssa.UnOp:
			// a pointer/map/slice loaded from memory: rooted where that memory is rooted
			r, _ := addrRoot(x.X)
			if al, ok := r.(*ssa.Alloc); ok && !al.Heap {
				// a local variable holding a reference: look at what was stored in it
				for _, ref := range *al.Referrers() {
					if st, ok := ref.(*ssa.Store); ok && st.Addr == al {
						rr, _ := addrRoot(st.Val)
						if _, loc := rr.(*ssa.Alloc); !loc {
							return rr, false
						}
					}
				}
			}
			return r, false
		case *ssa.Phi:
			for _, e := range x.Edges {
				r, _ := addrRoot(e)
				switch r.(type) {
				case *ssa.Alloc, *ssa.MakeMap, *ssa.MakeSlice:
				default:
					return r, false
				}
			}
			return x.Edges[0], false
		default:
			return v, direct
		}
	}
	return v, false
}

func describeRoot(v ssa.Value) string {
	switch x := v.(type) {
	case *ssa.Parameter:
		return "reached from parameter " + x.Name()
	case *ssa.Global:
		return "package variable " + x.Name()
	case *ssa.FreeVar:
		return "captured variable " + x.Name()
	case *ssa.Call:
		return "memory returned by a call"
	}
	return fmt.Sprintf("%T", v)
}
