package rules

import (
	_ "embed"
	"fmt"
	"go/types"
	"os"
	"path/filepath"
	"sort"
	"strings"

	"golang.org/x/tools/go/packages"
	"golang.org/x/tools/go/ssa"
	"golang.org/x/tools/go/ssa/ssautil"

	"qverif/core"
	"qverif/spec"
)

// S16LockPairing: every lock taken by library code is released on every path to a return of the function that took
// it - by an Unlock on the path or by a deferred Unlock that every such path has registered.  A public call that
// returns with a lock held makes the NEXT call on the same lock hang (C09: "never a panic or a hang"), and a forward
// computation that other goroutines then wait for forever (C20).
//
// The lock is identified by a key (package variable, or struct type + field for a mutex kept in an object, or the
// local variable); helper functions that return with a lock held / release a lock they did not take are summarised
// (acquirer / releaser) and the obligation moves to their callers; it is reported where no module function calls the
// holder any more (exported functions, closures, goroutine bodies).
//
// Today's tree takes no lock at all, so the rule is exercised on every run against an embedded example with correct
// and broken functions; if that example is not classified exactly, the rule reports itself broken.
func S16LockPairing(p *core.Program, a *spec.Anchors, r *core.Report) {
	r.Rule("S16 (lock pairing): on every path from a Lock / RLock (sync.Mutex, sync.RWMutex, sync.Locker) to a return of the same function the matching Unlock / RUnlock is called or has been deferred; helpers that acquire or release on behalf of their callers are summarised and the obligation is checked at the callers")
	if err := s16SelfTest(); err != nil {
		r.Undecide("S16.selftest", "rules.S16LockPairing", "broken", "", "the lock-pairing rule does not classify its embedded example as expected: "+err.Error())
		return
	}
	r.Pass("S16.selftest", "rules.S16LockPairing", "", "", "embedded example: 1 correct function passes, 4 broken ones (missing unlock on an early return, helper that leaves the lock held, deferred unlock registered after the early return, two locks of the same kind nested without an order) are reported")
	fns := p.ModuleFunctions()
	res := s16Analyse(fns, func(f *ssa.Function) bool { return core.InModule(f) })
	r.Count("S16.lock_sites", res.sites)
	r.Count("S16.functions_scanned", len(fns))
	r.Min("S16.functions_scanned", 100)
	for _, v := range res.violations {
		if k, isNested := strings.CutPrefix(v.key, "nested:"); isNested {
			r.Violate("S16.lock", core.FuncKey(v.fn), "nested-same-kind:"+k, p.Pos(v.fn.Pos()),
				fmt.Sprintf("%s takes %s while it may already hold a lock of that same kind (on another object, or the same): without a global order two calls with the operands swapped deadlock", v.fn.String(), k),
				"a.Op(b) on one goroutine, b.Op(a) on another")
			continue
		}
		r.Violate("S16.lock", core.FuncKey(v.fn), "held-at-return:"+v.key, p.Pos(v.fn.Pos()),
			fmt.Sprintf("%s can return while still holding %s (a path from the Lock to a return without Unlock and without a deferred Unlock registered on that path): the next call that takes this lock blocks forever", v.fn.String(), v.key),
			"call it once on the path that skips the unlock, then call anything that takes the same lock")
	}
	for _, fn := range res.clean {
		r.Pass("S16.lock", core.FuncKey(fn), "", p.Pos(fn.Pos()), "every lock taken here is released or handed to a caller that releases it")
	}
}

type s16Violation struct {
	fn  *ssa.Function
	key string
}

type s16Result struct {
	sites      int
	violations []s16Violation
	clean      []*ssa.Function
}

type s16Event struct {
	kind int // 1 lock, 2 unlock, 3 defer-unlock, 4 call (summarised)
	key  string
	fn   *ssa.Function
}

// s16Key names the lock a Lock/Unlock call operates on.
func s16Key(fn *ssa.Function, v ssa.Value, suffix string) string {
	for {
		switch x := v.(type) {
		case *ssa.Global:
			return "package variable " + x.Pkg.Pkg.Path() + "." + x.Name() + suffix
		case *ssa.FieldAddr:
			if pt, ok := types.Unalias(x.X.Type()).Underlying().(*types.Pointer); ok {
				if st, ok := pt.Elem().Underlying().(*types.Struct); ok {
					return "field " + types.TypeString(pt.Elem(), nil) + "." + st.Field(x.Field).Name() + suffix
				}
			}
			v = x.X
			continue
		case *ssa.UnOp:
			v = x.X
			continue
		case *ssa.MakeInterface:
			v = x.X
			continue
		case *ssa.ChangeInterface:
			v = x.X
			continue
		case *ssa.FreeVar:
			return "captured variable " + x.Name() + suffix
		case *ssa.Alloc:
			owner := ""
			if x.Parent() != nil {
				owner = x.Parent().String()
			}
			return "local " + x.Comment + " of " + owner + suffix
		case *ssa.Parameter:
			return "parameter " + x.Name() + " of " + x.Parent().String() + suffix
		}
		return fmt.Sprintf("lock %s in %s%s", v.Name(), fn.String(), suffix)
	}
}

// s16Classify: is the call a lock operation?  Returns (kind, key): kind 1 lock, 2 unlock.
func s16Classify(fn *ssa.Function, c *ssa.CallCommon) (int, string) {
	name := ""
	var recv ssa.Value
	if c.IsInvoke() {
		// sync.Locker or any interface with Lock/Unlock
		name = c.Method.Name()
		recv = c.Value
		if name != "Lock" && name != "Unlock" && name != "RLock" && name != "RUnlock" {
			return 0, ""
		}
		if it, ok := types.Unalias(c.Value.Type()).Underlying().(*types.Interface); !ok || it.NumMethods() > 4 {
			return 0, ""
		}
	} else {
		callee := c.StaticCallee()
		if callee == nil || callee.Pkg == nil || callee.Pkg.Pkg.Path() != "sync" || callee.Signature.Recv() == nil || len(c.Args) == 0 {
			return 0, ""
		}
		rt := callee.Signature.Recv().Type().String()
		if rt != "*sync.Mutex" && rt != "*sync.RWMutex" {
			return 0, ""
		}
		name = callee.Name()
		recv = c.Args[0]
	}
	suffix := ""
	if name == "RLock" || name == "RUnlock" {
		suffix = " (read side)"
	}
	switch name {
	case "Lock", "RLock":
		return 1, s16Key(fn, recv, suffix)
	case "Unlock", "RUnlock":
		return 2, s16Key(fn, recv, suffix)
	}
	return 0, ""
}

type s16Summary struct {
	acquires map[string]bool // may return holding
	releases map[string]bool // unlocks a lock it does not hold
}

func s16Analyse(fns []*ssa.Function, inScope func(*ssa.Function) bool) s16Result {
	var res s16Result
	sum := map[*ssa.Function]*s16Summary{}
	for _, fn := range fns {
		sum[fn] = &s16Summary{acquires: map[string]bool{}, releases: map[string]bool{}}
	}
	called := map[*ssa.Function]bool{} // has a static caller among fns
	for _, fn := range fns {
		for _, b := range fn.Blocks {
			for _, in := range b.Instrs {
				if ci, ok := in.(ssa.CallInstruction); ok {
					if _, isGo := in.(*ssa.Go); isGo {
						continue
					}
					if callee := ci.Common().StaticCallee(); callee != nil && sum[callee] != nil {
						if _, isDefer := in.(*ssa.Defer); !isDefer {
							called[callee] = true
						}
					}
				}
			}
		}
	}
	hasLock := map[*ssa.Function]bool{}
	nested := map[*ssa.Function]string{}
	analyse := func(fn *ssa.Function) (acq, rel map[string]bool) {
		acq, rel = map[string]bool{}, map[string]bool{}
		if len(fn.Blocks) == 0 {
			return
		}
		// forward dataflow: held = may-held (union), deferred = must-deferred (intersection)
		type st struct {
			held     map[string]bool
			deferred map[string]bool
			set      bool
		}
		in := make([]st, len(fn.Blocks))
		in[0] = st{held: map[string]bool{}, deferred: map[string]bool{}, set: true}
		work := []int{0}
		copyM := func(m map[string]bool) map[string]bool {
			o := map[string]bool{}
			for k := range m {
				o[k] = true
			}
			return o
		}
		for iter := 0; len(work) > 0 && iter < 10000; iter++ {
			bi := work[0]
			work = work[1:]
			b := fn.Blocks[bi]
			held, def := copyM(in[bi].held), copyM(in[bi].deferred)
			for _, ins := range b.Instrs {
				switch x := ins.(type) {
				case *ssa.Defer:
					if k, key := s16Classify(fn, x.Common()); k == 2 {
						def[key] = true
					} else if callee := x.Common().StaticCallee(); callee != nil && sum[callee] != nil {
						for key := range sum[callee].releases {
							def[key] = true
						}
					} else if cl, ok := x.Common().Value.(*ssa.Call); ok && cl.Call.StaticCallee() != nil && sum[cl.Call.StaticCallee()] != nil {
						// `defer c.lock()()`: the helper takes the lock and returns the function that releases it
						for key := range sum[cl.Call.StaticCallee()].acquires {
							def[key] = true
						}
					} else if mc, ok := x.Common().Value.(*ssa.MakeClosure); ok {
						if cf, ok := mc.Fn.(*ssa.Function); ok && sum[cf] != nil {
							for key := range sum[cf].releases {
								def[key] = true
							}
						}
					}
				case *ssa.Go:
				case ssa.CallInstruction:
					k, key := s16Classify(fn, x.Common())
					switch k {
					case 1:
						hasLock[fn] = true
						if held[key] && strings.HasPrefix(key, "field ") {
							// a second lock of the same kind (the same mutex field of the same type, on another object - or on
							// the same one) taken while one is held: two callers that take them in opposite order wait for each
							// other forever, and taking the same one twice blocks at once
							nested[fn] = key
						}
						held[key] = true
					case 2:
						if !held[key] {
							rel[key] = true
						}
						delete(held, key)
					default:
						if callee := x.Common().StaticCallee(); callee != nil && sum[callee] != nil {
							for key := range sum[callee].releases {
								if !held[key] {
									rel[key] = true
								}
								delete(held, key)
							}
							for key := range sum[callee].acquires {
								held[key] = true
							}
						}
					}
				case *ssa.Return:
					for key := range held {
						if !def[key] {
							acq[key] = true
						}
					}
				}
			}
			for _, s := range b.Succs {
				si := s.Index
				if !in[si].set {
					in[si] = st{held: copyM(held), deferred: copyM(def), set: true}
					work = append(work, si)
					continue
				}
				ch := false
				for k := range held {
					if !in[si].held[k] {
						in[si].held[k] = true
						ch = true
					}
				}
				for k := range in[si].deferred {
					if !def[k] {
						delete(in[si].deferred, k)
						ch = true
					}
				}
				if ch {
					work = append(work, si)
				}
			}
		}
		// a lock released by a deferred call is not "released without holding" for the callers
		return
	}
	for round := 0; round < 8; round++ {
		changed := false
		for _, fn := range fns {
			acq, rel := analyse(fn)
			s := sum[fn]
			for k := range acq {
				if !s.acquires[k] {
					s.acquires[k] = true
					changed = true
				}
			}
			for k := range rel {
				if !s.releases[k] {
					s.releases[k] = true
					changed = true
				}
			}
		}
		if !changed {
			break
		}
	}
	for _, fn := range fns {
		if hasLock[fn] {
			res.sites++
		}
		s := sum[fn]
		if len(s.acquires) == 0 {
			if hasLock[fn] {
				res.clean = append(res.clean, fn)
			}
			continue
		}
		// the obligation moves to the callers of an unexported helper; it is reported where it can move no further
		exported := fn.Object() != nil && fn.Object().Exported() && fn.Parent() == nil
		if called[fn] && !exported {
			continue
		}
		keys := make([]string, 0, len(s.acquires))
		for k := range s.acquires {
			keys = append(keys, k)
		}
		sort.Strings(keys)
		for _, k := range keys {
			res.violations = append(res.violations, s16Violation{fn, k})
		}
	}
	for fn, key := range nested {
		res.violations = append(res.violations, s16Violation{fn, "nested:" + key})
	}
	sort.Slice(res.violations, func(i, j int) bool {
		if res.violations[i].fn.String() != res.violations[j].fn.String() {
			return res.violations[i].fn.String() < res.violations[j].fn.String()
		}
		return res.violations[i].key < res.violations[j].key
	})
	return res
}

//go:embed s16_example.go.txt
var s16Example string

var s16SelfTestErr error
var s16SelfTestDone bool

// s16SelfTest type-checks and builds the embedded example and demands exactly the expected classification.
func s16SelfTest() error {
	if s16SelfTestDone {
		return s16SelfTestErr
	}
	s16SelfTestDone = true
	s16SelfTestErr = func() error {
		dir, err := os.MkdirTemp("", "qverif-s16-")
		if err != nil {
			return err
		}
		defer os.RemoveAll(dir)
		if err := os.WriteFile(filepath.Join(dir, "go.mod"), []byte("module lockpairdemo\n\ngo 1.22\n"), 0o644); err != nil {
			return err
		}
		if err := os.WriteFile(filepath.Join(dir, "demo.go"), []byte(s16Example), 0o644); err != nil {
			return err
		}
		cfg := &packages.Config{Mode: packages.LoadAllSyntax, Dir: dir,
			Env: append(os.Environ(), "GOFLAGS=-mod=mod", "GOPROXY=off", "GOSUMDB=off", "GOWORK=off", "GOTOOLCHAIN=local")}
		pkgs, err := packages.Load(cfg, ".")
		if err != nil {
			return err
		}
		if len(pkgs) != 1 || len(pkgs[0].Errors) > 0 {
			return fmt.Errorf("example does not load: %v", pkgs)
		}
		prog, spkgs := ssautil.AllPackages(pkgs, ssa.InstantiateGenerics)
		prog.Build()
		var fns []*ssa.Function
		for f := range ssautil.AllFunctions(prog) {
			if f.Pkg != nil && f.Pkg == spkgs[0] && f.Blocks != nil {
				fns = append(fns, f)
			}
		}
		sort.Slice(fns, func(i, j int) bool { return fns[i].String() < fns[j].String() })
		res := s16Analyse(fns, func(*ssa.Function) bool { return true })
		var got []string
		for _, v := range res.violations {
			got = append(got, v.fn.Name())
		}
		sort.Strings(got)
		want := "DeferTooLate,EarlyReturn,Swap,ViaHelper"
		if strings.Join(got, ",") != want {
			return fmt.Errorf("reported %v, expected %s", got, want)
		}
		return nil
	}()
	return s16SelfTestErr
}
