package rules

import (
	"fmt"
	"go/constant"
	"go/token"
	"sort"
	"strings"

	"golang.org/x/tools/go/ssa"

	"qverif/core"
	"qverif/spec"
)

// S2Walk checks the structure of the back-propagation walk (DESIGN.md §3.1 S2) and S1(d).
func S2Walk(p *core.Program, a *spec.Anchors, r *core.Report) {
	r.Rule("S2a: call-graph cycles reachable from BackPropagate are examined for a guarding branch on state written inside the cycle (visited mark / pending counter); when the guard is not in the recursive function itself the clause rests on the interpreted templates (C01.bounded: at most one rule application per edge)")
	r.Rule("S2b: every store to GradContext.gradient either happens under a dominating `old == nil` test or stores old.Add(incoming)/incoming.Add(old)")
	r.Rule("S2c: in the function that applies backwardEdge.gradFn the store `bpdirty = true` dominates the application; a dominating test of `tracked` is recorded when present (when the filter sits elsewhere, e.g. in a schedule builder, the clause rests on the interpreted templates: no untracked tensor receives a gradient or is marked spent)")
	r.Rule("S2d: the walk never sub-slices backEdges")
	r.Rule("S1d: Tensor.Gradient is not read at graph-construction time: no function reachable by direct calls from an exported function or method other than BackPropagate reads it (backward rules are function values, entered only when the walk calls them)")

	pub := p.Func(core.PkgTensor, "BackPropagate")
	if pub == nil {
		r.Undecide("S2", "tensor.BackPropagate", "anchor", "", "public BackPropagate not found")
		return
	}
	g := p.VTA()
	reach := reachableInModule(g, pub)
	walk := map[*ssa.Function]bool{}
	for fn := range reach {
		if core.PkgPathOf(fn) == core.PkgGrad {
			walk[fn] = true
			r.Func(core.FuncKey(fn))
		}
	}
	// E: applications of backwardEdge.gradFn
	type site struct {
		fn   *ssa.Function
		call *ssa.Call
	}
	var esites []site
	for fn := range walk {
		for _, b := range fn.Blocks {
			for _, in := range b.Instrs {
				c, ok := in.(*ssa.Call)
				if !ok || c.Call.IsInvoke() {
					continue
				}
				fr, ok := loadOfField(stripChange(c.Call.Value))
				if ok && sameNamed(fr.Struct, a.BackEdge) && fr.Index == a.EGradFn {
					esites = append(esites, site{fn, c})
				}
			}
		}
	}
	r.Count("S2.gradfn_application_sites", len(esites))
	r.Min("S2.gradfn_application_sites", 1)

	/* ---- S2a ---- */
	comps := sccs(g, walk)
	cyc := 0
	for _, comp := range comps {
		inComp := map[*ssa.Function]bool{}
		for _, f := range comp {
			inComp[f] = true
		}
		selfLoop := false
		if len(comp) == 1 {
			for _, e := range moduleCallees(g, comp[0]) {
				if e.Callee.Func == comp[0] {
					selfLoop = true
				}
			}
			if !selfLoop {
				continue
			}
		}
		// gradFn closures are reached through the E-sites; a cycle through them is not a walk recursion
		onlyClosures := true
		for _, f := range comp {
			if f.Parent() == nil || !isGradFnClosure(f) {
				onlyClosures = false
			}
		}
		if onlyClosures {
			continue
		}
		cyc++
		// W: state written by the cycle's functions and everything they call inside the module
		wFields := map[string]bool{}
		body := map[*ssa.Function]bool{}
		for _, f := range comp {
			for fn := range reachableInModule(g, f) {
				if core.PkgPathOf(fn) == core.PkgGrad && !isGradFnClosure(fn) {
					body[fn] = true
				}
			}
		}
		for fn := range body {
			for _, b := range fn.Blocks {
				for _, in := range b.Instrs {
					if st, ok := in.(*ssa.Store); ok {
						if fr, ok := asFieldAddr(st.Addr); ok {
							wFields[fr.Struct.Obj().Name()+"."+fr.Name] = true
						}
					}
				}
			}
		}
		names := make([]string, 0, len(comp))
		for _, f := range comp {
			names = append(names, core.FuncKey(f))
		}
		sort.Strings(names)
		ckey := strings.Join(names, "+")
		for _, f := range comp {
			for _, b := range f.Blocks {
				for _, in := range b.Instrs {
					c, ok := in.(*ssa.Call)
					if !ok {
						continue
					}
					callee := c.Call.StaticCallee()
					recursive := callee != nil && inComp[callee]
					if !recursive && callee == nil && !c.Call.IsInvoke() {
						// closure-valued recursion (e.g. a local `visit` func variable)
						for _, e := range g.Nodes[f].Out {
							if e.Site == c && inComp[e.Callee.Func] {
								recursive = true
							}
						}
					}
					if !recursive {
						continue
					}
					ok2, what := guardedByCycleState(f, c, wFields)
					if ok2 {
						r.Pass("S2a", ckey, "", p.Pos(c.Pos()), "recursive call guarded by "+what)
					} else {
						// the guard may live in a helper method (a counter object with arrive()/done()): its absence in this
						// function is not a violation by itself.  The behaviour - every backward rule applied at most once
						// per edge, values equal to the total derivative - is decided by the interpreted templates
						// (C01.bounded / C01.total on diamonds, ladders, fan-outs), which every property relying on this
						// clause runs.
						r.Note("S2a", ckey, "unguarded-recursion", p.Pos(c.Pos()),
							fmt.Sprintf("recursive walk call in %s has no guard on cycle-written state in the same function (fields written in the cycle: %s); the clause rests on C01.bounded / C01.total over the reconverging templates", core.FuncKey(f), keysOf(wFields)))
					}
				}
			}
		}
	}
	r.Count("S2.walk_cycles", cyc)

	/* ---- S2b ---- */
	nStores := 0
	for _, fn := range p.ModuleFunctions() {
		for _, b := range fn.Blocks {
			for _, in := range b.Instrs {
				st, ok := in.(*ssa.Store)
				if !ok {
					continue
				}
				fr, ok := asFieldAddr(st.Addr)
				if !ok || !sameNamed(fr.Struct, a.GradContext) || fr.Index != a.GGradient {
					continue
				}
				nStores++
				key := core.FuncKey(fn)
				if c, isC := st.Val.(*ssa.Const); isC && c.IsNil() {
					r.Pass("S2b", key, "", p.Pos(st.Pos()), "stores nil (reset)")
					continue
				}
				if accumulates(st, a) {
					r.Pass("S2b", key, "", p.Pos(st.Pos()), "stores old.Add(incoming)")
					continue
				}
				if underNilTest(st, a) {
					r.Pass("S2b", key, "", p.Pos(st.Pos()), "first assignment under a dominating `gradient == nil` test")
					continue
				}
				r.Violate("S2b", key, "overwrite", p.Pos(st.Pos()),
					"store to GradContext.gradient that neither adds to the previous value nor is guarded by a nil test: contributions of other consumers / earlier back-propagations are lost", "two consumers of one tensor: the second contribution replaces the first")
			}
		}
	}
	r.Count("S2.gradient_stores", nStores)
	r.Min("S2.gradient_stores", 1)

	/* ---- S2c ---- */
	for _, s := range esites {
		key := core.FuncKey(s.fn)
		trackedOK, dirtyOK := false, false
		for _, b := range s.fn.Blocks {
			for _, in := range b.Instrs {
				switch x := in.(type) {
				case *ssa.If:
					if !instrDominates(x, s.call) {
						continue
					}
					if derivesFrom(x.Cond, func(v ssa.Value) bool {
						fr, ok := loadOfField(v)
						return ok && sameNamed(fr.Struct, a.GradContext) && fr.Index == a.GTracked
					}) {
						trackedOK = true
					}
				case *ssa.Store:
					fr, ok := asFieldAddr(x.Addr)
					if !ok || !sameNamed(fr.Struct, a.GradContext) || fr.Index != a.GDirty {
						continue
					}
					if c, isC := x.Val.(*ssa.Const); isC && c.Value != nil && c.Value.Kind() == constant.Bool && constant.BoolVal(c.Value) && instrDominates(x, s.call) {
						dirtyOK = true
					}
				}
			}
		}
		if trackedOK {
			r.Pass("S2c", key, "tracked-test", p.Pos(s.call.Pos()), "a test of `tracked` dominates the application of the backward rule")
		} else {
			// the test may legitimately sit elsewhere (e.g. where a delivery schedule is built and edges to untracked
			// tensors are left out): not a violation by itself.  The behaviour - no untracked tensor receives a
			// gradient or is marked spent - is decided by interpreting the walk on the DAG templates (C08.bp), which
			// every property relying on this clause runs.
			r.Note("S2c", key, "tracked-test", p.Pos(s.call.Pos()), "no test of `tracked` dominates this application of a backward rule in the same function; the clause is decided by the interpreted templates (untracked operands, dead branches, untracked roots) instead")
		}
		if dirtyOK {
			r.Pass("S2c", key, "mark-before-evaluate", p.Pos(s.call.Pos()), "`bpdirty = true` dominates the application (gradients are computed from spent tensors, hence untracked)")
		} else {
			r.Note("S2c", key, "mark-before-evaluate", p.Pos(s.call.Pos()), "no store `spent = true` dominates this application of a backward rule in the same function; the clause (gradient tensors are untracked, the graph does not grow during back-propagation) rests on C08.bp tracked-gradient over the interpreted templates")
		}
	}

	/* ---- S2d ---- */
	for fn := range walk {
		for _, b := range fn.Blocks {
			for _, in := range b.Instrs {
				sl, ok := in.(*ssa.Slice)
				if !ok {
					continue
				}
				if fr, ok := loadOfField(sl.X); ok && sameNamed(fr.Struct, a.GradContext) && fr.Index == a.GBackEdges {
					r.Violate("S2d", core.FuncKey(fn), "sub-slice", p.Pos(sl.Pos()), "the walk iterates over a sub-slice of backEdges: some operands never receive their gradient", "binary operation: only one operand gets a gradient")
				}
			}
		}
	}
	r.Pass("S2d", "gradtrack walk", "", "", fmt.Sprintf("%d walk functions inspected, no sub-slicing of backEdges", len(walk)))

	/* ---- S1d ---- */
	// graph-construction time: everything reachable through DIRECT calls (static callees, incl. closures invoked on
	// the spot) from the exported functions and methods of the library other than BackPropagate.  Backward rules are
	// function VALUES stored in edges - closures, method values of a per-call rule object, named functions - and are
	// only entered when the walk calls them, never through a direct call from a constructor.
	gradFns := p.ModuleFunctions(core.PkgGrad)
	ct := map[*ssa.Function]bool{}
	var work []*ssa.Function
	for _, fn := range p.ModuleFunctions() {
		if fn.Parent() != nil || fn.Object() == nil || !fn.Object().Exported() || fn.Name() == "BackPropagate" {
			continue
		}
		ct[fn] = true
		work = append(work, fn)
	}
	for len(work) > 0 {
		f := work[len(work)-1]
		work = work[:len(work)-1]
		for _, b := range f.Blocks {
			for _, in := range b.Instrs {
				ci, ok := in.(ssa.CallInstruction)
				if !ok {
					continue
				}
				if _, isGo := in.(*ssa.Go); isGo {
					continue
				}
				callee := ci.Common().StaticCallee()
				if _, isDefer := in.(*ssa.Defer); isDefer && callee == nil {
					continue
				}
				if callee == nil || callee.Blocks == nil || !core.InModule(callee) || ct[callee] {
					continue
				}
				ct[callee] = true
				work = append(work, callee)
			}
		}
	}
	nReads := 0
	for _, fn := range append(append([]*ssa.Function{}, gradFns...), p.ModuleFunctions(core.PkgCPU)...) {
		for _, b := range fn.Blocks {
			for _, in := range b.Instrs {
				c, ok := in.(*ssa.Call)
				if !ok || !c.Call.IsInvoke() || c.Call.Method.Name() != "Gradient" {
					continue
				}
				if namedOf(c.Call.Value.Type()) == nil || !sameNamed(namedOf(c.Call.Value.Type()), a.TensorIface) {
					continue
				}
				nReads++
				if ct[fn] {
					r.Violate("S1d", core.FuncKey(fn), "early-gradient-read", p.Pos(c.Pos()), "Tensor.Gradient is read in a function that graph construction calls directly; the gradient is nil (or stale) at that time", "any tracked operation: the rule sees a nil upstream gradient")
				}
			}
		}
	}
	r.Count("S1d.gradient_reads", nReads)
	r.Min("S1d.gradient_reads", 8)
	r.Pass("S1d", "gradtrack", "", "", fmt.Sprintf("%d reads of Tensor.Gradient, none in a function that graph construction reaches by direct calls", nReads))
}

func keysOf(m map[string]bool) string {
	ks := make([]string, 0, len(m))
	for k := range m {
		ks = append(ks, k)
	}
	sort.Strings(ks)
	return strings.Join(ks, ", ")
}

// isGradFnClosure: anonymous function with the chainGradFunc signature.
func isGradFnClosure(fn *ssa.Function) bool {
	return fn.Parent() != nil && len(fn.Params) == 0 && fn.Signature.Results().Len() == 2
}

// guardedByCycleState looks for a branch dominating the call whose condition reads a field written in the
// cycle or a map that is updated in the same function.
func guardedByCycleState(f *ssa.Function, call *ssa.Call, wFields map[string]bool) (bool, string) {
	updated := map[ssa.Value]bool{}
	for _, b := range f.Blocks {
		for _, in := range b.Instrs {
			if mu, ok := in.(*ssa.MapUpdate); ok {
				updated[mu.Map] = true
			}
		}
	}
	for _, b := range f.Blocks {
		iff, ok := b.Instrs[len(b.Instrs)-1].(*ssa.If)
		if !ok || !b.Dominates(call.Block()) || b == call.Block() {
			continue
		}
		// the branch must be able to skip the call: exactly one successor dominates the call's block
		d0 := b.Succs[0].Dominates(call.Block())
		d1 := b.Succs[1].Dominates(call.Block())
		if d0 == d1 {
			continue
		}
		what := ""
		if derivesFrom(iff.Cond, func(v ssa.Value) bool {
			if lk, ok := v.(*ssa.Lookup); ok && updated[lk.X] {
				what = "a lookup in a map that the function updates (visited set / pending counter)"
				return true
			}
			if fr, ok := loadOfField(v); ok && wFields[fr.Struct.Obj().Name()+"."+fr.Name] {
				what = "field " + fr.Struct.Obj().Name() + "." + fr.Name + " written inside the cycle"
				return true
			}
			return false
		}) {
			return true, what
		}
	}
	return false, ""
}

// accumulates: the stored value is the first result of an invoke of Add where the receiver or the
// argument is a load of GradContext.gradient.
func accumulates(st *ssa.Store, a *spec.Anchors) bool {
	v := st.Val
	if ex, ok := v.(*ssa.Extract); ok && ex.Index == 0 {
		v = ex.Tuple
	}
	c, ok := v.(*ssa.Call)
	if !ok || !c.Call.IsInvoke() || c.Call.Method.Name() != "Add" {
		return false
	}
	isOld := func(x ssa.Value) bool {
		fr, ok := loadOfField(x)
		return ok && sameNamed(fr.Struct, a.GradContext) && fr.Index == a.GGradient
	}
	if isOld(c.Call.Value) {
		return true
	}
	for _, arg := range c.Call.Args {
		if isOld(arg) {
			return true
		}
	}
	return false
}

// underNilTest: a dominating branch compares GradContext.gradient with nil and the store is on its true side.
func underNilTest(st *ssa.Store, a *spec.Anchors) bool {
	fn := st.Parent()
	for _, b := range fn.Blocks {
		iff, ok := b.Instrs[len(b.Instrs)-1].(*ssa.If)
		if !ok {
			continue
		}
		bo, ok := iff.Cond.(*ssa.BinOp)
		if !ok || (bo.Op != token.EQL && bo.Op != token.NEQ) {
			continue
		}
		isOld := func(x ssa.Value) bool {
			fr, ok := loadOfField(x)
			return ok && sameNamed(fr.Struct, a.GradContext) && fr.Index == a.GGradient
		}
		isNil := func(x ssa.Value) bool {
			c, ok := x.(*ssa.Const)
			return ok && c.IsNil()
		}
		if !((isOld(bo.X) && isNil(bo.Y)) || (isOld(bo.Y) && isNil(bo.X))) {
			continue
		}
		side := 0
		if bo.Op == token.NEQ {
			side = 1
		}
		if b.Succs[side].Dominates(st.Block()) {
			return true
		}
	}
	return false
}
