package rules

import (
	"fmt"
	"go/token"
	"go/types"
	"sort"

	"golang.org/x/tools/go/callgraph"
	"golang.org/x/tools/go/ssa"

	"qverif/core"
	"qverif/spec"
)

// freshness: a pointer value is "fresh" in fn when it is a local allocation or the result of a call to a
// function all of whose returns are fresh (fixed point over static callees).
type freshInfo struct {
	returnsFresh map[*ssa.Function]bool
	// dynamic call sites (function values, method expressions handed around): their possible callees from VTA
	dyn map[ssa.CallInstruction][]*ssa.Function
}

func computeFresh(p *core.Program) *freshInfo {
	fi := &freshInfo{returnsFresh: map[*ssa.Function]bool{}, dyn: map[ssa.CallInstruction][]*ssa.Function{}}
	for _, n := range p.VTA().Nodes {
		if n == nil || n.Func == nil {
			continue
		}
		for _, e := range n.Out {
			if e.Site == nil || e.Site.Common().StaticCallee() != nil || e.Callee == nil || e.Callee.Func == nil {
				continue
			}
			fi.dyn[e.Site] = append(fi.dyn[e.Site], e.Callee.Func)
		}
	}
	fns := p.ModuleFunctions()
	// wrappers (method-expression thunks, bound-method closures) that dynamic sites may denote take part too
	{
		have := map[*ssa.Function]bool{}
		for _, fn := range fns {
			have[fn] = true
		}
		for _, cs := range fi.dyn {
			for _, callee := range cs {
				if !have[callee] && callee.Blocks != nil && isWrapper(callee) && core.InModule(callee) {
					have[callee] = true
					fns = append(fns, callee)
				}
			}
		}
	}
	// optimistic start for functions returning pointers, then remove
	for _, fn := range fns {
		fi.returnsFresh[fn] = true
	}
	changed := true
	for changed {
		changed = false
		for _, fn := range fns {
			if !fi.returnsFresh[fn] {
				continue
			}
			ok := true
			for _, b := range fn.Blocks {
				ret, isRet := b.Instrs[len(b.Instrs)-1].(*ssa.Return)
				if !isRet || len(ret.Results) == 0 {
					continue
				}
				v := ret.Results[0]
				if c, isC := v.(*ssa.Const); isC && c.IsNil() {
					continue
				}
				if !fi.isFresh(v, 0) {
					ok = false
				}
			}
			if !ok {
				fi.returnsFresh[fn] = false
				changed = true
			}
		}
	}
	return fi
}

func (fi *freshInfo) isFresh(v ssa.Value, depth int) bool {
	if depth > 20 {
		return false
	}
	switch x := v.(type) {
	case *ssa.Alloc:
		return true
	case *ssa.MakeInterface:
		return fi.isFresh(x.X, depth+1)
	case *ssa.ChangeType:
		return fi.isFresh(x.X, depth+1)
	case *ssa.ChangeInterface:
		return fi.isFresh(x.X, depth+1)
	case *ssa.Extract:
		return fi.isFresh(x.Tuple, depth+1)
	case *ssa.Call:
		if callee := x.Call.StaticCallee(); callee != nil {
			if callee.Blocks == nil {
				return false
			}
			return fi.returnsFresh[callee]
		}
		// a call through a function value: fresh when every function it can denote returns fresh memory
		if cs := fi.dyn[x]; len(cs) > 0 && !x.Call.IsInvoke() {
			for _, callee := range cs {
				if callee.Blocks == nil || !fi.returnsFresh[callee] {
					return false
				}
			}
			return true
		}
		return false
	case *ssa.Phi:
		for _, e := range x.Edges {
			if c, isC := e.(*ssa.Const); isC && c.IsNil() {
				continue
			}
			if !fi.isFresh(e, depth+1) {
				return false
			}
		}
		return true
	case *ssa.UnOp:
		// load from a local variable cell that only ever holds fresh values
		if x.Op == token.MUL {
			if al, ok := x.X.(*ssa.Alloc); ok {
				return fi.cellHoldsFresh(al, depth+1)
			}
		}
		return false
	}
	return false
}

func (fi *freshInfo) cellHoldsFresh(al *ssa.Alloc, depth int) bool {
	any := false
	for _, ref := range *al.Referrers() {
		if st, ok := ref.(*ssa.Store); ok && st.Addr == al {
			any = true
			if c, isC := st.Val.(*ssa.Const); isC && c.IsNil() {
				continue
			}
			if !fi.isFresh(st.Val, depth+1) {
				return false
			}
		}
	}
	return any
}

// paramIndex returns the index of v among fn's parameters (receiver = 0), or -1.
func paramIndex(fn *ssa.Function, v ssa.Value) int {
	for i, p := range fn.Params {
		if p == v {
			return i
		}
	}
	return -1
}

// S3Ownership checks who may write the fields of GradContext and CPUTensor, and who may read gctx.
func S3Ownership(p *core.Program, a *spec.Anchors, r *core.Report) { s3(p, a, r, true, true) }

// S3Reads checks only the read inventory of the gradient context (forward values cannot depend on tracking).
func S3Reads(p *core.Program, a *spec.Anchors, r *core.Report) { s3(p, a, r, false, true) }

func s3(p *core.Program, a *spec.Anchors, r *core.Report, writes, reads bool) {
	fi := computeFresh(p)
	g := p.VTA()
	pub := p.Func(core.PkgTensor, "BackPropagate")
	walk := map[*ssa.Function]bool{}
	if pub != nil {
		for fn := range reachableInModule(g, pub) {
			if core.PkgPathOf(fn) == core.PkgGrad && !isGradFnClosure(fn) {
				walk[fn] = true
			}
		}
	}
	// functions that exist only to serve the public accessors GradContext / Gradient / ResetGradContext: the accessors
	// themselves and every function all of whose callers are such
	accessorOnly := map[*ssa.Function]bool{}
	for _, fn := range p.ModuleFunctions(core.PkgCPU) {
		if fn.Parent() == nil && (fn.Name() == "GradContext" || fn.Name() == "Gradient" || fn.Name() == "ResetGradContext") && fn.Signature.Recv() != nil {
			accessorOnly[fn] = true
		}
	}
	for changed := true; changed; {
		changed = false
		for _, fn := range p.ModuleFunctions(core.PkgCPU) {
			if accessorOnly[fn] {
				continue
			}
			node := g.Nodes[fn]
			if node == nil || len(node.In) == 0 {
				continue
			}
			all := true
			for _, e := range node.In {
				if !accessorOnly[e.Caller.Func] {
					all = false
					break
				}
			}
			if all {
				accessorOnly[fn], changed = true, true
			}
		}
	}
	nG, nT, nReads := 0, 0, 0
	// writesTensorParam[fn][i]: fn (transitively) writes data/dims/gctx of the CPUTensor passed as parameter i
	type obligation struct {
		fn    *ssa.Function
		param int
		field string
		pos   token.Pos
	}
	var pending []obligation
	var pendingG []obligation // the same for GradContext fields

	for _, fn := range p.ModuleFunctions() {
		key := core.FuncKey(fn)
		for _, b := range fn.Blocks {
			for _, in := range b.Instrs {
				switch x := in.(type) {
				case *ssa.Store:
					if !writes {
						continue
					}
					fr, ok := asFieldAddr(x.Addr)
					// a field of a struct-VALUED field or an element of an array-valued field of a tensor / context
					// (&t.memo.max, &t.hist[i]) is a write into that tensor / context: find the outermost such field
					{
						cur := x.Addr
						path := ""
						for depth := 0; depth < 8; depth++ {
							switch y := cur.(type) {
							case *ssa.FieldAddr:
								if o, isO := asFieldAddr(y); isO && (sameNamed(o.Struct, a.GradContext) || sameNamed(o.Struct, a.CPUTensor)) {
									if path != "" {
										o.Name = o.Name + path
									}
									fr, ok = o, true
									depth = 8
									continue
								}
								nm := fmt.Sprintf("#%d", y.Field)
								if pt, isP := y.X.Type().Underlying().(*types.Pointer); isP {
									if st, isS := pt.Elem().Underlying().(*types.Struct); isS && y.Field < st.NumFields() {
										nm = st.Field(y.Field).Name()
									}
								}
								path = "." + nm + path
								cur = y.X
							case *ssa.IndexAddr:
								pt, isP := y.X.Type().Underlying().(*types.Pointer)
								if !isP {
									depth = 8 // a slice element lives in the slice's own array (S4's business)
									continue
								}
								if _, isArr := pt.Elem().Underlying().(*types.Array); !isArr {
									depth = 8
									continue
								}
								path = "[i]" + path
								cur = y.X
							default:
								depth = 8
							}
						}
					}
					if !ok {
						continue
					}
					switch {
					case sameNamed(fr.Struct, a.GradContext):
						nG++
						if fi.isFresh(fr.Base, 0) {
							r.Pass("S3.gctx-write", key, fr.Name, p.Pos(x.Pos()), "initialises a context allocated in this function")
							continue
						}
						if walk[fn] && (fr.Index == a.GDirty || fr.Index == a.GGradient) {
							if c, isC := x.Val.(*ssa.Const); isC && c.IsNil() && fr.Index == a.GGradient {
								r.Violate("S3.gctx-write", key, fr.Name+":dropped", p.Pos(x.Pos()),
									"the back-propagation walk sets GradContext.gradient to nil: a tracked tensor of the graph ends without the gradient the walk delivered to it (only ResetGradContext, by replacing the context, discards gradients)",
									"b := x.Broadcast(shape); BackPropagate(b.Sum…): b.Gradient() is nil although b is a tracked tensor of the graph")
								continue
							}
							r.Pass("S3.gctx-write", key, fr.Name, p.Pos(x.Pos()), "the back-propagation walk marks / accumulates")
							continue
						}
						if pi := paramIndex(fn, fr.Base); pi >= 0 && fn.Name() != "ResetGradContext" {
							// the context is handed in (an option / initialiser applied to a context under construction): every
							// caller must pass one it allocated itself
							pendingG = append(pendingG, obligation{fn, pi, fr.Name, x.Pos()})
							continue
						}
						r.Violate("S3.gctx-write", key, fr.Name, p.Pos(x.Pos()),
							fmt.Sprintf("writes GradContext.%s of an existing context outside the back-propagation walk: only BackPropagate assigns gradients / spends tensors and only ResetGradContext (by replacing the context) changes tracking", fr.Name),
							"a forward operation changes the tracking state or gradient of one of its operands")
					case sameNamed(fr.Struct, a.CPUTensor):
						nT++
						if fi.isFresh(fr.Base, 0) {
							r.Pass("S3.tensor-write", key, fr.Name, p.Pos(x.Pos()), "initialises a tensor allocated in this function")
							continue
						}
						if fr.Index == a.FGctx && fn.Name() == "ResetGradContext" && paramIndex(fn, fr.Base) == 0 {
							r.Pass("S3.tensor-write", key, fr.Name, p.Pos(x.Pos()), "ResetGradContext replaces the receiver's context")
							continue
						}
						if pi := paramIndex(fn, fr.Base); pi >= 0 {
							pending = append(pending, obligation{fn, pi, fr.Name, x.Pos()})
							continue
						}
						r.Violate("S3.tensor-write", key, fr.Name, p.Pos(x.Pos()),
							fmt.Sprintf("writes CPUTensor.%s of a tensor that was not allocated by this call: existing tensors are immutable values", fr.Name),
							"the operand of an operation changes shape/elements/context")
					}
				case *ssa.UnOp:
					if x.Op != token.MUL || !reads {
						continue
					}
					fr, ok := asFieldAddr(x.X)
					if !ok || !sameNamed(fr.Struct, a.CPUTensor) || fr.Index != a.FGctx {
						continue
					}
					nReads++
					if accessorOnly[fn] {
						r.Pass("S3.gctx-read", key, "", p.Pos(x.Pos()), "public accessor (or a helper only the accessors call)")
						continue
					}
					r.Violate("S3.gctx-read", key, "read", p.Pos(x.Pos()),
						"reads a tensor's gradient context outside the two public accessors: forward values could depend on tracking", "tracked and untracked copies of the same data give different results")
				}
			}
		}
	}
	if writes {
		// a tensor-producing public method hands out a tensor object allocated by this very call, never an operand
		// (or an object stored somewhere): the caller may reset, track and back-propagate the result on its own
		nRes := 0
		isCPUT := func(t types.Type) bool {
			n, ok := types.Unalias(t).(*types.Named)
			return ok && sameNamed(n, a.CPUTensor)
		}
		isTensorT := func(t types.Type) bool {
			if types.Identical(t, a.TensorIface) {
				return true
			}
			if pt, ok := types.Unalias(t).(*types.Pointer); ok {
				return isCPUT(pt.Elem())
			}
			return false
		}
		// env: the arguments bound to the parameters of a helper whose returns are being examined (a pass-through
		// helper such as withContext(result, f) returns what it was given)
		type frame struct {
			args   map[*ssa.Parameter]ssa.Value
			parent *frame
		}
		var freshResIn func(v ssa.Value, env *frame, depth int) bool
		freshRes := func(v ssa.Value, depth int) bool { return freshResIn(v, nil, depth) }
		freshResIn = func(v ssa.Value, env *frame, depth int) bool {
			freshRes := func(v ssa.Value, depth int) bool { return freshResIn(v, env, depth) }
			if depth > 20 {
				return false
			}
			if prm, ok := v.(*ssa.Parameter); ok && env != nil {
				if arg, ok := env.args[prm]; ok {
					return freshResIn(arg, env.parent, depth+1)
				}
			}
			if c, isC := v.(*ssa.Const); isC && c.IsNil() {
				return true
			}
			if fi.isFresh(v, 0) {
				return true
			}
			switch x := v.(type) {
			case *ssa.MakeInterface:
				return freshRes(x.X, depth+1)
			case *ssa.ChangeInterface:
				return freshRes(x.X, depth+1)
			case *ssa.ChangeType:
				return freshRes(x.X, depth+1)
			case *ssa.TypeAssert:
				return freshRes(x.X, depth+1)
			case *ssa.Extract:
				return freshRes(x.Tuple, depth+1)
			case *ssa.Phi:
				for _, ed := range x.Edges {
					if !freshRes(ed, depth+1) {
						return false
					}
				}
				return true
			case *ssa.UnOp:
				if al, ok := x.X.(*ssa.Alloc); ok && x.Op == token.MUL {
					anyStore := false
					for _, ref := range *al.Referrers() {
						if st, ok := ref.(*ssa.Store); ok && st.Addr == al {
							anyStore = true
							if !freshRes(st.Val, depth+1) {
								return false
							}
						}
					}
					return anyStore
				}
			case *ssa.Call:
				// another tensor-producing operation invoked through the Tensor interface: fresh by this same rule
				if x.Call.IsInvoke() && types.Identical(x.Call.Value.Type(), a.TensorIface) {
					res := x.Call.Method.Type().(*types.Signature).Results()
					return res.Len() >= 1 && isTensorT(res.At(0).Type())
				}
				if callee := x.Call.StaticCallee(); callee != nil && callee.Signature.Recv() != nil && callee.Object() != nil && callee.Object().Exported() {
					if pt, ok := types.Unalias(callee.Signature.Recv().Type()).(*types.Pointer); ok && isCPUT(pt.Elem()) {
						res := callee.Signature.Results()
						return res.Len() >= 1 && isTensorT(res.At(0).Type())
					}
				}
				// a module helper that hands back what it was given (or something fresh): look at its returns with the
				// arguments of this call bound to its parameters
				if callee := x.Call.StaticCallee(); callee != nil && callee.Blocks != nil && core.InModule(callee) && depth < 12 {
					fr := &frame{args: map[*ssa.Parameter]ssa.Value{}, parent: env}
					for i, prm := range callee.Params {
						if i < len(x.Call.Args) {
							fr.args[prm] = x.Call.Args[i]
						}
					}
					any := false
					for _, cb := range callee.Blocks {
						for _, ci := range cb.Instrs {
							if ret, ok := ci.(*ssa.Return); ok && len(ret.Results) >= 1 {
								any = true
								if !freshResIn(ret.Results[0], fr, depth+1) {
									return false
								}
							}
						}
					}
					return any
				}
			}
			return false
		}
		for _, fn := range p.ModuleFunctions(core.PkgCPU) {
			if fn.Parent() != nil || fn.Object() == nil || !fn.Object().Exported() {
				continue
			}
			// exported methods of the tensor type and the exported constructors of the package (Full, TensorOf, Concat, …)
			if fn.Signature.Recv() != nil {
				pt, ok := types.Unalias(fn.Signature.Recv().Type()).(*types.Pointer)
				if !ok || !isCPUT(pt.Elem()) {
					continue
				}
			}
			res := fn.Signature.Results()
			if res.Len() == 0 || !isTensorT(res.At(0).Type()) || fn.Name() == "Gradient" {
				continue
			}
			key := core.FuncKey(fn)
			for _, b := range fn.Blocks {
				for _, in := range b.Instrs {
					ret, ok := in.(*ssa.Return)
					if !ok || len(ret.Results) == 0 {
						continue
					}
					nRes++
					if freshRes(ret.Results[0], 0) {
						r.Pass("S3.result-fresh", key, "", p.Pos(ret.Pos()), "the returned tensor is allocated by this call (or nil)")
						continue
					}
					r.Violate("S3.result-fresh", key, "returns-existing", p.Pos(ret.Pos()),
						"a tensor-producing operation returns a tensor object that existed before the call (an operand or a stored tensor) instead of a new one: resetting, tracking or back-propagating the result then acts on that other tensor",
						"r := x.Op(…); r.ResetGradContext(true) changes x")
				}
			}
		}
		r.Count("S3.result_returns", nRes)
		r.Min("S3.result_returns", 30)
		// who may call ResetGradContext: only the library's user.  A library function that resets a tensor it
		// was handed changes the tracking state, gradient and graph edges of a caller-owned tensor.
		nCalls := 0
		for _, fn := range p.ModuleFunctions() {
			for _, b := range fn.Blocks {
				for _, in := range b.Instrs {
					ci, ok := in.(ssa.CallInstruction)
					if !ok {
						continue
					}
					nCalls++
					cc := ci.Common()
					name := ""
					if cc.IsInvoke() {
						name = cc.Method.Name()
					} else if callee := cc.StaticCallee(); callee != nil && callee.Signature.Recv() != nil {
						name = callee.Name()
					}
					if name == "ResetGradContext" {
						r.Violate("S3.reset-call", core.FuncKey(fn), "calls-ResetGradContext", p.Pos(in.Pos()),
							"library code calls ResetGradContext on a tensor: resetting is the caller's decision; doing it inside an operation, layer, loss or optimizer changes the tracking state, gradient and graph edges of a tensor the caller owns",
							"a tracked target / operand silently loses its gradient path after being passed to the library")
					}
				}
			}
		}
		r.Count("S3.call_sites_scanned", nCalls)
		r.Min("S3.call_sites_scanned", 100)
	}
	if !writes {
		r.Count("S3.gctx_reads", nReads)
		r.Min("S3.gctx_reads", 1)
		return
	}
	// address-of field passed on (e.g. &t.data handed to a filler): treat as a write of that field
	for _, fn := range p.ModuleFunctions(core.PkgCPU) {
		for _, b := range fn.Blocks {
			for _, in := range b.Instrs {
				fa, ok := in.(*ssa.FieldAddr)
				if !ok {
					continue
				}
				fr, _ := asFieldAddr(fa)
				if !sameNamed(fr.Struct, a.CPUTensor) || (fr.Index != a.FData && fr.Index != a.FDims) {
					continue
				}
				escapes := false
				for _, ref := range *fa.Referrers() {
					switch y := ref.(type) {
					case *ssa.Call:
						for _, arg := range y.Call.Args {
							if arg == fa {
								escapes = true
							}
						}
					case *ssa.Store:
						if y.Val == fa {
							escapes = true
						}
					case *ssa.MakeClosure:
						escapes = true
					}
				}
				if !escapes {
					continue
				}
				// reading through a pointer is fine when the callee only reads; we cannot tell cheaply, so only the
				// result-side (fresh) and receiver-of-initialiser cases are accepted
				if fi.isFresh(fr.Base, 0) {
					continue
				}
				if pi := paramIndex(fn, fr.Base); pi >= 0 {
					if writesThrough(fa) {
						pending = append(pending, obligation{fn, pi, fr.Name + "(by address)", fa.Pos()})
					}
					continue
				}
			}
		}
	}
	// discharge parameter obligations: every caller must pass a fresh tensor (or its own parameter, recursively)
	seen := map[string]bool{}
	for len(pending) > 0 {
		ob := pending[0]
		pending = pending[1:]
		k := fmt.Sprintf("%s#%d#%s", core.FuncKey(ob.fn), ob.param, ob.field)
		if seen[k] {
			continue
		}
		seen[k] = true
		node := g.Nodes[ob.fn]
		exported := ob.fn.Parent() == nil && ob.fn.Object() != nil && ob.fn.Object().Exported()
		if exported && !(ob.fn.Name() == "ResetGradContext") {
			r.Violate("S3.tensor-write", core.FuncKey(ob.fn), ob.field, p.Pos(ob.pos),
				fmt.Sprintf("a public function writes CPUTensor.%s of a tensor it received: existing tensors are immutable values", ob.field), "the operand of an operation is modified in place")
			continue
		}
		if node == nil || len(node.In) == 0 {
			r.Pass("S3.tensor-write", core.FuncKey(ob.fn), ob.field, p.Pos(ob.pos), "no callers")
			continue
		}
		allOK := true
		for _, e := range callersOf(node) {
			if e.Site == nil {
				continue
			}
			args := e.Site.Common().Args
			if ob.param >= len(args) {
				allOK = false
				continue
			}
			arg := args[ob.param]
			caller := e.Caller.Func
			if fi.isFresh(arg, 0) {
				continue
			}
			if pi := paramIndex(caller, arg); pi >= 0 {
				pending = append(pending, obligation{caller, pi, ob.field, e.Site.Pos()})
				continue
			}
			allOK = false
			r.Violate("S3.tensor-write", core.FuncKey(caller), ob.field+"→"+core.FuncKey(ob.fn), p.Pos(e.Site.Pos()),
				fmt.Sprintf("passes an existing tensor to %s, which writes its %s", core.FuncKey(ob.fn), ob.field), "an operand is modified in place")
		}
		if allOK {
			r.Pass("S3.tensor-write", core.FuncKey(ob.fn), ob.field, p.Pos(ob.pos), "every caller passes a tensor it allocated itself (or forwards the obligation)")
		}
	}
	// the same discharge for contexts handed to initialisers / options
	seenG := map[string]bool{}
	for len(pendingG) > 0 {
		ob := pendingG[0]
		pendingG = pendingG[1:]
		k := fmt.Sprintf("%s#%d#%s", core.FuncKey(ob.fn), ob.param, ob.field)
		if seenG[k] {
			continue
		}
		seenG[k] = true
		node := g.Nodes[ob.fn]
		exported := ob.fn.Parent() == nil && ob.fn.Object() != nil && ob.fn.Object().Exported()
		if exported || node == nil || len(node.In) == 0 {
			r.Violate("S3.gctx-write", core.FuncKey(ob.fn), ob.field, p.Pos(ob.pos),
				fmt.Sprintf("writes GradContext.%s of a context it received and that its callers cannot be shown to have allocated: only BackPropagate assigns gradients / spends tensors and only ResetGradContext (by replacing the context) changes tracking", ob.field),
				"a forward operation changes the tracking state or gradient of one of its operands")
			continue
		}
		allOK := true
		for _, e := range callersOf(node) {
			if e.Site == nil {
				continue
			}
			args := e.Site.Common().Args
			// dynamic calls through a function value carry the callee's parameters in order
			if ob.param >= len(args) {
				allOK = false
				continue
			}
			arg := args[ob.param]
			caller := e.Caller.Func
			if fi.isFresh(arg, 0) {
				continue
			}
			if pi := paramIndex(caller, arg); pi >= 0 {
				pendingG = append(pendingG, obligation{caller, pi, ob.field, e.Site.Pos()})
				continue
			}
			allOK = false
			r.Violate("S3.gctx-write", core.FuncKey(caller), ob.field+"→"+core.FuncKey(ob.fn), p.Pos(e.Site.Pos()),
				fmt.Sprintf("passes an existing gradient context to %s, which writes its %s", core.FuncKey(ob.fn), ob.field), "a forward operation changes the tracking state or gradient of one of its operands")
		}
		if allOK {
			r.Pass("S3.gctx-write", core.FuncKey(ob.fn), ob.field, p.Pos(ob.pos), "every caller passes a context it allocated itself (or forwards the obligation)")
		}
	}
	r.Count("S3.gradcontext_field_stores", nG)
	r.Count("S3.tensor_field_stores", nT)
	r.Count("S3.gctx_reads", nReads)
	r.Min("S3.gradcontext_field_stores", 2)
	r.Min("S3.tensor_field_stores", 5)
	r.Min("S3.gctx_reads", 1)
}

// writesThrough reports whether the address is (possibly) written by what it is passed to: true when it is
// passed to a call / bound into a closure whose corresponding parameter is stored through.
func writesThrough(fa *ssa.FieldAddr) bool {
	for _, ref := range *fa.Referrers() {
		switch y := ref.(type) {
		case *ssa.Call:
			callee := y.Call.StaticCallee()
			var fn *ssa.Function
			if callee != nil {
				fn = callee
			} else if u, ok := y.Call.Value.(*ssa.UnOp); ok {
				// call through a local func variable: find the closure stored into it
				if al, ok := u.X.(*ssa.Alloc); ok {
					for _, r2 := range *al.Referrers() {
						if st, ok := r2.(*ssa.Store); ok {
							if mc, ok := st.Val.(*ssa.MakeClosure); ok {
								fn = mc.Fn.(*ssa.Function)
							}
						}
					}
				}
			}
			if fn == nil || fn.Blocks == nil {
				return true
			}
			for i, arg := range y.Call.Args {
				if arg != fa || i >= len(fn.Params) {
					continue
				}
				if paramStoredThrough(fn, fn.Params[i]) {
					return true
				}
			}
		case *ssa.Store:
			if y.Val == fa {
				return true
			}
		case *ssa.MakeClosure:
			return true
		}
	}
	return false
}

func paramStoredThrough(fn *ssa.Function, prm *ssa.Parameter) bool {
	for _, ref := range *prm.Referrers() {
		switch y := ref.(type) {
		case *ssa.Store:
			if y.Addr == prm {
				return true
			}
		case *ssa.Call:
			// forwarded (recursion): conservatively a write unless it is the same function with the same slot
			if callee := y.Call.StaticCallee(); callee == nil || callee != fn {
				for _, arg := range y.Call.Args {
					if arg == prm {
						return true
					}
				}
			}
		}
	}
	return false
}

func callersOf(n *callgraph.Node) []*callgraph.Edge {
	out := append([]*callgraph.Edge{}, n.In...)
	sort.Slice(out, func(i, j int) bool {
		return core.FuncKey(out[i].Caller.Func) < core.FuncKey(out[j].Caller.Func)
	})
	return out
}
