package rules

import (
	"fmt"
	"go/types"

	"golang.org/x/tools/go/ssa"

	"qverif/core"
	"qverif/spec"
)

// S15GoroutineDiscipline: goroutines started by the library may fill DISJOINT parts of memory the starting call
// allocated (an element of a result slice selected by an index), but must not write a variable they share with
// their siblings or with the starting function: an accumulator updated from several goroutines - even under a
// mutex - makes the result depend on completion order (floating-point addition is not associative), and without
// one it is a data race.
func S15GoroutineDiscipline(p *core.Program, a *spec.Anchors, r *core.Report) {
	r.Rule("S15: a function started with `go` inside the library does not store to a captured variable (shared accumulator / shared error / shared cursor); stores into an element of a captured slice or array are the sanctioned way to hand results back")
	nGo := 0
	for _, fn := range p.ModuleFunctions() {
		for _, b := range fn.Blocks {
			for _, in := range b.Instrs {
				g, ok := in.(*ssa.Go)
				if !ok {
					continue
				}
				nGo++
				var body *ssa.Function
				switch v := g.Call.Value.(type) {
				case *ssa.MakeClosure:
					body, _ = v.Fn.(*ssa.Function)
				case *ssa.Function:
					body = v
				}
				key := core.FuncKey(fn)
				if body == nil {
					r.Note("S15.go", key, "dynamic", p.Pos(g.Pos()), "goroutine started through a function value: its body is not examined")
					continue
				}
				bad := false
				var visit func(f *ssa.Function, depth int)
				visit = func(f *ssa.Function, depth int) {
					for _, bb := range f.Blocks {
						for _, ii := range bb.Instrs {
							switch x := ii.(type) {
							case *ssa.Store:
								if fv, isFV := x.Addr.(*ssa.FreeVar); isFV {
									bad = true
									vt := "value"
									if pt, ok := fv.Type().Underlying().(*types.Pointer); ok {
										vt = pt.Elem().String()
									}
									r.Violate("S15.go", key, "shared-variable:"+fv.Name(), p.Pos(x.Pos()),
										fmt.Sprintf("a goroutine started here writes the captured variable %s (%s), which its siblings and the starting function share: the result depends on the order in which the goroutines finish (or races)", fv.Name(), vt),
										"two runs of the same computation on the same data give different floating-point results")
								}
							case *ssa.MakeClosure:
								if inner, ok := x.Fn.(*ssa.Function); ok && depth < 3 {
									visit(inner, depth+1)
								}
							}
						}
					}
				}
				visit(body, 0)
				if !bad {
					r.Pass("S15.go", key, "", p.Pos(g.Pos()), "the goroutine writes no captured variable")
				}
			}
		}
	}
	r.Count("S15.go_statements", nGo)
}
