package sym

import (
	"fmt"
	"math"
	"sort"
	"strings"
)

type CKind int

const (
	CTrue CKind = iota
	CFalse
	CInt    // integer constraint
	CRealGT // E > 0
	CRealGE // E >= 0
	CRealEQ // E == 0
	CAbsLE  // |E| <= Tau
	CAnd
	COr
	CNot
)

// Cond is a condition over integer atoms and real expressions, used inside indicators and as
// path conditions.
type Cond struct {
	Kind CKind
	C    Constraint
	E    Expr
	Tau  Expr
	Sub  []*Cond
	key  string
}

func True() *Cond  { return &Cond{Kind: CTrue} }
func False() *Cond { return &Cond{Kind: CFalse} }

func IntCond(c Constraint) *Cond {
	if v, ok := c.Trivial(); ok {
		if v {
			return True()
		}
		return False()
	}
	return &Cond{Kind: CInt, C: c.Canon()}
}

func RealGT(a, b Expr) *Cond {
	if HasNaN(a) || HasNaN(b) {
		return False()
	}
	return &Cond{Kind: CRealGT, E: Sub(a, b)}
}
func RealGE(a, b Expr) *Cond {
	if HasNaN(a) || HasNaN(b) {
		return False()
	}
	return &Cond{Kind: CRealGE, E: Sub(a, b)}
}
func RealLT(a, b Expr) *Cond { return RealGT(b, a) }
func RealLE(a, b Expr) *Cond { return RealGE(b, a) }
func RealEQ(a, b Expr) *Cond {
	if HasNaN(a) || HasNaN(b) {
		return False()
	}
	d := Sub(a, b)
	// sign-canonical
	if len(d.terms) > 0 && d.terms[0].c.Sign() < 0 {
		d = Neg(d)
	}
	return &Cond{Kind: CRealEQ, E: d}
}
func AbsLE(d Expr, tau Expr) *Cond {
	if HasNaN(d) || HasNaN(tau) {
		return False()
	}
	if len(d.terms) > 0 && d.terms[0].c.Sign() < 0 {
		d = Neg(d)
	}
	return &Cond{Kind: CAbsLE, E: d, Tau: tau}
}

func And(cs ...*Cond) *Cond {
	var flat []*Cond
	for _, c := range cs {
		switch c.Kind {
		case CTrue:
		case CFalse:
			return False()
		case CAnd:
			flat = append(flat, c.Sub...)
		default:
			flat = append(flat, c)
		}
	}
	flat = dedupe(flat)
	if len(flat) == 0 {
		return True()
	}
	if len(flat) == 1 {
		return flat[0]
	}
	return &Cond{Kind: CAnd, Sub: flat}
}

func Or(cs ...*Cond) *Cond {
	var flat []*Cond
	for _, c := range cs {
		switch c.Kind {
		case CFalse:
		case CTrue:
			return True()
		case COr:
			flat = append(flat, c.Sub...)
		default:
			flat = append(flat, c)
		}
	}
	flat = dedupe(flat)
	if len(flat) == 0 {
		return False()
	}
	if len(flat) == 1 {
		return flat[0]
	}
	return &Cond{Kind: COr, Sub: flat}
}

func Not(c *Cond) *Cond {
	switch c.Kind {
	case CTrue:
		return False()
	case CFalse:
		return True()
	case CNot:
		return c.Sub[0]
	case CInt:
		return IntCond(c.C.Not())
	case CRealGT: // !(E>0) == -E >= 0
		return &Cond{Kind: CRealGE, E: Neg(c.E)}
	case CRealGE:
		return &Cond{Kind: CRealGT, E: Neg(c.E)}
	case CAnd:
		subs := make([]*Cond, len(c.Sub))
		for i, s := range c.Sub {
			subs[i] = Not(s)
		}
		return Or(subs...)
	case COr:
		subs := make([]*Cond, len(c.Sub))
		for i, s := range c.Sub {
			subs[i] = Not(s)
		}
		return And(subs...)
	}
	return &Cond{Kind: CNot, Sub: []*Cond{c}}
}

func dedupe(cs []*Cond) []*Cond {
	seen := map[string]bool{}
	var out []*Cond
	for _, c := range cs {
		k := c.Key()
		if !seen[k] {
			seen[k] = true
			out = append(out, c)
		}
	}
	sort.Slice(out, func(i, j int) bool { return out[i].Key() < out[j].Key() })
	return out
}

func (c *Cond) Key() string {
	if c.key != "" {
		return c.key
	}
	switch c.Kind {
	case CTrue:
		c.key = "true"
	case CFalse:
		c.key = "false"
	case CInt:
		c.key = c.C.String()
	case CRealGT:
		c.key = c.E.Key() + " > 0"
	case CRealGE:
		c.key = c.E.Key() + " >= 0"
	case CRealEQ:
		c.key = c.E.Key() + " == 0"
	case CAbsLE:
		c.key = "|" + c.E.Key() + "| <= " + c.Tau.Key()
	case CAnd, COr:
		parts := make([]string, len(c.Sub))
		for i, s := range c.Sub {
			parts[i] = s.Key()
		}
		op := " ∧ "
		if c.Kind == COr {
			op = " ∨ "
		}
		c.key = "(" + strings.Join(parts, op) + ")"
	case CNot:
		c.key = "¬(" + c.Sub[0].Key() + ")"
	}
	return c.key
}

func (c *Cond) String() string { return c.Key() }

// Decide evaluates the condition if it is determined by constants or by the active facts.
func (c *Cond) Decide() (bool, bool) {
	switch c.Kind {
	case CTrue:
		return true, true
	case CFalse:
		return false, true
	case CInt:
		return c.C.Trivial()
	case CRealGT:
		switch signOf(c.E) {
		case SignBigPos, SignSmallPos:
			return true, true
		case SignBigNeg, SignZero, SignSmallNeg:
			return false, true
		}
	case CRealGE:
		switch signOf(c.E) {
		case SignBigPos, SignZero, SignSmallPos:
			return true, true
		case SignBigNeg, SignSmallNeg:
			return false, true
		}
	case CRealEQ:
		switch signOf(c.E) {
		case SignZero:
			return true, true
		case SignBigPos, SignBigNeg, SignSmallPos, SignSmallNeg:
			return false, true
		}
	case CAbsLE:
		switch signOf(c.E) {
		case SignZero, SignSmallPos, SignSmallNeg:
			return true, true // tolerance is non-negative; "small" means strictly inside it
		case SignBigPos, SignBigNeg:
			return false, true // "far more than the tolerance"
		}
	case CAnd:
		all := true
		for _, s := range c.Sub {
			v, ok := s.Decide()
			if ok && !v {
				return false, true
			}
			if !ok {
				all = false
			}
		}
		if all {
			return true, true
		}
	case COr:
		all := true
		for _, s := range c.Sub {
			v, ok := s.Decide()
			if ok && v {
				return true, true
			}
			if !ok {
				all = false
			}
		}
		if all {
			return false, true
		}
	case CNot:
		v, ok := c.Sub[0].Decide()
		if ok {
			return !v, true
		}
	}
	return false, false
}

func (c *Cond) Mentions(v string) bool {
	switch c.Kind {
	case CInt:
		return c.C.P.HasAtom(v)
	case CRealGT, CRealGE, CRealEQ:
		return c.E.Mentions(v)
	case CAbsLE:
		return c.E.Mentions(v) || c.Tau.Mentions(v)
	}
	for _, s := range c.Sub {
		if s.Mentions(v) {
			return true
		}
	}
	return false
}

func (c *Cond) binderDepth() int {
	d := 0
	switch c.Kind {
	case CRealGT, CRealGE, CRealEQ:
		d = c.E.binderDepth()
	case CAbsLE:
		d = c.E.binderDepth()
		if x := c.Tau.binderDepth(); x > d {
			d = x
		}
	}
	for _, s := range c.Sub {
		if x := s.binderDepth(); x > d {
			d = x
		}
	}
	return d
}

func (c *Cond) walkExprs(f func(Expr)) {
	switch c.Kind {
	case CRealGT, CRealGE, CRealEQ:
		f(c.E)
	case CAbsLE:
		f(c.E)
		f(c.Tau)
	}
	for _, s := range c.Sub {
		s.walkExprs(f)
	}
}

func (c *Cond) mapParts(fp func(Poly) Poly, fe func(Expr) Expr) *Cond {
	switch c.Kind {
	case CTrue, CFalse:
		return c
	case CInt:
		return IntCond(Constraint{fp(c.C.P), c.C.Op})
	case CRealGT:
		return RealGT(fe(c.E), Expr{})
	case CRealGE:
		return RealGE(fe(c.E), Expr{})
	case CRealEQ:
		return RealEQ(fe(c.E), Expr{})
	case CAbsLE:
		return AbsLE(fe(c.E), fe(c.Tau))
	case CAnd, COr:
		subs := make([]*Cond, len(c.Sub))
		for i, s := range c.Sub {
			subs[i] = s.mapParts(fp, fe)
		}
		if c.Kind == CAnd {
			return And(subs...)
		}
		return Or(subs...)
	case CNot:
		return Not(c.Sub[0].mapParts(fp, fe))
	}
	return c
}

func (c *Cond) SubstIdx(m map[string]Poly) *Cond {
	return c.mapParts(func(p Poly) Poly { return p.Subst(m) }, func(e Expr) Expr { return e.SubstIdx(m) })
}

func (c *Cond) SubstSym(m map[string]Expr) *Cond {
	return c.mapParts(func(p Poly) Poly { return p }, func(e Expr) Expr { return e.SubstSym(m) })
}

func (c *Cond) SubstLeaf(name string, f func([]Poly) Expr) *Cond {
	return c.mapParts(func(p Poly) Poly { return p }, func(e Expr) Expr { return e.SubstLeaf(name, f) })
}

// IntConstraints flattens a pure-integer conjunction into constraints (ok=false otherwise).
func (c *Cond) IntConstraints() ([]Constraint, bool) {
	switch c.Kind {
	case CTrue:
		return nil, true
	case CInt:
		return []Constraint{c.C}, true
	case CAnd:
		var out []Constraint
		for _, s := range c.Sub {
			cs, ok := s.IntConstraints()
			if !ok {
				return nil, false
			}
			out = append(out, cs...)
		}
		return out, true
	}
	return nil, false
}

/* ---------- numeric evaluation of extracted formulas (witness search only) ---------- */

type EvalEnv struct {
	Ints map[string]int64
	Syms map[string]float64
	Leaf func(name string, idx []int64) float64
}

func (c *Cond) Eval(env *EvalEnv) (bool, error) {
	switch c.Kind {
	case CTrue:
		return true, nil
	case CFalse:
		return false, nil
	case CInt:
		v, ok := c.C.P.Eval(env.Ints)
		if !ok {
			return false, fmt.Errorf("unbound atom in %s", c.C.P.String())
		}
		switch c.C.Op {
		case LE:
			return v <= 0, nil
		case EQ:
			return v == 0, nil
		default:
			return v != 0, nil
		}
	case CRealGT, CRealGE, CRealEQ:
		x, err := c.E.Eval(env)
		if err != nil {
			return false, err
		}
		switch c.Kind {
		case CRealGT:
			return x > 0, nil
		case CRealGE:
			return x >= 0, nil
		default:
			return x == 0, nil
		}
	case CAbsLE:
		x, err := c.E.Eval(env)
		if err != nil {
			return false, err
		}
		t, err := c.Tau.Eval(env)
		if err != nil {
			return false, err
		}
		return math.Abs(x) <= t, nil
	case CAnd:
		for _, s := range c.Sub {
			v, err := s.Eval(env)
			if err != nil {
				return false, err
			}
			if !v {
				return false, nil
			}
		}
		return true, nil
	case COr:
		for _, s := range c.Sub {
			v, err := s.Eval(env)
			if err != nil {
				return false, err
			}
			if v {
				return true, nil
			}
		}
		return false, nil
	case CNot:
		v, err := c.Sub[0].Eval(env)
		return !v, err
	}
	return false, fmt.Errorf("bad cond")
}

func (e Expr) Eval(env *EvalEnv) (float64, error) {
	s := 0.0
	for _, t := range e.terms {
		c, _ := t.c.Float64()
		x := c
		for _, f := range t.f {
			v, err := f.a.eval(env)
			if err != nil {
				return 0, err
			}
			x *= math.Pow(v, float64(f.e))
		}
		s += x
	}
	return s, nil
}

func (a *Atom) eval(env *EvalEnv) (float64, error) {
	switch a.Kind {
	case ASym:
		if v, ok := env.Syms[a.Name]; ok {
			return v, nil
		}
		if v, ok := env.Ints[a.Name]; ok {
			return float64(v), nil
		}
		return 0, fmt.Errorf("unbound symbol %s", a.Name)
	case ALeaf:
		idx := make([]int64, len(a.Idx))
		for i, p := range a.Idx {
			v, ok := p.Eval(env.Ints)
			if !ok {
				return 0, fmt.Errorf("unbound index %s", p.String())
			}
			idx[i] = v
		}
		return env.Leaf(a.Name, idx), nil
	case AFn:
		args := make([]float64, len(a.Args))
		for i, x := range a.Args {
			v, err := x.Eval(env)
			if err != nil {
				return 0, err
			}
			args[i] = v
		}
		switch a.Name {
		case "exp":
			return math.Exp(args[0]), nil
		case "log":
			return math.Log(args[0]), nil
		case "sin":
			return math.Sin(args[0]), nil
		case "cos":
			return math.Cos(args[0]), nil
		case "tan":
			return math.Tan(args[0]), nil
		case "sinh":
			return math.Sinh(args[0]), nil
		case "cosh":
			return math.Cosh(args[0]), nil
		case "tanh":
			return math.Tanh(args[0]), nil
		case "sqrt":
			return math.Sqrt(args[0]), nil
		case "abs":
			return math.Abs(args[0]), nil
		case "clamp":
			return math.Max(args[1], math.Min(args[0], args[2])), nil
		case "max":
			return math.Max(args[0], args[1]), nil
		case "min":
			return math.Min(args[0], args[1]), nil
		case "divzero":
			return math.Inf(1), nil
		case "math_Mod":
			return math.Mod(args[0], args[1]), nil
		case "math_Remainder":
			return math.Remainder(args[0], args[1]), nil
		case "math_Floor":
			return math.Floor(args[0]), nil
		case "math_Ceil":
			return math.Ceil(args[0]), nil
		case "math_Trunc":
			return math.Trunc(args[0]), nil
		case "math_Round":
			return math.Round(args[0]), nil
		case "math_Log2":
			return math.Log2(args[0]), nil
		case "math_Log10":
			return math.Log10(args[0]), nil
		case "math_Log1p":
			return math.Log1p(args[0]), nil
		case "math_Expm1":
			return math.Expm1(args[0]), nil
		case "math_Cbrt":
			return math.Cbrt(args[0]), nil
		case "math_Atan":
			return math.Atan(args[0]), nil
		case "math_Asin":
			return math.Asin(args[0]), nil
		case "math_Acos":
			return math.Acos(args[0]), nil
		case "math_Hypot":
			return math.Hypot(args[0], args[1]), nil
		case "math_Atan2":
			return math.Atan2(args[0], args[1]), nil
		case "math_Exp2":
			return math.Exp2(args[0]), nil
		case "math_Copysign":
			return math.Copysign(args[0], args[1]), nil
		case "math_Dim":
			return math.Dim(args[0], args[1]), nil
		case "math_Erf":
			return math.Erf(args[0]), nil
		case "math_Gamma":
			return math.Gamma(args[0]), nil
		case "isnan", "isinf":
			return 0, nil
		}
		switch a.Name {
		case "const_+Inf":
			return math.Inf(1), nil
		case "const_-Inf":
			return math.Inf(-1), nil
		case "const_NaN":
			return math.NaN(), nil
		}
		return 0, fmt.Errorf("unknown function %s", a.Name)
	case APow:
		b, err := a.Args[0].Eval(env)
		if err != nil {
			return 0, err
		}
		x, err := a.Args[1].Eval(env)
		if err != nil {
			return 0, err
		}
		return math.Pow(b, x), nil
	case ASum:
		return a.Args[0].Eval(env)
	case AInd:
		v, err := a.Cond.Eval(env)
		if err != nil {
			return 0, err
		}
		if v {
			return 1, nil
		}
		return 0, nil
	case ASigma, ABigMax, ABigMin:
		n, ok := a.N.Eval(env.Ints)
		if !ok {
			return 0, fmt.Errorf("unbound range %s", a.N.String())
		}
		old, had := env.Ints[a.Var]
		defer func() {
			if had {
				env.Ints[a.Var] = old
			} else {
				delete(env.Ints, a.Var)
			}
		}()
		acc := 0.0
		if a.Kind == ABigMax {
			acc = math.Inf(-1)
		} else if a.Kind == ABigMin {
			acc = math.Inf(1)
		}
		for i := int64(0); i < n; i++ {
			env.Ints[a.Var] = i
			v, err := a.Args[0].Eval(env)
			if err != nil {
				return 0, err
			}
			switch a.Kind {
			case ASigma:
				acc += v
			case ABigMax:
				acc = math.Max(acc, v)
			default:
				acc = math.Min(acc, v)
			}
		}
		return acc, nil
	}
	return 0, fmt.Errorf("bad atom")
}
