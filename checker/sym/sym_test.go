package sym

import "testing"

func TestBasic(t *testing.T) {
	a, b := LeafE("A", []Poly{PAtom("#0")}), LeafE("B", []Poly{PAtom("#0")})
	x := PowInt(Sub(a, b), 2)
	y := PowInt(Sub(b, a), 2)
	if !x.Equal(y) {
		t.Fatal(x, y)
	}
	v := FreshVar()
	s := Sigma(v, PAtom("n"), Mul(LeafE("W", []Poly{PAtom("#1")}), LeafE("X", []Poly{PAtom("#0"), PAtom(v)})))
	t.Log(s)
	g := SymE("g")
	d := Mul(g, Div(Neg(a), PowInt(b, 2)))
	t.Log(d)
	sg := PowInt(Add(NumI(1), FnE("exp", Neg(a))), -1)
	t.Log(sg)
	// FM
	d0, d1 := PAtom("d0"), PAtom("d1")
	ctx := []Constraint{CGe(d0, PInt(1)), CGt(d0, d1), CGe(d1, PInt(1))}
	if !Entails(ctx, CNe(d0, d1)) {
		t.Fatal("entail")
	}
	if Entails(ctx, CGe(d1, PInt(2))) {
		t.Fatal("entail2")
	}
	m, ok := Model(append(ctx, CEq(d0.Mul(d1), PInt(6))), -2, 6, nil)
	t.Log(m, ok)
}
