package sym

import "sort"

// Piecewise reasoning: two expressions that differ only in how indicator functions [c] over integer
// conditions cut the index space are compared region by region.

// IndConds lists the conditions of the indicator atoms of e (top level, inside function/power arguments and
// inside binder bodies).
func IndConds(e Expr) []*Cond {
	seen := map[string]bool{}
	var out []*Cond
	var walk func(x Expr)
	walk = func(x Expr) {
		for _, t := range x.terms {
			for _, f := range t.f {
				if f.a.Kind == AInd && f.a.Cond != nil {
					if k := f.a.Cond.Key(); !seen[k] {
						seen[k] = true
						out = append(out, f.a.Cond)
					}
					continue
				}
				for _, a := range f.a.Args {
					walk(a)
				}
			}
		}
	}
	walk(e)
	return out
}

// AtomicInts collects the atomic integer constraints of c; ok=false if c has a real-valued part.
func (c *Cond) AtomicInts() ([]Constraint, bool) {
	switch c.Kind {
	case CTrue, CFalse:
		return nil, true
	case CInt:
		return []Constraint{c.C}, true
	case CAnd, COr, CNot:
		var out []Constraint
		for _, s := range c.Sub {
			cs, ok := s.AtomicInts()
			if !ok {
				return nil, false
			}
			out = append(out, cs...)
		}
		return out, true
	}
	return nil, false
}

// EvalAtoms evaluates c given the truth of its atomic integer constraints (keyed by Canon().String()).
func (c *Cond) EvalAtoms(truth map[string]bool) (bool, bool) {
	switch c.Kind {
	case CTrue:
		return true, true
	case CFalse:
		return false, true
	case CInt:
		v, ok := truth[c.C.Canon().String()]
		return v, ok
	case CAnd:
		for _, s := range c.Sub {
			v, ok := s.EvalAtoms(truth)
			if !ok {
				return false, false
			}
			if !v {
				return false, true
			}
		}
		return true, true
	case COr:
		for _, s := range c.Sub {
			v, ok := s.EvalAtoms(truth)
			if !ok {
				return false, false
			}
			if v {
				return true, true
			}
		}
		return false, true
	case CNot:
		v, ok := c.Sub[0].EvalAtoms(truth)
		return !v, ok
	}
	return false, false
}

// SubstInd replaces indicator atoms whose condition key is in m by 1 / 0.
func (e Expr) SubstInd(m map[string]bool) Expr {
	if len(e.terms) == 0 || len(m) == 0 {
		return e
	}
	return e.mapAtoms(func(a *Atom) Expr { return a.substInd(m) })
}

func (a *Atom) substInd(m map[string]bool) Expr {
	switch a.Kind {
	case AInd:
		if a.Cond != nil {
			if v, ok := m[a.Cond.Key()]; ok {
				if v {
					return NumI(1)
				}
				return Expr{}
			}
		}
		return atomExpr(a)
	case AFn:
		args := make([]Expr, len(a.Args))
		for i, x := range a.Args {
			args[i] = x.SubstInd(m)
		}
		return FnE(a.Name, args...)
	case APow:
		return PowE(a.Args[0].SubstInd(m), a.Args[1].SubstInd(m))
	case ASum:
		return sumAtom(a.Args[0].SubstInd(m))
	}
	return atomExpr(a)
}

// PiecewiseEqual decides got == want by splitting the integer space along the atomic constraints of their
// indicator conditions: in every region that is feasible together with ctx, the indicators are replaced by
// 0/1, index atoms pinned by the region are substituted, and the normal forms must coincide.  It returns
// false when the expressions have no integer indicators, too many of them, or some region differs.
func PiecewiseEqual(got, want Expr, ctx []Constraint) bool {
	conds := append(IndConds(got), IndConds(want)...)
	if len(conds) == 0 {
		return false
	}
	atomSet := map[string]Constraint{}
	var usable []*Cond
	for _, c := range conds {
		cs, ok := c.AtomicInts()
		if !ok {
			continue
		}
		usable = append(usable, c)
		for _, a := range cs {
			a = a.Canon()
			atomSet[a.String()] = a
		}
	}
	if len(usable) == 0 || len(atomSet) > 10 {
		return false
	}
	keys := make([]string, 0, len(atomSet))
	for k := range atomSet {
		keys = append(keys, k)
	}
	sort.Strings(keys)
	regions := 0
	truth := map[string]bool{}
	var rec func(i int, cs []Constraint) bool
	rec = func(i int, cs []Constraint) bool {
		if !Sat(cs) {
			return true // empty region
		}
		if i < len(keys) {
			a := atomSet[keys[i]]
			truth[keys[i]] = true
			if !rec(i+1, append(append([]Constraint{}, cs...), a)) {
				return false
			}
			truth[keys[i]] = false
			if !rec(i+1, append(append([]Constraint{}, cs...), a.Not())) {
				return false
			}
			delete(truth, keys[i])
			return true
		}
		regions++
		if regions > 300 {
			return false
		}
		m := map[string]bool{}
		for _, c := range usable {
			if v, ok := c.EvalAtoms(truth); ok {
				m[c.Key()] = v
			}
		}
		g, w := got.SubstInd(m), want.SubstInd(m)
		if g.Key() == w.Key() {
			return true
		}
		// atoms pinned to a constant by the region (e.g. #0 <= 1 ∧ 1 <= #0)
		pin := map[string]Poly{}
		atoms := map[string]bool{}
		for _, c := range cs {
			for _, a := range c.P.Atoms() {
				atoms[a] = true
			}
		}
		for a := range atoms {
			if _, isStruct := structAtoms[a]; isStruct {
				continue
			}
			for k := int64(0); k <= 8; k++ {
				if Entails(cs, CEq(PAtom(a), PInt(k))) {
					pin[a] = PInt(k)
					break
				}
			}
		}
		if len(pin) > 0 {
			g, w = g.SubstIdx(pin), w.SubstIdx(pin)
			// pinned values may decide further indicators
			if g.Key() == w.Key() {
				return true
			}
		}
		return false
	}
	return rec(0, append([]Constraint{}, ctx...)) && regions > 0
}

// LeafRef names one tensor element occurring in an expression.
type LeafRef struct {
	Name string
	Idx  []Poly
}

// LeafAtoms lists the distinct tensor elements occurring anywhere in the given expressions.
func LeafAtoms(es ...Expr) []LeafRef {
	seen := map[string]bool{}
	var out []LeafRef
	var walk func(x Expr)
	walk = func(x Expr) {
		for _, t := range x.terms {
			for _, f := range t.f {
				if f.a.Kind == ALeaf {
					if k := f.a.Key(); !seen[k] {
						seen[k] = true
						out = append(out, LeafRef{f.a.Name, f.a.Idx})
					}
					continue
				}
				for _, a := range f.a.Args {
					walk(a)
				}
				if f.a.Cond != nil {
					f.a.Cond.walkExprs(walk)
				}
			}
		}
	}
	for _, e := range es {
		walk(e)
	}
	return out
}

// Exprs returns the real-valued expressions occurring in c.
func (c *Cond) Exprs() []Expr {
	var out []Expr
	c.walkExprs(func(e Expr) { out = append(out, e) })
	return out
}

// SingleTermNoInverse: e is one product term without negative powers, sums-as-atoms or indicators: a formula
// whose overflow in evaluation is the overflow of the value itself.
func SingleTermNoInverse(e Expr) bool {
	if len(e.terms) != 1 {
		return false
	}
	for _, f := range e.terms[0].f {
		if f.e < 0 || f.a.Kind == ASum || f.a.Kind == AInd || f.a.Kind == ASigma || f.a.Kind == ABigMax || f.a.Kind == ABigMin {
			return false
		}
	}
	return true
}

// RoundConsts maps every rational constant of e (coefficients, and constants inside function / power / clamp
// arguments and conditions) to the rational value of its nearest float64: `1 - eps` computed at run time and the
// compiler-folded constant `1 - eps` denote the same double although their exact rationals differ by ~1e-28.
func (e Expr) RoundConsts() Expr {
	out := Expr{}
	for _, t := range e.terms {
		f, _ := t.c.Float64()
		x := NumF(f)
		for _, fc := range t.f {
			x = Mul(x, PowInt(fc.a.roundConsts(), fc.e))
		}
		out = Add(out, x)
	}
	return out
}

func (a *Atom) roundConsts() Expr {
	switch a.Kind {
	case AFn:
		args := make([]Expr, len(a.Args))
		for i, x := range a.Args {
			args[i] = x.RoundConsts()
		}
		return FnE(a.Name, args...)
	case APow:
		return PowE(a.Args[0].RoundConsts(), a.Args[1].RoundConsts())
	case ASum:
		return sumAtom(a.Args[0].RoundConsts())
	case AInd:
		if a.Cond != nil {
			return Ind(a.Cond.mapParts(func(p Poly) Poly { return p }, func(x Expr) Expr { return x.RoundConsts() }))
		}
	case ASigma, ABigMax, ABigMin:
		v := FreshVar()
		body := a.Args[0].SubstIdx(map[string]Poly{a.Var: PAtom(v)}).RoundConsts()
		switch a.Kind {
		case ASigma:
			return Sigma(v, a.N, body)
		case ABigMax:
			return BigMax(v, a.N, body)
		default:
			return BigMin(v, a.N, body)
		}
	}
	return atomExpr(a)
}
