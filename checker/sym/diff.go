package sym

import "math/big"

// Diff differentiates e with respect to the tensor leaf `name`, treating every occurrence of the leaf
// as the same scalar variable.  It is used for point-wise operations only, where all occurrences carry
// the identity index; ok=false if the leaf occurs under a binder or with differing indices.
func Diff(e Expr, name string) (Expr, bool) {
	var idxKey string
	okAll := true
	var dE func(x Expr) Expr
	var dA func(a *Atom) Expr
	dE = func(x Expr) Expr {
		out := Expr{}
		for _, t := range x.terms {
			// product rule
			for i, f := range t.f {
				da := dA(f.a)
				if da.IsZero() {
					continue
				}
				rest := Expr{terms: []term{{c: new(big.Rat).Set(t.c), f: nil}}}
				for j, g := range t.f {
					if j == i {
						continue
					}
					rest = Mul(rest, Expr{terms: []term{{c: big.NewRat(1, 1), f: []fac{g}}}})
				}
				// d(a^e) = e·a^(e-1)·da
				pw := Mul(NumI(int64(f.e)), PowInt(atomExpr(f.a), f.e-1))
				if f.a.Kind == AInd {
					continue
				}
				out = Add(out, Mul(Mul(rest, pw), da))
			}
		}
		return out
	}
	dA = func(a *Atom) Expr {
		switch a.Kind {
		case ASym:
			return Expr{}
		case ALeaf:
			if a.Name != name {
				return Expr{}
			}
			k := ""
			for _, p := range a.Idx {
				k += p.String() + ","
			}
			if idxKey == "" {
				idxKey = k
			} else if idxKey != k {
				okAll = false
			}
			return NumI(1)
		case AFn:
			x := a.Args[0]
			switch a.Name {
			case "exp":
				return Mul(atomExpr(a), dE(x))
			case "log":
				return Mul(PowInt(x, -1), dE(x))
			case "sin":
				return Mul(FnE("cos", x), dE(x))
			case "cos":
				return Mul(Neg(FnE("sin", x)), dE(x))
			case "tan":
				return Mul(PowInt(FnE("cos", x), -2), dE(x))
			case "sinh":
				return Mul(FnE("cosh", x), dE(x))
			case "cosh":
				return Mul(FnE("sinh", x), dE(x))
			case "tanh":
				return Mul(PowInt(FnE("cosh", x), -2), dE(x))
			case "sqrt":
				return Mul(Mul(Num(big.NewRat(1, 2)), PowInt(atomExpr(a), -1)), dE(x))
			case "clamp":
				dx := dE(x)
				if dx.IsZero() {
					return Expr{}
				}
				return Mul(Mul(Ind(RealGT(x, a.Args[1])), Ind(RealLT(x, a.Args[2]))), dx)
			case "max", "min":
				y := a.Args[1]
				dx, dy := dE(x), dE(y)
				if dx.IsZero() && dy.IsZero() {
					return Expr{}
				}
				var cx, cy *Cond
				if a.Name == "max" {
					cx, cy = RealGT(x, y), RealGT(y, x)
				} else {
					cx, cy = RealLT(x, y), RealLT(y, x)
				}
				return Add(Mul(Ind(cx), dx), Mul(Ind(cy), dy))
			}
			for _, arg := range a.Args {
				if !dE(arg).IsZero() {
					okAll = false
				}
			}
			return Expr{}
		case APow:
			base, ex := a.Args[0], a.Args[1]
			if !dE(ex).IsZero() {
				okAll = false
				return Expr{}
			}
			db := dE(base)
			if db.IsZero() {
				return Expr{}
			}
			return Mul(Mul(ex, PowE(base, Sub(ex, NumI(1)))), db)
		case ASum:
			return dE(a.Args[0])
		case AInd:
			return Expr{}
		case ASigma, ABigMax, ABigMin:
			if a.Args[0].mentionsLeaf(name) {
				okAll = false
			}
			return Expr{}
		}
		return Expr{}
	}
	r := dE(e)
	return r, okAll
}

func (e Expr) mentionsLeaf(name string) bool {
	for _, l := range e.Leaves() {
		if l == name {
			return true
		}
	}
	return false
}
