// Package sym is the symbolic algebra used by the abstract interpreter: integer polynomials over named
// atoms (dimension sizes, index variables, integer arguments), a small decision procedure for
// conjunctions of linear constraints over them, and a normaliser for real-valued element expressions.
// Nothing in here evaluates repository code.
package sym

import (
	"fmt"
	"sort"
	"strings"
)

// Poly is a multivariate polynomial with int64 coefficients.  Keys of the map are canonical monomials
// ("" for the constant term, otherwise atoms joined by '*', each atom possibly with ^k), values non-zero.
type Poly struct {
	t map[string]int64
}

type mono []mfac
type mfac struct {
	a string
	e int
}

func parseMono(k string) mono {
	if k == "" {
		return nil
	}
	parts := strings.Split(k, "*")
	m := make(mono, 0, len(parts))
	for _, p := range parts {
		a, e := p, 1
		if i := strings.LastIndex(p, "^"); i >= 0 {
			fmt.Sscanf(p[i+1:], "%d", &e)
			a = p[:i]
		}
		m = append(m, mfac{a, e})
	}
	return m
}

func (m mono) key() string {
	sort.Slice(m, func(i, j int) bool { return m[i].a < m[j].a })
	var sb strings.Builder
	for i, f := range m {
		if i > 0 {
			sb.WriteByte('*')
		}
		sb.WriteString(f.a)
		if f.e != 1 {
			fmt.Fprintf(&sb, "^%d", f.e)
		}
	}
	return sb.String()
}

func mulMono(a, b string) string {
	if a == "" {
		return b
	}
	if b == "" {
		return a
	}
	ma, mb := parseMono(a), parseMono(b)
	acc := map[string]int{}
	for _, f := range ma {
		acc[f.a] += f.e
	}
	for _, f := range mb {
		acc[f.a] += f.e
	}
	m := make(mono, 0, len(acc))
	for k, e := range acc {
		m = append(m, mfac{k, e})
	}
	return m.key()
}

// Atom names must not contain '*' or '^'.
func PInt(c int64) Poly {
	p := Poly{t: map[string]int64{}}
	if c != 0 {
		p.t[""] = c
	}
	return p
}

func PAtom(name string) Poly {
	if strings.ContainsAny(name, "*^") {
		panic("bad atom name " + name)
	}
	return Poly{t: map[string]int64{name: 1}}
}

func (p Poly) clone() Poly {
	q := Poly{t: make(map[string]int64, len(p.t))}
	for k, v := range p.t {
		q.t[k] = v
	}
	return q
}

func (p Poly) Add(q Poly) Poly {
	r := p.clone()
	for k, v := range q.t {
		r.t[k] += v
		if r.t[k] == 0 {
			delete(r.t, k)
		}
	}
	return r
}

func (p Poly) Neg() Poly {
	r := Poly{t: make(map[string]int64, len(p.t))}
	for k, v := range p.t {
		r.t[k] = -v
	}
	return r
}

func (p Poly) Sub(q Poly) Poly { return p.Add(q.Neg()) }

func (p Poly) Mul(q Poly) Poly {
	r := Poly{t: map[string]int64{}}
	for k1, v1 := range p.t {
		for k2, v2 := range q.t {
			k := mulMono(k1, k2)
			r.t[k] += v1 * v2
			if r.t[k] == 0 {
				delete(r.t, k)
			}
		}
	}
	return r
}

func (p Poly) AddInt(c int64) Poly { return p.Add(PInt(c)) }
func (p Poly) MulInt(c int64) Poly { return p.Mul(PInt(c)) }

func (p Poly) IsZero() bool { return len(p.t) == 0 }

// Const reports the value if p is a constant.
func (p Poly) Const() (int64, bool) {
	if len(p.t) == 0 {
		return 0, true
	}
	if len(p.t) == 1 {
		if v, ok := p.t[""]; ok {
			return v, true
		}
	}
	return 0, false
}

func (p Poly) Equal(q Poly) bool {
	if len(p.t) != len(q.t) {
		return false
	}
	for k, v := range p.t {
		if q.t[k] != v {
			return false
		}
	}
	return true
}

// IsAtom reports whether p is exactly one atom with coefficient 1.
func (p Poly) IsAtom() (string, bool) {
	if len(p.t) != 1 {
		return "", false
	}
	for k, v := range p.t {
		if v == 1 && k != "" && !strings.ContainsAny(k, "*^") {
			return k, true
		}
	}
	return "", false
}

// Atoms returns the atom names occurring in p, sorted.
func (p Poly) Atoms() []string {
	set := map[string]bool{}
	for k := range p.t {
		for _, f := range parseMono(k) {
			set[f.a] = true
		}
	}
	out := make([]string, 0, len(set))
	for a := range set {
		out = append(out, a)
	}
	sort.Strings(out)
	return out
}

func (p Poly) HasAtom(name string) bool {
	for k := range p.t {
		for _, f := range parseMono(k) {
			if f.a == name {
				return true
			}
			if sa, ok := structAtoms[f.a]; ok {
				if sa.Lin.HasAtom(name) {
					return true
				}
				for _, x := range sa.Shape {
					if x.HasAtom(name) {
						return true
					}
				}
			}
		}
	}
	return false
}

// StructAtom is the k-th component of the row-major unravelling of a linear position in a shape.
type StructAtom struct {
	K     int
	Lin   Poly
	Shape []Poly
	Div   bool // integer quotient Lin / Shape[0] (truncated, as Go's / on non-negative operands)
	Mod   bool // integer remainder Lin % Shape[0]
}

var structAtoms = map[string]*StructAtom{}

func sanitizeAtom(s string) string {
	s = strings.ReplaceAll(s, "*", "×")
	s = strings.ReplaceAll(s, "^", "↑")
	return s
}

// Ravel is the row-major linear position of idx in shape.
func Ravel(idx []Poly, shape []Poly) Poly {
	lin := PInt(0)
	stride := PInt(1)
	for k := len(shape) - 1; k >= 0; k-- {
		lin = lin.Add(idx[k].Mul(stride))
		stride = stride.Mul(shape[k])
	}
	return lin
}

// Unravel returns component k of the multi-index of linear position lin in shape (as a structured atom
// unless it simplifies).
func Unravel(k int, lin Poly, shape []Poly) Poly {
	if len(shape) == 1 {
		return lin
	}
	if c, ok := shape[k].Const(); ok && c == 1 {
		return PInt(0)
	}
	// fully concrete: compute the component
	if lv, ok := lin.Const(); ok {
		stride := int64(1)
		allC := true
		for i := len(shape) - 1; i > k; i-- {
			d, ok := shape[i].Const()
			if !ok || d <= 0 {
				allC = false
				break
			}
			stride *= d
		}
		if d, ok := shape[k].Const(); ok && allC && d > 0 {
			return PInt((lv / stride) % d)
		}
	}
	var sb strings.Builder
	fmt.Fprintf(&sb, "unr⟨%d|%s|", k, lin.String())
	for i, x := range shape {
		if i > 0 {
			sb.WriteByte(',')
		}
		sb.WriteString(x.String())
	}
	sb.WriteString("⟩")
	name := sanitizeAtom(sb.String())
	if _, ok := structAtoms[name]; !ok {
		structAtoms[name] = &StructAtom{K: k, Lin: lin, Shape: append([]Poly{}, shape...)}
	}
	return Poly{t: map[string]int64{name: 1}}
}

// Subst replaces atoms by polynomials.
func (p Poly) Subst(m map[string]Poly) Poly {
	if len(m) == 0 {
		return p
	}
	r := PInt(0)
	for k, v := range p.t {
		term := PInt(v)
		for _, f := range parseMono(k) {
			var base Poly
			if s, ok := m[f.a]; ok {
				base = s
			} else if sa, ok := structAtoms[f.a]; ok {
				sh := make([]Poly, len(sa.Shape))
				for i, x := range sa.Shape {
					sh[i] = x.Subst(m)
				}
				if sa.Div {
					base = IDiv(sa.Lin.Subst(m), sh[0])
				} else if sa.Mod {
					base = IMod(sa.Lin.Subst(m), sh[0])
				} else {
					base = Unravel(sa.K, sa.Lin.Subst(m), sh)
				}
			} else {
				base = PAtom(f.a)
			}
			for i := 0; i < f.e; i++ {
				term = term.Mul(base)
			}
		}
		r = r.Add(term)
	}
	return r
}

// Monomials returns the monomial keys sorted (constant "" first).
func (p Poly) Monomials() []string {
	ks := make([]string, 0, len(p.t))
	for k := range p.t {
		ks = append(ks, k)
	}
	sort.Strings(ks)
	return ks
}

func (p Poly) Coef(mono string) int64 { return p.t[mono] }

func (p Poly) String() string {
	if len(p.t) == 0 {
		return "0"
	}
	ks := p.Monomials()
	var sb strings.Builder
	first := true
	// non-constant monomials first, constant last: reads better (d0-1)
	order := make([]string, 0, len(ks))
	for _, k := range ks {
		if k != "" {
			order = append(order, k)
		}
	}
	if _, ok := p.t[""]; ok {
		order = append(order, "")
	}
	for _, k := range order {
		v := p.t[k]
		if v < 0 {
			sb.WriteString("-")
			v = -v
		} else if !first {
			sb.WriteString("+")
		}
		first = false
		switch {
		case k == "":
			fmt.Fprintf(&sb, "%d", v)
		case v == 1:
			sb.WriteString(k)
		default:
			fmt.Fprintf(&sb, "%d*%s", v, k)
		}
	}
	return sb.String()
}

// Eval evaluates p under an integer assignment (missing atoms make ok=false).
func (p Poly) Eval(env map[string]int64) (int64, bool) {
	var s int64
	for k, v := range p.t {
		term := v
		for _, f := range parseMono(k) {
			x, ok := env[f.a]
			if !ok {
				if sa, isS := structAtoms[f.a]; isS {
					x, ok = sa.eval(env)
				}
			}
			if !ok {
				return 0, false
			}
			for i := 0; i < f.e; i++ {
				term *= x
			}
		}
		s += term
	}
	return s, true
}

func (sa *StructAtom) eval(env map[string]int64) (int64, bool) {
	lin, ok := sa.Lin.Eval(env)
	if !ok {
		return 0, false
	}
	if sa.Div || sa.Mod {
		d, ok := sa.Shape[0].Eval(env)
		if !ok || d == 0 {
			return 0, false
		}
		if sa.Mod {
			return lin % d, true
		}
		return lin / d, true
	}
	stride := int64(1)
	for i := len(sa.Shape) - 1; i > sa.K; i-- {
		d, ok := sa.Shape[i].Eval(env)
		if !ok || d <= 0 {
			return 0, false
		}
		stride *= d
	}
	d, ok := sa.Shape[sa.K].Eval(env)
	if !ok || d <= 0 {
		return 0, false
	}
	return (lin / stride) % d, true
}

// IDiv is the integer quotient p / q (Go semantics), kept symbolic unless both are constants.
func IDiv(p, q Poly) Poly {
	cp, ok1 := p.Const()
	cq, ok2 := q.Const()
	if ok1 && ok2 && cq != 0 {
		return PInt(cp / cq)
	}
	if ok2 && cq == 1 {
		return p
	}
	name := sanitizeAtom("idiv⟨" + p.String() + "|" + q.String() + "⟩")
	if _, ok := structAtoms[name]; !ok {
		structAtoms[name] = &StructAtom{Lin: p, Shape: []Poly{q}, Div: true}
	}
	return Poly{t: map[string]int64{name: 1}}
}

// IMod is the integer remainder p % q (Go semantics), kept symbolic unless both are constants.
func IMod(p, q Poly) Poly {
	cp, ok1 := p.Const()
	cq, ok2 := q.Const()
	if ok1 && ok2 && cq != 0 {
		return PInt(cp % cq)
	}
	if ok2 && (cq == 1 || cq == -1) {
		return PInt(0)
	}
	name := sanitizeAtom("imod⟨" + p.String() + "|" + q.String() + "⟩")
	if _, ok := structAtoms[name]; !ok {
		structAtoms[name] = &StructAtom{Lin: p, Shape: []Poly{q}, Mod: true}
	}
	return Poly{t: map[string]int64{name: 1}}
}

// IsStructAtom reports whether name denotes a derived atom (unravelled index, quotient, remainder).
func IsStructAtom(name string) bool {
	_, ok := structAtoms[name]
	return ok
}
