package sym

import (
	"fmt"
	"math"
	"math/big"
	"sort"
	"strings"
)

// Expr is a real-valued symbolic expression in canonical form: a sum of terms, each a rational
// coefficient times a product of atoms raised to non-zero integer powers.  The zero value is 0.
type Expr struct {
	terms []term
}

type term struct {
	c *big.Rat
	f []fac
}

type fac struct {
	a *Atom
	e int
}

type AKind int

const (
	ASym    AKind = iota // scalar real symbol
	ALeaf                // element of a named tensor at an index tuple
	AFn                  // function application
	APow                 // base^exponent with a non-integer-constant exponent
	ASum                 // a parenthesised sum used as a factor (denominators, large powers)
	AInd                 // indicator of a condition (0/1)
	ASigma               // Σ_{v=0}^{N-1} body
	ABigMax              // max_{v<N} body
	ABigMin              // min_{v<N} body
)

type Atom struct {
	Kind AKind
	Name string
	Idx  []Poly
	Args []Expr
	Cond *Cond
	Var  string
	N    Poly
	key  string
}

/* ---------- facts used for order case splits ---------- */

type Sign int

const (
	SignUnknown Sign = iota
	SignBigPos       // > tolerance (strictly positive, far from 0)
	SignBigNeg
	SignZero
	SignSmallPos // strictly positive but within the equality tolerance
	SignSmallNeg
)

// Facts maps canonical keys of expressions to their sign class in the current case.
type Facts map[string]Sign

// ActiveFacts is consulted while building indicators and max/min; set by the driver around one
// evaluation (the checker is single-threaded per evaluation).
var ActiveFacts Facts

// PositiveSym, when set, tells whether a real symbol is known to be strictly positive (dimension sizes).
var PositiveSym func(name string) bool

// provablyPositive is a syntactic sign analysis: sums and products of positive things, sqrt/exp/cosh of
// anything admissible, powers of positive bases.
func provablyPositive(e Expr) bool {
	if len(e.terms) == 0 {
		return false
	}
	for _, t := range e.terms {
		if t.c.Sign() <= 0 {
			return false
		}
		for _, f := range t.f {
			if !atomPositive(f.a) {
				return false
			}
		}
	}
	return true
}

func atomPositive(a *Atom) bool {
	switch a.Kind {
	case ASym:
		return PositiveSym != nil && PositiveSym(a.Name)
	case AFn:
		switch a.Name {
		case "exp", "cosh":
			return true
		case "sqrt":
			return provablyPositive(a.Args[0])
		}
	case APow:
		return provablyPositive(a.Args[0])
	case ASum:
		return provablyPositive(a.Args[0])
	}
	return false
}

func signOf(e Expr) Sign {
	if s := signOfCore(e); s != SignUnknown {
		return s
	}
	// an infinite constant dominates every finite term (elements and symbols stand for finite reals)
	{
		inf, n := 0, 0
		for _, t := range e.terms {
			for _, f := range t.f {
				if f.a.Kind == AFn && strings.HasPrefix(f.a.Name, "const_") {
					n++
					if len(t.f) == 1 && f.e == 1 && (f.a.Name == "const_+Inf" || f.a.Name == "const_-Inf") {
						inf = t.c.Sign()
						if f.a.Name == "const_-Inf" {
							inf = -inf
						}
					}
				}
			}
		}
		if n == 1 && inf > 0 {
			return SignBigPos
		}
		if n == 1 && inf < 0 {
			return SignBigNeg
		}
	}
	// a quantity that is far from zero keeps its sign when a tiny constant (a tolerance) is added
	if ActiveFacts != nil && len(e.terms) >= 2 {
		var rest []term
		var c *big.Rat
		for _, t := range e.terms {
			if len(t.f) == 0 {
				c = t.c
			} else {
				rest = append(rest, t)
			}
		}
		if c != nil {
			if f, _ := c.Float64(); f > -1e-6 && f < 1e-6 {
				switch s := signOfCore(Expr{terms: rest}); s {
				case SignBigPos, SignBigNeg:
					return s
				case SignSmallPos, SignSmallNeg:
					// |rest| is strictly inside the tolerance: the tolerance-sized constant decides
					if f > 0 {
						return SignSmallPos
					}
					return SignSmallNeg
				}
			}
		}
	}
	if provablyPositive(e) {
		return SignBigPos
	}
	if provablyPositive(Neg(e)) {
		return SignBigNeg
	}
	return SignUnknown
}

func signOfCore(e Expr) Sign {
	if ActiveFacts == nil {
		if r, ok := e.Const(); ok {
			switch r.Sign() {
			case 0:
				return SignZero
			case 1:
				return SignBigPos
			default:
				return SignBigNeg
			}
		}
		return SignUnknown
	}
	if r, ok := e.Const(); ok {
		switch r.Sign() {
		case 0:
			return SignZero
		case 1:
			return SignBigPos
		default:
			return SignBigNeg
		}
	}
	if s, ok := ActiveFacts[e.Key()]; ok {
		return s
	}
	if s, ok := ActiveFacts[Neg(e).Key()]; ok {
		switch s {
		case SignBigPos:
			return SignBigNeg
		case SignBigNeg:
			return SignBigPos
		case SignSmallPos:
			return SignSmallNeg
		case SignSmallNeg:
			return SignSmallPos
		}
		return s
	}
	return SignUnknown
}

/* ---------- constructors ---------- */

func Num(r *big.Rat) Expr {
	if r.Sign() == 0 {
		return Expr{}
	}
	return Expr{terms: []term{{c: new(big.Rat).Set(r)}}}
}

func NumI(i int64) Expr { return Num(new(big.Rat).SetInt64(i)) }

// nanInPlay is set once a NaN constant has been created; from then on arithmetic absorbs it (IEEE: any
// arithmetic on NaN is NaN) and every ordered comparison / equality involving it is false.
var nanInPlay bool

func nanE() Expr { return atomExpr(&Atom{Kind: AFn, Name: "const_NaN"}) }

func NumF(f float64) Expr {
	if math.IsNaN(f) {
		nanInPlay = true
		return nanE()
	}
	if math.IsInf(f, 0) {
		return FnE(fmt.Sprintf("const_%v", f))
	}
	r := new(big.Rat)
	r.SetFloat64(f)
	return Num(r)
}

func atomExpr(a *Atom) Expr {
	return Expr{terms: []term{{c: big.NewRat(1, 1), f: []fac{{a, 1}}}}}
}

func SymE(name string) Expr { return atomExpr(&Atom{Kind: ASym, Name: name}) }

func LeafE(name string, idx []Poly) Expr {
	return atomExpr(&Atom{Kind: ALeaf, Name: name, Idx: append([]Poly{}, idx...)})
}

// PolyE converts an integer polynomial into a real expression (atoms become real symbols).
func PolyE(p Poly) Expr {
	out := Expr{}
	for _, k := range p.Monomials() {
		t := NumI(p.Coef(k))
		for _, f := range parseMono(k) {
			t = Mul(t, PowInt(SymE(f.a), f.e))
		}
		out = Add(out, t)
	}
	return out
}

func (e Expr) IsZero() bool { return len(e.terms) == 0 }

func (e Expr) Const() (*big.Rat, bool) {
	if len(e.terms) == 0 {
		return new(big.Rat), true
	}
	if len(e.terms) == 1 && len(e.terms[0].f) == 0 {
		return e.terms[0].c, true
	}
	return nil, false
}

func (e Expr) IsOne() bool {
	r, ok := e.Const()
	return ok && r.Cmp(big.NewRat(1, 1)) == 0
}

/* ---------- keys ---------- */

func (a *Atom) Key() string {
	if a.key != "" {
		return a.key
	}
	var sb strings.Builder
	switch a.Kind {
	case ASym:
		sb.WriteString(a.Name)
	case ALeaf:
		sb.WriteString(a.Name)
		sb.WriteByte('[')
		for i, p := range a.Idx {
			if i > 0 {
				sb.WriteByte(',')
			}
			sb.WriteString(p.String())
		}
		sb.WriteByte(']')
	case AFn:
		sb.WriteString(a.Name)
		sb.WriteByte('(')
		for i, x := range a.Args {
			if i > 0 {
				sb.WriteString(", ")
			}
			sb.WriteString(x.Key())
		}
		sb.WriteByte(')')
	case APow:
		fmt.Fprintf(&sb, "pow(%s, %s)", a.Args[0].Key(), a.Args[1].Key())
	case ASum:
		fmt.Fprintf(&sb, "(%s)", a.Args[0].Key())
	case AInd:
		fmt.Fprintf(&sb, "[%s]", a.Cond.Key())
	case ASigma:
		fmt.Fprintf(&sb, "Σ{%s<%s}(%s)", a.Var, a.N.String(), a.Args[0].Key())
	case ABigMax:
		fmt.Fprintf(&sb, "MAX{%s<%s}(%s)", a.Var, a.N.String(), a.Args[0].Key())
	case ABigMin:
		fmt.Fprintf(&sb, "MIN{%s<%s}(%s)", a.Var, a.N.String(), a.Args[0].Key())
	}
	a.key = sb.String()
	return a.key
}

func (t term) facKey() string {
	var sb strings.Builder
	for i, f := range t.f {
		if i > 0 {
			sb.WriteString("·")
		}
		sb.WriteString(f.a.Key())
		if f.e != 1 {
			fmt.Fprintf(&sb, "^%d", f.e)
		}
	}
	return sb.String()
}

func (e Expr) Key() string {
	if len(e.terms) == 0 {
		return "0"
	}
	var sb strings.Builder
	for i, t := range e.terms {
		fk := t.facKey()
		c := t.c
		if i > 0 {
			if c.Sign() < 0 {
				sb.WriteString(" - ")
				c = new(big.Rat).Neg(c)
			} else {
				sb.WriteString(" + ")
			}
		} else if c.Sign() < 0 {
			sb.WriteString("-")
			c = new(big.Rat).Neg(c)
		}
		one := c.Cmp(big.NewRat(1, 1)) == 0
		switch {
		case fk == "":
			sb.WriteString(ratStr(c))
		case one:
			sb.WriteString(fk)
		default:
			sb.WriteString(ratStr(c))
			sb.WriteString("·")
			sb.WriteString(fk)
		}
	}
	return sb.String()
}

func ratStr(r *big.Rat) string {
	if r.IsInt() {
		return r.Num().String()
	}
	s := r.RatString()
	if len(s) > 24 {
		f, _ := r.Float64()
		return fmt.Sprintf("%s{≈%.6g}", shortHash(s), f)
	}
	return s
}

func shortHash(s string) string {
	var h uint64 = 1469598103934665603
	for i := 0; i < len(s); i++ {
		h ^= uint64(s[i])
		h *= 1099511628211
	}
	return fmt.Sprintf("r%x", h&0xffffffffff)
}

func (e Expr) String() string { return e.Key() }

func (e Expr) Equal(o Expr) bool { return e.Key() == o.Key() }

/* ---------- arithmetic ---------- */

func normTerms(ts []term) Expr {
	m := map[string]*term{}
	var order []string
	for _, t := range ts {
		if t.c.Sign() == 0 {
			continue
		}
		k := t.facKey()
		if o, ok := m[k]; ok {
			o.c = new(big.Rat).Add(o.c, t.c)
		} else {
			tt := term{c: new(big.Rat).Set(t.c), f: t.f}
			m[k] = &tt
			order = append(order, k)
		}
	}
	sort.Strings(order)
	out := Expr{}
	for _, k := range order {
		if m[k].c.Sign() != 0 {
			out.terms = append(out.terms, *m[k])
		}
	}
	return out
}

// closedInf: e is a closed extended-real constant (numerals and ±Inf constants only) that involves an infinity;
// its IEEE value.  Arithmetic among such constants is folded in float64 (Inf-Inf and 0·Inf are NaN, c·Inf is ±Inf)
// instead of treating the infinity as an algebraic symbol.
func closedInf(e Expr) (float64, bool) {
	has := false
	for _, t := range e.terms {
		for _, f := range t.f {
			if f.a.Kind != AFn || len(f.a.Args) != 0 || !strings.HasPrefix(f.a.Name, "const_") {
				return 0, false
			}
			if f.a.Name == "const_+Inf" || f.a.Name == "const_-Inf" {
				has = true
			}
		}
	}
	if !has {
		return 0, false
	}
	v, err := e.Eval(nil)
	if err != nil {
		return 0, false
	}
	return v, true
}

// ClosedInf: see closedInf.
func ClosedInf(e Expr) (float64, bool) { return closedInf(e) }

// ClosedConst: see closedConst.
func ClosedConst(e Expr) (float64, bool) { return closedConst(e) }

// closedConst: a closed constant with or without infinities.
func closedConst(e Expr) (float64, bool) {
	if v, ok := closedInf(e); ok {
		return v, true
	}
	if r, ok := e.Const(); ok {
		f, _ := r.Float64()
		return f, true
	}
	return 0, false
}

func Add(a, b Expr) Expr {
	if nanInPlay && (HasNaN(a) || HasNaN(b)) {
		return nanE()
	}
	if va, ok := closedInf(a); ok {
		if vb, ok := closedConst(b); ok {
			return NumF(va + vb)
		}
	} else if vb, ok := closedInf(b); ok {
		if va, ok := closedConst(a); ok {
			return NumF(va + vb)
		}
	}
	ts := make([]term, 0, len(a.terms)+len(b.terms))
	ts = append(ts, a.terms...)
	ts = append(ts, b.terms...)
	return normTerms(ts)
}

func Neg(a Expr) Expr { return ScaleR(big.NewRat(-1, 1), a) }

func Sub(a, b Expr) Expr { return Add(a, Neg(b)) }

func ScaleR(r *big.Rat, a Expr) Expr {
	if r.Sign() == 0 {
		return Expr{}
	}
	out := Expr{terms: make([]term, len(a.terms))}
	for i, t := range a.terms {
		out.terms[i] = term{c: new(big.Rat).Mul(t.c, r), f: t.f}
	}
	return out
}

func mulFacs(a, b []fac) []fac {
	m := map[string]*fac{}
	var keys []string
	for _, fs := range [][]fac{a, b} {
		for _, f := range fs {
			k := f.a.Key()
			if o, ok := m[k]; ok {
				o.e += f.e
			} else {
				ff := f
				m[k] = &ff
				keys = append(keys, k)
			}
		}
	}
	// pow(b, x)·pow(b, y) = pow(b, x+y)
	{
		byBase := map[string][]string{}
		for _, k := range keys {
			if f := m[k]; f != nil && f.a.Kind == APow && f.e == 1 {
				bk := f.a.Args[0].Key()
				byBase[bk] = append(byBase[bk], k)
			}
		}
		for _, ks := range byBase {
			if len(ks) < 2 {
				continue
			}
			sort.Strings(ks)
			base := m[ks[0]].a.Args[0]
			ex := Expr{}
			for _, k := range ks {
				ex = Add(ex, m[k].a.Args[1])
			}
			np := PowE(base, ex)
			if len(np.terms) != 1 || np.terms[0].c.Cmp(big.NewRat(1, 1)) != 0 {
				continue // the merged power is a constant or a sum: factors cannot carry it, leave as is
			}
			for _, k := range ks {
				delete(m, k)
			}
			for _, nf := range np.terms[0].f {
				nk := nf.a.Key()
				if o, ok := m[nk]; ok {
					o.e += nf.e
				} else {
					c := nf
					m[nk] = &c
					keys = append(keys, nk)
				}
			}
		}
	}
	// pow(b, e)·b^k = pow(b, e+k) when b is a single atom
	for _, k := range keys {
		f := m[k]
		if f == nil || f.a.Kind != APow || f.e != 1 {
			continue
		}
		base := f.a.Args[0]
		if len(base.terms) != 1 || len(base.terms[0].f) != 1 || base.terms[0].f[0].e != 1 || base.terms[0].c.Cmp(big.NewRat(1, 1)) != 0 {
			continue
		}
		bk := base.terms[0].f[0].a.Key()
		if o, ok := m[bk]; ok && o.e != 0 {
			ne := Add(f.a.Args[1], NumI(int64(o.e)))
			o.e = 0
			np := PowE(base, ne)
			delete(m, k)
			// np is a single-atom expression (or plain power); fold it back
			for _, t := range np.terms {
				for _, nf := range t.f {
					nk := nf.a.Key()
					if ex, ok := m[nk]; ok {
						ex.e += nf.e
					} else {
						c := nf
						m[nk] = &c
						keys = append(keys, nk)
					}
				}
			}
		}
	}
	sort.Strings(keys)
	out := make([]fac, 0, len(keys))
	seenKey := map[string]bool{}
	for _, k := range keys {
		if seenKey[k] || m[k] == nil {
			continue
		}
		seenKey[k] = true
		f := *m[k]
		if f.a.Kind == AInd && f.e > 1 {
			f.e = 1 // indicators are idempotent
		}
		if f.e != 0 {
			out = append(out, f)
		}
	}
	return out
}

func Mul(a, b Expr) Expr {
	if nanInPlay && (HasNaN(a) || HasNaN(b)) {
		return nanE()
	}
	if va, ok := closedInf(a); ok {
		if vb, ok := closedConst(b); ok {
			return NumF(va * vb)
		}
	} else if vb, ok := closedInf(b); ok {
		if va, ok := closedConst(a); ok {
			return NumF(va * vb)
		}
	}
	if len(a.terms) == 0 || len(b.terms) == 0 {
		return Expr{}
	}
	ts := make([]term, 0, len(a.terms)*len(b.terms))
	for _, x := range a.terms {
		for _, y := range b.terms {
			ts = append(ts, term{c: new(big.Rat).Mul(x.c, y.c), f: mulFacs(x.f, y.f)})
		}
	}
	return normTerms(ts)
}

// DivZero is the marker produced when a constant zero is raised to a negative power.
func divZero() Expr { return FnE("divzero") }

func ratPow(c *big.Rat, k int) (*big.Rat, bool) {
	if k == 0 {
		return big.NewRat(1, 1), true
	}
	neg := k < 0
	if neg {
		k = -k
		if c.Sign() == 0 {
			return nil, false
		}
	}
	r := big.NewRat(1, 1)
	for i := 0; i < k; i++ {
		r.Mul(r, c)
	}
	if neg {
		r.Inv(r)
	}
	return r, true
}

// PowInt raises a to the integer power k.
func PowInt(a Expr, k int) Expr {
	if nanInPlay && HasNaN(a) && k != 0 {
		return nanE()
	}
	if va, ok := closedInf(a); ok {
		return NumF(math.Pow(va, float64(k)))
	}
	if k == 0 {
		return NumI(1)
	}
	if k == 1 {
		return a
	}
	if len(a.terms) == 0 {
		if k < 0 {
			return divZero()
		}
		return Expr{}
	}
	if len(a.terms) == 1 {
		t := a.terms[0]
		c, ok := ratPow(t.c, k)
		if !ok {
			return divZero()
		}
		fs := make([]fac, 0, len(t.f))
		for _, f := range t.f {
			e := f.e * k
			if f.a.Kind == AInd {
				if k < 0 {
					// 1/indicator is not meaningful; keep as opaque
					return atomPow(&Atom{Kind: ASum, Args: []Expr{a}}, k)
				}
				e = 1
			}
			fs = append(fs, fac{f.a, e})
		}
		return Expr{terms: []term{{c: c, f: fs}}}
	}
	if k >= 2 && k <= 4 {
		r := a
		for i := 1; i < k; i++ {
			r = Mul(r, a)
		}
		return r
	}
	// factor out what all terms share (a0·s - s = s·(a0 - 1)) so that inverses of products split
	if common, rest, ok := commonFactor(a); ok {
		return Mul(PowInt(common, k), PowInt(rest, k))
	}
	// canonical sign for denominators: leading coefficient positive
	lead := a.terms[0].c
	if lead.Sign() < 0 {
		inner := Neg(a)
		r := atomPow(&Atom{Kind: ASum, Args: []Expr{inner}}, k)
		if k%2 != 0 {
			return Neg(r)
		}
		return r
	}
	return atomPow(&Atom{Kind: ASum, Args: []Expr{a}}, k)
}

// commonFactor splits a multi-term sum into (monomial shared by all terms) × (remaining sum).
func commonFactor(a Expr) (common Expr, rest Expr, ok bool) {
	if len(a.terms) < 2 {
		return Expr{}, Expr{}, false
	}
	minExp := map[string]int{}
	atoms := map[string]*Atom{}
	for i, t := range a.terms {
		seen := map[string]int{}
		for _, f := range t.f {
			seen[f.a.Key()] = f.e
			atoms[f.a.Key()] = f.a
		}
		if i == 0 {
			for k, e := range seen {
				minExp[k] = e
			}
			continue
		}
		for k, e0 := range minExp {
			e1, has := seen[k]
			if !has || (e0 > 0) != (e1 > 0) {
				delete(minExp, k)
				continue
			}
			if e0 > 0 && e1 < e0 {
				minExp[k] = e1
			}
			if e0 < 0 && e1 > e0 {
				minExp[k] = e1
			}
		}
	}
	if len(minExp) == 0 {
		return Expr{}, Expr{}, false
	}
	common = NumI(1)
	for k, e := range minExp {
		common = Mul(common, atomPow(atoms[k], e))
	}
	inv := PowInt(common, -1)
	rest = Mul(a, inv)
	if len(rest.terms) < 1 {
		return Expr{}, Expr{}, false
	}
	return common, rest, true
}

func atomPow(a *Atom, k int) Expr {
	return Expr{terms: []term{{c: big.NewRat(1, 1), f: []fac{{a, k}}}}}
}

// PowE raises a to a symbolic or constant real exponent.
func PowE(a Expr, e Expr) Expr {
	if nanInPlay && (HasNaN(a) || HasNaN(e)) && !e.IsZero() {
		return nanE()
	}
	if r, ok := e.Const(); ok && r.IsInt() && r.Num().IsInt64() {
		k := r.Num().Int64()
		if k >= -64 && k <= 64 {
			return PowInt(a, int(k))
		}
	}
	return atomExpr(&Atom{Kind: APow, Args: []Expr{a, e}})
}

func Div(a, b Expr) Expr { return Mul(a, PowInt(b, -1)) }

// FnE applies a named function, with a few exact simplifications.
func FnE(name string, args ...Expr) Expr {
	if nanInPlay && !strings.HasPrefix(name, "const_") {
		for _, a := range args {
			if HasNaN(a) {
				return nanE()
			}
		}
	}
	if !strings.HasPrefix(name, "const_") && len(args) > 0 {
		allClosed, anyInf := true, false
		for _, a := range args {
			if _, ok := closedConst(a); !ok {
				allClosed = false
				break
			}
			if _, ok := closedInf(a); ok {
				anyInf = true
			}
		}
		if allClosed && anyInf {
			if v, err := atomExpr(&Atom{Kind: AFn, Name: name, Args: args}).Eval(nil); err == nil {
				return NumF(v)
			}
		}
	}
	switch name {
	case "exp":
		if args[0].IsZero() {
			return NumI(1)
		}
	case "log":
		if args[0].IsOne() {
			return Expr{}
		}
	case "sin", "tan", "sinh", "tanh":
		if args[0].IsZero() {
			return Expr{}
		}
	case "cos", "cosh":
		if args[0].IsZero() {
			return NumI(1)
		}
	case "sqrt":
		if args[0].IsZero() {
			return Expr{}
		}
		if args[0].IsOne() {
			return NumI(1)
		}
	case "abs":
		switch signOf(args[0]) {
		case SignZero:
			return Expr{}
		case SignBigPos, SignSmallPos:
			return args[0]
		case SignBigNeg, SignSmallNeg:
			return Neg(args[0])
		}
	case "max", "min":
		a, b := args[0], args[1]
		if a.Equal(b) {
			return a
		}
		s := signOf(Sub(a, b))
		if s == SignZero {
			return a
		}
		if s == SignBigPos || s == SignSmallPos {
			if name == "max" {
				return a
			}
			return b
		}
		if s == SignBigNeg || s == SignSmallNeg {
			if name == "max" {
				return b
			}
			return a
		}
		// clamp: max(l, min(x,u)) == min(max(x,l), u) for constants l <= u: one canonical atom
		if cl, ok := asClamp(name, a, b); ok {
			return cl
		}
		// commutative: canonical argument order
		if a.Key() > b.Key() {
			args = []Expr{b, a}
		}
	case "clamp":
		// clamp(x; l, u) with constants l <= u
		x, l, u := args[0], args[1], args[2]
		if s := signOf(Sub(x, u)); s == SignBigPos || s == SignSmallPos || s == SignZero {
			return u
		} else if s2 := signOf(Sub(l, x)); s2 == SignBigPos || s2 == SignSmallPos || s2 == SignZero {
			return l
		} else if (s == SignBigNeg || s == SignSmallNeg) && (s2 == SignBigNeg || s2 == SignSmallNeg) {
			return x
		}
	}
	return atomExpr(&Atom{Kind: AFn, Name: name, Args: append([]Expr{}, args...)})
}

// asClamp recognises max(const l, min(x, const u)) and min(const u, max(x, const l)) with l <= u.
func asClamp(name string, a, b Expr) (Expr, bool) {
	inner, other := "min", "max"
	if name == "min" {
		inner, other = "max", "min"
	}
	_ = other
	for _, pr := range [][2]Expr{{a, b}, {b, a}} {
		c1, ok := pr[0].Const()
		if !ok {
			continue
		}
		if len(pr[1].terms) != 1 || len(pr[1].terms[0].f) != 1 || pr[1].terms[0].f[0].e != 1 || pr[1].terms[0].c.Cmp(big.NewRat(1, 1)) != 0 {
			continue
		}
		at := pr[1].terms[0].f[0].a
		if at.Kind != AFn || at.Name != inner || len(at.Args) != 2 {
			continue
		}
		for _, q := range [][2]Expr{{at.Args[0], at.Args[1]}, {at.Args[1], at.Args[0]}} {
			c2, ok := q[1].Const()
			if !ok {
				continue
			}
			x := q[0]
			if _, isC := x.Const(); isC {
				continue
			}
			lo, hi := c1, c2 // name == "max": max(l, min(x,u))
			if name == "min" {
				lo, hi = c2, c1 // min(u, max(x,l))
			}
			if lo.Cmp(hi) > 0 {
				continue
			}
			return FnE("clamp", x, Num(lo), Num(hi)), true
		}
	}
	return Expr{}, false
}

// Ind is the 0/1 indicator of a condition.
func Ind(c *Cond) Expr {
	if v, ok := c.Decide(); ok {
		if v {
			return NumI(1)
		}
		return Expr{}
	}
	return atomExpr(&Atom{Kind: AInd, Cond: c})
}

/* ---------- binders ---------- */

var freshCounter int

// FreshVar returns a globally unique bound-variable name.
func FreshVar() string {
	freshCounter++
	return fmt.Sprintf("v%d", freshCounter)
}

func (a *Atom) binderDepth() int {
	d := 0
	for _, x := range a.Args {
		if dd := x.binderDepth(); dd > d {
			d = dd
		}
	}
	if a.Cond != nil {
		if dd := a.Cond.binderDepth(); dd > d {
			d = dd
		}
	}
	if a.Kind == ASigma || a.Kind == ABigMax || a.Kind == ABigMin {
		d++
	}
	return d
}

func (e Expr) binderDepth() int {
	d := 0
	for _, t := range e.terms {
		for _, f := range t.f {
			if dd := f.a.binderDepth(); dd > d {
				d = dd
			}
		}
	}
	return d
}

func (a *Atom) mentions(v string) bool {
	for _, p := range a.Idx {
		if p.HasAtom(v) {
			return true
		}
	}
	for _, x := range a.Args {
		if x.Mentions(v) {
			return true
		}
	}
	if a.Cond != nil && a.Cond.Mentions(v) {
		return true
	}
	if a.Kind == ASym && a.Name == v {
		return true
	}
	if (a.Kind == ASigma || a.Kind == ABigMax || a.Kind == ABigMin) && a.N.HasAtom(v) {
		return true
	}
	return false
}

func (e Expr) Mentions(v string) bool {
	for _, t := range e.terms {
		for _, f := range t.f {
			if f.a.mentions(v) {
				return true
			}
		}
	}
	return false
}

func binder(kind AKind, v string, n Poly, body Expr) Expr {
	d := body.binderDepth() + 1
	canon := fmt.Sprintf("κ%d", d)
	body = body.SubstIdx(map[string]Poly{v: PAtom(canon)})
	return atomExpr(&Atom{Kind: kind, Var: canon, N: n, Args: []Expr{body}})
}

// Sigma builds Σ_{v=0}^{n-1} body; v must be a fresh variable name (FreshVar).  Directly nested sums
// are put into a canonical binder order (the lexicographically least key over all orders).
func Sigma(v string, n Poly, body Expr) Expr {
	r := sigmaPlain(v, n, body)
	// canonicalise pure chains Σ_v Σ_w … f
	out := Expr{}
	changed := false
	for _, t := range r.terms {
		var chainIdx = -1
		for i, f := range t.f {
			if f.a.Kind == ASigma && f.e == 1 {
				if inner, ok := singleSigma(f.a.Args[0]); ok && inner != nil {
					chainIdx = i
					break
				}
			}
		}
		if chainIdx < 0 {
			out = Add(out, Expr{terms: []term{t}})
			continue
		}
		rest := Expr{terms: []term{{c: t.c, f: append(append([]fac{}, t.f[:chainIdx]...), t.f[chainIdx+1:]...)}}}
		best := canonChain(t.f[chainIdx].a)
		out = Add(out, Mul(rest, best))
		changed = true
	}
	if !changed {
		return r
	}
	return out
}

// singleSigma reports whether e is exactly one Σ atom (coefficient 1, exponent 1).
func singleSigma(e Expr) (*Atom, bool) {
	if len(e.terms) != 1 {
		return nil, false
	}
	t := e.terms[0]
	if len(t.f) != 1 || t.f[0].e != 1 || t.f[0].a.Kind != ASigma || t.c.Cmp(big.NewRat(1, 1)) != 0 {
		return nil, false
	}
	return t.f[0].a, true
}

type sigBinder struct {
	v string
	n Poly
}

func canonChain(a *Atom) Expr {
	var bs []sigBinder
	cur := a
	var core Expr
	for {
		fv := FreshVar()
		body := cur.Args[0].SubstIdx(map[string]Poly{cur.Var: PAtom(fv)})
		bs = append(bs, sigBinder{fv, cur.N})
		if inner, ok := singleSigma(body); ok {
			cur = inner
			continue
		}
		core = body
		break
	}
	// ranges must not depend on the bound variables
	for _, b := range bs {
		for _, o := range bs {
			if b.n.HasAtom(o.v) {
				return atomExpr(a)
			}
		}
	}
	if len(bs) > 16 {
		return atomExpr(a)
	}
	// cheap canonical order: sort binders by a name-independent occurrence signature when it separates them
	sigs := make([]string, len(bs))
	distinct := true
	seenSig := map[string]bool{}
	for i, b := range bs {
		sigs[i] = b.n.String() + "|" + occurrenceSig(core, b.v)
		if seenSig[sigs[i]] {
			distinct = false
		}
		seenSig[sigs[i]] = true
	}
	if distinct {
		order := make([]int, len(bs))
		for i := range order {
			order[i] = i
		}
		sort.Slice(order, func(x, y int) bool { return sigs[order[x]] < sigs[order[y]] })
		x := core
		for i := len(order) - 1; i >= 0; i-- {
			b := bs[order[i]]
			fv := FreshVar()
			x = sigmaPlain(fv, b.n, x.SubstIdx(map[string]Poly{b.v: PAtom(fv)}))
		}
		return x
	}
	if len(bs) > 5 {
		return atomExpr(a)
	}
	var best Expr
	bestKey := ""
	perm := make([]int, len(bs))
	for i := range perm {
		perm[i] = i
	}
	var rec func(k int)
	rec = func(k int) {
		if k == len(perm) {
			x := core
			for i := len(perm) - 1; i >= 0; i-- {
				b := bs[perm[i]]
				fv := FreshVar()
				x = sigmaPlain(fv, b.n, x.SubstIdx(map[string]Poly{b.v: PAtom(fv)}))
			}
			key := x.Key()
			if bestKey == "" || key < bestKey {
				best, bestKey = x, key
			}
			return
		}
		for i := k; i < len(perm); i++ {
			perm[k], perm[i] = perm[i], perm[k]
			rec(k + 1)
			perm[k], perm[i] = perm[i], perm[k]
		}
	}
	rec(0)
	return best
}

// occurrenceSig lists where variable v occurs in e (leaf name and argument position), independent of
// the names of other bound variables.
func occurrenceSig(e Expr, v string) string {
	var occ []string
	var walkE func(x Expr, ctx string)
	var walkA func(a *Atom, ctx string)
	walkE = func(x Expr, ctx string) {
		for _, t := range x.terms {
			for _, f := range t.f {
				walkA(f.a, ctx)
			}
		}
	}
	walkA = func(a *Atom, ctx string) {
		switch a.Kind {
		case ALeaf:
			for i, p := range a.Idx {
				if p.HasAtom(v) {
					occ = append(occ, fmt.Sprintf("%s%s@%d/%d", ctx, a.Name, i, len(a.Idx)))
				}
			}
		case ASym:
			if a.Name == v {
				occ = append(occ, ctx+"sym")
			}
		}
		for i, x := range a.Args {
			walkE(x, fmt.Sprintf("%s%d:%s%d>", ctx, a.Kind, a.Name, i))
		}
		if a.Cond != nil && a.Cond.Mentions(v) {
			occ = append(occ, ctx+"cond")
		}
	}
	walkE(e, "")
	sort.Strings(occ)
	return strings.Join(occ, ";")
}

func sigmaPlain(v string, n Poly, body Expr) Expr {
	if c, ok := n.Const(); ok {
		if c <= 0 {
			return Expr{}
		}
		if c == 1 {
			return body.SubstIdx(map[string]Poly{v: PInt(0)})
		}
		if c <= 640 {
			// concrete small range: write the sum out
			out := Expr{}
			for i := int64(0); i < c; i++ {
				out = Add(out, body.SubstIdx(map[string]Poly{v: PInt(i)}))
			}
			return out
		}
		if c <= 8192 {
			// a long concrete range whose terms collapse (periodic elements built from a few symbols): write it out
			// as long as the running sum stays small
			out := Expr{}
			ok := true
			for i := int64(0); i < c; i++ {
				out = Add(out, body.SubstIdx(map[string]Poly{v: PInt(i)}))
				if len(out.terms) > 48 {
					ok = false
					break
				}
			}
			if ok {
				return out
			}
		}
	}
	out := Expr{}
	for _, t := range body.terms {
		var dep, indep []fac
		for _, f := range t.f {
			if f.a.mentions(v) {
				dep = append(dep, f)
			} else {
				indep = append(indep, f)
			}
		}
		outer := Expr{terms: []term{{c: t.c, f: indep}}}
		if len(dep) == 0 {
			out = Add(out, Mul(outer, PolyE(n)))
			continue
		}
		inner := Expr{terms: []term{{c: big.NewRat(1, 1), f: dep}}}
		out = Add(out, Mul(outer, binder(ASigma, v, n, inner)))
	}
	return out
}

func BigMax(v string, n Poly, body Expr) Expr {
	if c, ok := n.Const(); ok && c == 1 {
		return body.SubstIdx(map[string]Poly{v: PInt(0)})
	}
	if c, ok := n.Const(); ok && c > 1 && c <= 24 {
		out := body.SubstIdx(map[string]Poly{v: PInt(0)})
		for i := int64(1); i < c; i++ {
			out = FnE("max", out, body.SubstIdx(map[string]Poly{v: PInt(i)}))
		}
		return out
	}
	if !body.Mentions(v) {
		return body
	}
	return binder(ABigMax, v, n, body)
}

func BigMin(v string, n Poly, body Expr) Expr {
	if c, ok := n.Const(); ok && c == 1 {
		return body.SubstIdx(map[string]Poly{v: PInt(0)})
	}
	if c, ok := n.Const(); ok && c > 1 && c <= 24 {
		out := body.SubstIdx(map[string]Poly{v: PInt(0)})
		for i := int64(1); i < c; i++ {
			out = FnE("min", out, body.SubstIdx(map[string]Poly{v: PInt(i)}))
		}
		return out
	}
	if !body.Mentions(v) {
		return body
	}
	return binder(ABigMin, v, n, body)
}

/* ---------- substitution ---------- */

// rebuild re-normalises an expression after mapping every atom through f.
func (e Expr) mapAtoms(f func(a *Atom) Expr) Expr {
	out := Expr{}
	for _, t := range e.terms {
		x := Num(t.c)
		for _, fc := range t.f {
			x = Mul(x, PowInt(f(fc.a), fc.e))
		}
		out = Add(out, x)
	}
	return out
}

// SubstIdx substitutes integer atoms (index variables, sizes, integer arguments) everywhere they occur:
// in leaf indices, conditions, binder ranges, and real symbols of the same name.
func (e Expr) SubstIdx(m map[string]Poly) Expr {
	if len(m) == 0 || len(e.terms) == 0 {
		return e
	}
	return e.mapAtoms(func(a *Atom) Expr { return a.substIdx(m) })
}

func (a *Atom) substIdx(m map[string]Poly) Expr {
	switch a.Kind {
	case ASym:
		if p, ok := m[a.Name]; ok {
			return PolyE(p)
		}
		return atomExpr(a)
	case ALeaf:
		idx := make([]Poly, len(a.Idx))
		for i, p := range a.Idx {
			idx[i] = p.Subst(m)
		}
		return LeafE(a.Name, idx)
	case AFn:
		args := make([]Expr, len(a.Args))
		for i, x := range a.Args {
			args[i] = x.SubstIdx(m)
		}
		return FnE(a.Name, args...)
	case APow:
		return PowE(a.Args[0].SubstIdx(m), a.Args[1].SubstIdx(m))
	case ASum:
		return sumAtom(a.Args[0].SubstIdx(m))
	case AInd:
		return Ind(a.Cond.SubstIdx(m))
	case ASigma, ABigMax, ABigMin:
		// bound variable is canonical (κd) and never a key of m; rebuild with a fresh name to re-canonicalise
		v := FreshVar()
		body := a.Args[0].SubstIdx(map[string]Poly{a.Var: PAtom(v)}).SubstIdx(m)
		n := a.N.Subst(m)
		switch a.Kind {
		case ASigma:
			return Sigma(v, n, body)
		case ABigMax:
			return BigMax(v, n, body)
		default:
			return BigMin(v, n, body)
		}
	}
	return atomExpr(a)
}

func sumAtom(inner Expr) Expr {
	if len(inner.terms) <= 1 {
		return inner
	}
	return atomExpr(&Atom{Kind: ASum, Args: []Expr{inner}})
}

// SubstSym replaces real symbols by expressions.
func (e Expr) SubstSym(m map[string]Expr) Expr {
	if len(m) == 0 || len(e.terms) == 0 {
		return e
	}
	return e.mapAtoms(func(a *Atom) Expr { return a.substSym(m) })
}

func (a *Atom) substSym(m map[string]Expr) Expr {
	switch a.Kind {
	case ASym:
		if x, ok := m[a.Name]; ok {
			return x
		}
		return atomExpr(a)
	case ALeaf:
		return atomExpr(a)
	case AFn:
		args := make([]Expr, len(a.Args))
		for i, x := range a.Args {
			args[i] = x.SubstSym(m)
		}
		return FnE(a.Name, args...)
	case APow:
		return PowE(a.Args[0].SubstSym(m), a.Args[1].SubstSym(m))
	case ASum:
		return sumAtom(a.Args[0].SubstSym(m))
	case AInd:
		return Ind(a.Cond.SubstSym(m))
	case ASigma, ABigMax, ABigMin:
		v := FreshVar()
		body := a.Args[0].SubstIdx(map[string]Poly{a.Var: PAtom(v)}).SubstSym(m)
		switch a.Kind {
		case ASigma:
			return Sigma(v, a.N, body)
		case ABigMax:
			return BigMax(v, a.N, body)
		default:
			return BigMin(v, a.N, body)
		}
	}
	return atomExpr(a)
}

// SubstLeaf replaces every element of the named tensor by f(index).
func (e Expr) SubstLeaf(name string, f func(idx []Poly) Expr) Expr {
	if len(e.terms) == 0 {
		return e
	}
	return e.mapAtoms(func(a *Atom) Expr { return a.substLeaf(name, f) })
}

func (a *Atom) substLeaf(name string, f func(idx []Poly) Expr) Expr {
	switch a.Kind {
	case ALeaf:
		if a.Name == name {
			return f(a.Idx)
		}
		return atomExpr(a)
	case AFn:
		args := make([]Expr, len(a.Args))
		for i, x := range a.Args {
			args[i] = x.SubstLeaf(name, f)
		}
		return FnE(a.Name, args...)
	case APow:
		return PowE(a.Args[0].SubstLeaf(name, f), a.Args[1].SubstLeaf(name, f))
	case ASum:
		return sumAtom(a.Args[0].SubstLeaf(name, f))
	case AInd:
		return Ind(a.Cond.SubstLeaf(name, f))
	case ASigma, ABigMax, ABigMin:
		v := FreshVar()
		body := a.Args[0].SubstIdx(map[string]Poly{a.Var: PAtom(v)}).SubstLeaf(name, f)
		switch a.Kind {
		case ASigma:
			return Sigma(v, a.N, body)
		case ABigMax:
			return BigMax(v, a.N, body)
		default:
			return BigMin(v, a.N, body)
		}
	}
	return atomExpr(a)
}

// Renorm rebuilds the expression under the currently active facts.
func (e Expr) Renorm() Expr {
	return e.mapAtoms(func(a *Atom) Expr { return a.substSym(map[string]Expr{"\x00": {}}) })
}

// Leaves returns the names of tensor leaves occurring in e.
func (e Expr) Leaves() []string {
	set := map[string]bool{}
	var walkA func(a *Atom)
	var walkE func(x Expr)
	walkE = func(x Expr) {
		for _, t := range x.terms {
			for _, f := range t.f {
				walkA(f.a)
			}
		}
	}
	walkA = func(a *Atom) {
		if a.Kind == ALeaf {
			set[a.Name] = true
		}
		for _, x := range a.Args {
			walkE(x)
		}
		if a.Cond != nil {
			a.Cond.walkExprs(walkE)
		}
	}
	walkE(e)
	out := make([]string, 0, len(set))
	for k := range set {
		out = append(out, k)
	}
	sort.Strings(out)
	return out
}

// SolveSym solves e == 0 for a real symbol when e has the form a·s + b with rational a ≠ 0 and b:
// it returns the symbol and its value.
func SolveSym(e Expr) (string, Expr, bool) {
	var name string
	var a *big.Rat
	b := new(big.Rat)
	for _, t := range e.terms {
		switch len(t.f) {
		case 0:
			b = t.c
		case 1:
			f := t.f[0]
			if f.a.Kind != ASym || f.e != 1 || name != "" {
				return "", Expr{}, false
			}
			name, a = f.a.Name, t.c
		default:
			return "", Expr{}, false
		}
	}
	if name == "" || a == nil || a.Sign() == 0 {
		return "", Expr{}, false
	}
	v := new(big.Rat).Quo(new(big.Rat).Neg(b), a)
	return name, Num(v), true
}

// LinearLeaf finds a tensor element that occurs in e exactly once, as a term k·L (k rational, L to the first
// power, no other factor).  Used to steer a witness onto a thin condition such as |a-b| <= τ.
func LinearLeaf(e Expr) (name string, idx []Poly, k float64, ok bool) {
	count := map[string]int{}
	var countE func(x Expr)
	countE = func(x Expr) {
		for _, t := range x.terms {
			for _, f := range t.f {
				if f.a.Kind == ALeaf {
					count[f.a.Key()]++
				} else {
					for _, a := range f.a.Args {
						countE(a)
					}
					if f.a.Cond != nil {
						f.a.Cond.walkExprs(countE)
					}
				}
			}
		}
	}
	countE(e)
	for _, t := range e.terms {
		if len(t.f) == 1 && t.f[0].a.Kind == ALeaf && t.f[0].e == 1 && count[t.f[0].a.Key()] == 1 {
			kf, _ := t.c.Float64()
			if kf != 0 {
				return t.f[0].a.Name, t.f[0].a.Idx, kf, true
			}
		}
	}
	return "", nil, 0, false
}

// AbsArgs returns the arguments of the top-level abs(·) atoms of e.
func AbsArgs(e Expr) []Expr {
	var out []Expr
	for _, t := range e.terms {
		for _, f := range t.f {
			if f.a.Kind == AFn && f.a.Name == "abs" && len(f.a.Args) == 1 {
				out = append(out, f.a.Args[0])
			}
		}
	}
	return out
}

// OnlyInverseSizes reports whether e is a single term with coefficient 1 whose factors are all plain
// symbols raised to negative powers (a product of inverse dimension sizes).
func OnlyInverseSizes(e Expr) bool {
	if len(e.terms) != 1 {
		return false
	}
	t := e.terms[0]
	if t.c.Cmp(big.NewRat(1, 1)) != 0 || len(t.f) == 0 {
		return false
	}
	for _, f := range t.f {
		if f.a.Kind != ASym || f.e >= 0 {
			return false
		}
	}
	return true
}

// Folder evaluates an expression in some abstract domain (used for the interval domain).
type Folder interface {
	Const(f float64) any
	Sym(name string) any
	Leaf(name string) any
	Add(a, b any) any
	Mul(a, b any) any
	PowInt(a any, k int) any
	Pow(a, b any) any
	Ind() any
	SumN(a any) any
	MaxN(a any) any
	Fn(name string, args []any) any
}

func (e Expr) FoldIval(f Folder) any {
	var acc any
	if len(e.terms) == 0 {
		return f.Const(0)
	}
	for i, t := range e.terms {
		c, _ := t.c.Float64()
		x := f.Const(c)
		for _, fc := range t.f {
			x = f.Mul(x, f.PowInt(fc.a.fold(f), fc.e))
		}
		if i == 0 {
			acc = x
		} else {
			acc = f.Add(acc, x)
		}
	}
	return acc
}

func (a *Atom) fold(f Folder) any {
	switch a.Kind {
	case ASym:
		return f.Sym(a.Name)
	case ALeaf:
		return f.Leaf(a.Name)
	case AFn:
		args := make([]any, len(a.Args))
		for i, x := range a.Args {
			args[i] = x.FoldIval(f)
		}
		if len(args) == 0 {
			return f.Fn(a.Name, []any{f.Const(0)})
		}
		return f.Fn(a.Name, args)
	case APow:
		return f.Pow(a.Args[0].FoldIval(f), a.Args[1].FoldIval(f))
	case ASum:
		return a.Args[0].FoldIval(f)
	case AInd:
		return f.Ind()
	case ASigma:
		return f.SumN(a.Args[0].FoldIval(f))
	case ABigMax, ABigMin:
		return f.MaxN(a.Args[0].FoldIval(f))
	}
	return f.Const(0)
}

// Constants lists the numeric constants occurring in e (coefficients and nested), as floats.
func (e Expr) Constants() []float64 {
	var out []float64
	var walkE func(x Expr)
	walkE = func(x Expr) {
		for _, t := range x.terms {
			c, _ := t.c.Float64()
			out = append(out, c)
			for _, f := range t.f {
				for _, a := range f.a.Args {
					walkE(a)
				}
				if f.a.Cond != nil {
					f.a.Cond.walkExprs(walkE)
				}
			}
		}
	}
	walkE(e)
	return out
}

// HasNaN reports whether e is (or contains at top level) the NaN constant marker.
func HasNaN(e Expr) bool {
	if !nanInPlay {
		return false
	}
	for _, t := range e.terms {
		for _, f := range t.f {
			if f.a.Kind == AFn && f.a.Name == "const_NaN" {
				return true
			}
		}
	}
	return false
}
