package sym

import (
	"fmt"
	"sort"
	"strings"
)

type COp int

const (
	LE COp = iota // P <= 0
	EQ            // P == 0
	NE            // P != 0
)

// Constraint is an integer constraint P op 0.
type Constraint struct {
	P  Poly
	Op COp
}

func CLe(a, b Poly) Constraint { return Constraint{a.Sub(b), LE} }           // a <= b
func CLt(a, b Poly) Constraint { return Constraint{a.Sub(b).AddInt(1), LE} } // a < b
func CGe(a, b Poly) Constraint { return CLe(b, a) }
func CGt(a, b Poly) Constraint { return CLt(b, a) }
func CEq(a, b Poly) Constraint { return Constraint{a.Sub(b), EQ} }
func CNe(a, b Poly) Constraint { return Constraint{a.Sub(b), NE} }

func (c Constraint) Not() Constraint {
	switch c.Op {
	case LE:
		return Constraint{c.P.Neg().AddInt(1), LE} // P > 0  <=>  -P+1 <= 0
	case EQ:
		return Constraint{c.P, NE}
	default:
		return Constraint{c.P, EQ}
	}
}

// Canon returns a canonical representative (sign-normalised for EQ/NE).
func (c Constraint) Canon() Constraint {
	if c.Op == LE {
		return c
	}
	ks := c.P.Monomials()
	for _, k := range ks {
		if k == "" {
			continue
		}
		if c.P.t[k] < 0 {
			return Constraint{c.P.Neg(), c.Op}
		}
		break
	}
	if len(ks) == 1 && ks[0] == "" && c.P.t[""] < 0 {
		return Constraint{c.P.Neg(), c.Op}
	}
	return c
}

func (c Constraint) String() string {
	c = c.Canon()
	op := map[COp]string{LE: "<=", EQ: "==", NE: "!="}[c.Op]
	// move negative terms to the right for readability
	l, r := PInt(0), PInt(0)
	for k, v := range c.P.t {
		m := Poly{t: map[string]int64{k: v}}
		if v > 0 {
			l = l.Add(m)
		} else {
			r = r.Sub(m)
		}
	}
	return fmt.Sprintf("%s %s %s", l.String(), op, r.String())
}

// Trivial reports whether c is decided without any context.
func (c Constraint) Trivial() (val bool, ok bool) {
	v, isC := c.P.Const()
	if !isC {
		return false, false
	}
	switch c.Op {
	case LE:
		return v <= 0, true
	case EQ:
		return v == 0, true
	default:
		return v != 0, true
	}
}

type row struct {
	c map[string]int64 // variable (monomial key) -> coefficient
	k int64            // constant:  sum c_i x_i + k <= 0
}

func gcd(a, b int64) int64 {
	if a < 0 {
		a = -a
	}
	if b < 0 {
		b = -b
	}
	for b != 0 {
		a, b = b, a%b
	}
	return a
}

func floorDiv(a, b int64) int64 { // b > 0
	q := a / b
	if (a%b != 0) && ((a < 0) != (b < 0)) {
		q--
	}
	return q
}

func (r *row) normalize() {
	var g int64
	for v, c := range r.c {
		if c == 0 {
			delete(r.c, v)
			continue
		}
		g = gcd(g, c)
	}
	if g > 1 {
		for v := range r.c {
			r.c[v] /= g
		}
		// sum c x <= -k  =>  sum (c/g) x <= floor(-k/g)
		r.k = -floorDiv(-r.k, g)
	}
}

func (r *row) key() string {
	vs := make([]string, 0, len(r.c))
	for v := range r.c {
		vs = append(vs, v)
	}
	sort.Strings(vs)
	var sb strings.Builder
	for _, v := range vs {
		fmt.Fprintf(&sb, "%d[%s]", r.c[v], v)
	}
	return sb.String()
}

func polyRow(p Poly) *row {
	r := &row{c: map[string]int64{}}
	for k, v := range p.t {
		if k == "" {
			r.k = v
		} else {
			r.c[k] = v
		}
	}
	return r
}

// Sat decides (soundly for "unsat") whether the conjunction has an integer solution, treating every
// non-linear monomial as an independent variable.  A result of false is a proof of infeasibility;
// true means "not refuted".
func Sat(cs []Constraint) bool {
	return satCore(withProductAxioms(withDivAxioms(cs)))
}

// withProductAxioms: a non-linear monomial is an independent variable for the linear solver; when every
// factor has a provable non-negative lower bound l_i (tried: 2, 1, 0), the monomial is at least the product
// of the bounds, and at least each single factor times the bounds of the others.
func withProductAxioms(cs []Constraint) []Constraint {
	monos := map[string]bool{}
	for _, c := range cs {
		for k := range c.P.t {
			if k != "" && (strings.Contains(k, "*") || strings.Contains(k, "^")) {
				monos[k] = true
			}
		}
	}
	if len(monos) == 0 {
		return cs
	}
	lbCache := map[string]int64{}
	lower := func(a string) (int64, bool) {
		if v, ok := lbCache[a]; ok {
			return v, v >= 0
		}
		for _, l := range []int64{2, 1, 0} {
			if !satCore(append(append([]Constraint{}, cs...), CLe(PAtom(a), PInt(l-1)))) {
				lbCache[a] = l
				return l, true
			}
		}
		lbCache[a] = -1
		return 0, false
	}
	out := cs
	for k := range monos {
		m := parseMono(k)
		prod := int64(1)
		ok := true
		for _, f := range m {
			if f.e < 1 {
				ok = false
				break
			}
			l, has := lower(f.a)
			if !has {
				ok = false
				break
			}
			for i := 0; i < f.e; i++ {
				prod *= l
			}
		}
		if !ok {
			continue
		}
		mp := Poly{t: map[string]int64{k: 1}}
		out = append(append([]Constraint{}, out...), CGe(mp, PInt(prod)))
		// mono >= a_i · Π_{j≠i} l_j  (linear in a_i) for plain products
		for i, f := range m {
			if f.e != 1 {
				continue
			}
			rest := int64(1)
			for j, g := range m {
				if j == i {
					continue
				}
				l, _ := lower(g.a)
				for e := 0; e < g.e; e++ {
					rest *= l
				}
			}
			if rest > 0 {
				out = append(out, CGe(mp, PAtom(f.a).MulInt(rest)))
			}
		}
	}
	return out
}

// withDivAxioms adds, for every quotient atom q = idiv⟨p|d⟩ and remainder atom r = imod⟨p|d⟩ occurring in
// the constraints whose operands are provably p >= 0 and d >= 1, the facts 0 <= q <= p (d·q <= p <= d·q+d-1
// for a constant d) and 0 <= r <= d-1, r <= p.  Two rounds cover quotients of quotients.
func withDivAxioms(cs []Constraint) []Constraint {
	seen := map[string]bool{}
	out := cs
	for round := 0; round < 2; round++ {
		var add []Constraint
		for _, c := range out {
			for _, a := range c.P.Atoms() {
				sa, ok := structAtoms[a]
				if !ok || seen[a] || !(sa.Div || sa.Mod) {
					continue
				}
				d := sa.Shape[0]
				nonneg := func(x Constraint) bool {
					if v, ok := x.Trivial(); ok {
						return v
					}
					return !satCore(append(append([]Constraint{}, out...), x.Not()))
				}
				if !nonneg(CGe(sa.Lin, PInt(0))) || !nonneg(CGe(d, PInt(1))) {
					continue
				}
				seen[a] = true
				q := PAtom(a)
				if sa.Div {
					add = append(add, CGe(q, PInt(0)), CLe(q, sa.Lin))
					if dc, isC := d.Const(); isC {
						add = append(add, CLe(q.MulInt(dc), sa.Lin), CLe(sa.Lin, q.MulInt(dc).AddInt(dc-1)))
					}
				} else {
					add = append(add, CGe(q, PInt(0)), CLe(q, d.AddInt(-1)), CLe(q, sa.Lin))
				}
			}
		}
		if len(add) == 0 {
			break
		}
		out = append(append([]Constraint{}, out...), add...)
	}
	return out
}

func satCore(cs []Constraint) bool {
	var les []Poly
	var nes []Poly
	for _, c := range cs {
		if v, ok := c.Trivial(); ok {
			if !v {
				return false
			}
			continue
		}
		switch c.Op {
		case LE:
			les = append(les, c.P)
		case EQ:
			les = append(les, c.P, c.P.Neg())
		case NE:
			nes = append(nes, c.P)
		}
	}
	return satNE(les, nes)
}

func satNE(les []Poly, nes []Poly) bool {
	if len(nes) == 0 {
		return fm(les)
	}
	// 1. single-variable disequalities x != c tighten integer bounds: with x >= c they give x >= c+1, etc.
	les = append([]Poly{}, les...)
	pending := append([]Poly{}, nes...)
	for round := 0; round < 64; round++ {
		changed := false
		var rest []Poly
		for _, p := range pending {
			v, a, c, ok := singleVar(p) // a·v + c != 0
			if !ok || c%a != 0 {
				if ok {
					continue // a·v = -c has no integer solution: the disequality always holds
				}
				rest = append(rest, p)
				continue
			}
			val := -c / a
			x := PAtom(v)
			// does les entail v >= val (then v != val gives v >= val+1), or v <= val?
			geq := !fm(append(append([]Poly{}, les...), x.Sub(PInt(val)).AddInt(1))) // refute v <= val-1
			leq := !fm(append(append([]Poly{}, les...), PInt(val).Sub(x).AddInt(1))) // refute v >= val+1
			switch {
			case geq && leq:
				return false // v == val is forced
			case geq:
				les = append(les, PInt(val+1).Sub(x)) // v >= val+1
				changed = true
			case leq:
				les = append(les, x.Sub(PInt(val-1))) // v <= val-1
				changed = true
			default:
				rest = append(rest, p)
			}
		}
		pending = rest
		if !changed {
			break
		}
	}
	if !fm(les) {
		return false
	}
	// 2. a convex set minus finitely many hyperplanes is empty only if one hyperplane contains it
	for _, p := range pending {
		lo := fm(append(append([]Poly{}, les...), p.AddInt(1)))       // p <= -1 feasible?
		hi := fm(append(append([]Poly{}, les...), p.Neg().AddInt(1))) // p >= 1 feasible?
		if !lo && !hi {
			return false
		}
	}
	return true
}

// singleVar decomposes p as a·v + c with one plain atom v.
func singleVar(p Poly) (v string, a, c int64, ok bool) {
	n := 0
	for k, coef := range p.t {
		if k == "" {
			c = coef
			continue
		}
		if strings.ContainsAny(k, "*^") {
			return "", 0, 0, false
		}
		v, a = k, coef
		n++
	}
	if n != 1 || a == 0 {
		return "", 0, 0, false
	}
	return v, a, c, true
}

func fm(les []Poly) bool {
	rows := map[string]*row{}
	add := func(r *row) bool {
		r.normalize()
		if len(r.c) == 0 {
			return r.k <= 0
		}
		k := r.key()
		if old, ok := rows[k]; ok {
			if r.k > old.k { // tighter: sum + k <= 0 with larger k
				rows[k] = r
			}
			return true
		}
		rows[k] = r
		return true
	}
	for _, p := range les {
		if !add(polyRow(p)) {
			return false
		}
	}
	for iter := 0; iter < 64; iter++ {
		// pick the variable with the fewest pos*neg products
		cnt := map[string][2]int{}
		for _, r := range rows {
			for v, c := range r.c {
				x := cnt[v]
				if c > 0 {
					x[0]++
				} else {
					x[1]++
				}
				cnt[v] = x
			}
		}
		if len(cnt) == 0 {
			break
		}
		best, bestCost := "", -1
		vars := make([]string, 0, len(cnt))
		for v := range cnt {
			vars = append(vars, v)
		}
		sort.Strings(vars)
		for _, v := range vars {
			c := cnt[v][0] * cnt[v][1]
			if bestCost < 0 || c < bestCost {
				best, bestCost = v, c
			}
		}
		var pos, neg []*row
		next := map[string]*row{}
		for k, r := range rows {
			c := r.c[best]
			switch {
			case c > 0:
				pos = append(pos, r)
			case c < 0:
				neg = append(neg, r)
			default:
				next[k] = r
			}
		}
		rows = next
		if len(pos)*len(neg) > 4000 {
			return true // give up: not refuted
		}
		for _, p := range pos {
			for _, n := range neg {
				a, b := p.c[best], -n.c[best]
				nr := &row{c: map[string]int64{}}
				for v, c := range p.c {
					nr.c[v] += c * b
				}
				for v, c := range n.c {
					nr.c[v] += c * a
				}
				nr.k = p.k*b + n.k*a
				delete(nr.c, best)
				if !add(nr) {
					return false
				}
			}
		}
	}
	for _, r := range rows {
		if len(r.c) == 0 && r.k > 0 {
			return false
		}
	}
	return true
}

// Entails: ctx |= c   (proved by refuting ctx ∧ ¬c).
func Entails(ctx []Constraint, c Constraint) bool {
	if v, ok := c.Trivial(); ok && v {
		return true
	}
	return !Sat(append(append([]Constraint{}, ctx...), c.Not()))
}

// Model searches a small integer box for an assignment of the atoms satisfying all constraints under the
// true (non-abstracted) semantics of products.  Used only to print witnesses for reported disagreements.
func Model(cs []Constraint, lo, hi int64, bounds map[string][2]int64) (map[string]int64, bool) {
	set := map[string]bool{}
	for _, c := range cs {
		for _, a := range c.P.Atoms() {
			set[a] = true
		}
	}
	atoms := make([]string, 0, len(set))
	for a := range set {
		atoms = append(atoms, a)
	}
	sort.Strings(atoms)
	if len(atoms) > 9 {
		return nil, false
	}
	env := map[string]int64{}
	budget := 3000000
	holds := func(final bool) bool {
		for _, c := range cs {
			v, ok := c.P.Eval(env)
			if !ok {
				if final {
					return false
				}
				continue
			}
			switch c.Op {
			case LE:
				if v > 0 {
					return false
				}
			case EQ:
				if v != 0 {
					return false
				}
			case NE:
				if v == 0 {
					return false
				}
			}
		}
		return true
	}
	var rec func(i int) bool
	rec = func(i int) bool {
		if budget <= 0 {
			return false
		}
		if i == len(atoms) {
			return holds(true)
		}
		l, h := lo, hi
		if b, ok := bounds[atoms[i]]; ok {
			l, h = b[0], b[1]
		}
		for v := l; v <= h; v++ {
			budget--
			env[atoms[i]] = v
			if holds(false) && rec(i+1) {
				return true
			}
		}
		delete(env, atoms[i])
		return false
	}
	if rec(0) {
		out := map[string]int64{}
		for k, v := range env {
			out[k] = v
		}
		return out, true
	}
	return nil, false
}

func ModelString(m map[string]int64) string {
	ks := make([]string, 0, len(m))
	for k := range m {
		ks = append(ks, k)
	}
	sort.Strings(ks)
	parts := make([]string, 0, len(ks))
	for _, k := range ks {
		parts = append(parts, fmt.Sprintf("%s=%d", k, m[k]))
	}
	return strings.Join(parts, " ")
}
