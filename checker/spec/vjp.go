package spec

import (
	"fmt"

	"qverif/interp"
	"qverif/sym"
)

// LocalOp describes one application of a public operation on operands that already have the shapes the
// private kernel sees (i.e. after any implicit expansion): the operand tensors are leaves named by role.
type LocalOp struct {
	Method   string
	Operands []interp.PtrV  // by role: 0 = receiver (or first list element), 1.. = tensor arguments
	Args     []interp.Value // the method's non-receiver arguments as passed (tensor args included)
	Result   interp.PtrV
	G        interp.PtrV // leaf tensor standing for the upstream gradient (shape of Result)
	Dim      int         // concrete dim for reducers / concat / (un)squeeze / flatten (when applicable)
}

// VJP returns the expected gradient element (at index #0..) delivered to operand `role`, written from
// the definition of the operation (Appendix B of DESIGN.md).  ok=false when no rule is defined.
func (w *World) VJP(op *LocalOp, role int) (sym.Expr, bool, string) {
	x := op.Operands[role]
	dx := w.Dims(x)
	rx := len(dx)
	y := op.Result
	dy := w.Dims(y)
	ry := len(dy)
	id := IdentIdx(rx)
	g := func(idx []sym.Poly) sym.Expr { return w.elemAt(op.G, idx) }

	switch op.Method {
	case "Scale", "Pow", "Exp", "Log", "Sin", "Cos", "Tan", "Sinh", "Cosh", "Tanh",
		"Add", "Sub", "Mul", "Div", "ElMax", "ElMin":
		// point-wise: g · ∂F/∂operand, with F the forward element expression over the role leaves
		f := w.InfoOf(y).Elem
		name := w.InfoOf(x).Name
		d, ok := sym.Diff(f, name)
		if !ok {
			return sym.Expr{}, false, "forward expression is not point-wise in " + name
		}
		return sym.Mul(g(id), d), true, "g·∂F/∂" + name

	case "SumAlong", "AvgAlong", "MeanAlong", "VarAlong", "StdAlong", "MaxAlong", "MinAlong":
		k := op.Dim
		n := dx[k]
		// index of the output position that the fibre through #0.. belongs to
		gi := make([]sym.Poly, 0, ry)
		for i := 0; i < rx; i++ {
			if i != k {
				gi = append(gi, Ix(i))
			}
		}
		gy := g(gi)
		fibre := func(v string) sym.Expr {
			idx := IdentIdx(rx)
			idx[k] = sym.PAtom(v)
			return w.elemAt(x, idx)
		}
		xi := w.elemAt(x, id)
		nE := sym.PolyE(n)
		switch op.Method {
		case "SumAlong":
			return gy, true, "g re-expanded along dim"
		case "AvgAlong", "MeanAlong":
			return sym.Div(gy, nE), true, "g/n re-expanded"
		case "VarAlong", "StdAlong":
			if c, ok := n.Const(); ok && c == 1 {
				return sym.Expr{}, true, "0 for n=1"
			}
			mean, _ := FibreStat("MeanAlong", n, fibre, Top())
			dev := sym.Sub(xi, mean)
			nm1 := sym.PolyE(n.AddInt(-1))
			if op.Method == "VarAlong" {
				return sym.Mul(gy, sym.Div(sym.Mul(sym.NumI(2), dev), nm1)), true, "g·2(x-mean)/(n-1)"
			}
			std, _ := FibreStat("StdAlong", n, fibre, Top())
			return sym.Mul(gy, sym.Div(dev, sym.Mul(nm1, std))), true, "g·(x-mean)/((n-1)·std)"
		case "MaxAlong", "MinAlong":
			ext, _ := FibreStat(op.Method, n, fibre, Top())
			return sym.Mul(gy, sym.Ind(sym.AbsLE(sym.Sub(xi, ext), sym.SymE(Tol)))), true, "g·[x = extremum]"
		}

	case "Transpose":
		idx := IdentIdx(rx)
		idx[rx-2], idx[rx-1] = idx[rx-1], idx[rx-2]
		return g(idx), true, "gᵀ"

	case "Reshape", "UnSqueeze", "Squeeze", "Flatten":
		return w.reshapeElem(op.G, dx), true, "g viewed in the operand's shape"

	case "Broadcast":
		// sum of g over every new leading axis and every expanded unit axis
		off := ry - rx
		idx := make([]sym.Poly, ry)
		type bnd struct {
			v string
			n sym.Poly
		}
		var binders []bnd
		for j := 0; j < ry; j++ {
			if j < off {
				v := sym.FreshVar()
				idx[j] = sym.PAtom(v)
				binders = append(binders, bnd{v, dy[j]})
				continue
			}
			k := j - off
			if isOne(w.normUnit(dx)[k]) && !isOne(dy[j]) {
				v := sym.FreshVar()
				idx[j] = sym.PAtom(v)
				binders = append(binders, bnd{v, dy[j]})
			} else if isOne(w.normUnit(dx)[k]) {
				idx[j] = sym.PInt(0)
			} else {
				idx[j] = Ix(k)
			}
		}
		e := g(idx)
		for i := len(binders) - 1; i >= 0; i-- {
			e = sym.Sigma(binders[i].v, binders[i].n, e)
		}
		return e, true, "Σ g over the expanded copies"

	case "Slice":
		index := w.rangesOf(op.Args[0])
		ci := completeIdx(index, dx, w)
		var conds []*sym.Cond
		gi := make([]sym.Poly, rx)
		for k := 0; k < rx; k++ {
			conds = append(conds, ge(Ix(k), ci[k].From), lt(Ix(k), ci[k].To))
			gi[k] = Ix(k).Sub(ci[k].From)
		}
		inside := sym.Ind(w.simplifyRange(sym.And(conds...), dx))
		return sym.Mul(inside, g(gi)), true, "zeros with g patched at index"

	case "Patch":
		index := w.rangesOf(op.Args[0])
		p := op.Operands[1]
		dp := w.Dims(p)
		from := make([]sym.Poly, rx)
		for k := 0; k < rx; k++ {
			if k < len(index) && !w.isWhole(index[k]) {
				from[k] = index[k].From
			} else {
				from[k] = sym.PInt(0)
			}
		}
		if role == 0 {
			var conds []*sym.Cond
			for k := 0; k < rx; k++ {
				conds = append(conds, ge(Ix(k), from[k]), lt(Ix(k), from[k].Add(dp[k])))
			}
			inside := sym.Ind(w.simplifyRange(sym.And(conds...), dx))
			return sym.Mul(sym.Sub(sym.NumI(1), inside), g(id)), true, "g with zeros at the patched block"
		}
		gi := make([]sym.Poly, rx)
		for k := 0; k < rx; k++ {
			gi[k] = Ix(k).Add(from[k])
		}
		return g(gi), true, "g sliced at the patched block (extent of the source)"

	case "Concat":
		k := op.Dim
		offp := sym.PInt(0)
		for i := 0; i < role; i++ {
			offp = offp.Add(w.Dims(op.Operands[i])[k])
		}
		gi := IdentIdx(rx)
		gi[k] = gi[k].Add(offp)
		return g(gi), true, "g sliced at this operand's offset along dim"

	case "Dot":
		other := op.Operands[1-role]
		gi := IdentIdx(rx - 1)
		return sym.Mul(g(gi), w.elemAt(other, id)), true, "g[…,None]·other"

	case "MatMul":
		a, b := op.Operands[0], op.Operands[1]
		da := w.Dims(a)
		db := w.Dims(b)
		nb := rx - 2
		v := sym.FreshVar()
		batch := IdentIdx(nb)
		if role == 0 {
			// ga[..,m,n] = Σ_k g[..,m,k]·b[..,n,k]
			gi := append(append([]sym.Poly{}, batch...), Ix(nb), sym.PAtom(v))
			bi := append(append([]sym.Poly{}, batch...), Ix(nb+1), sym.PAtom(v))
			return sym.Sigma(v, db[len(db)-1], sym.Mul(g(gi), w.elemAt(b, bi))), true, "g·bᵀ"
		}
		// gb[..,n,k] = Σ_m a[..,m,n]·g[..,m,k]
		ai := append(append([]sym.Poly{}, batch...), sym.PAtom(v), Ix(nb))
		gi := append(append([]sym.Poly{}, batch...), sym.PAtom(v), Ix(nb+1))
		return sym.Sigma(v, da[len(da)-2], sym.Mul(w.elemAt(a, ai), g(gi))), true, "aᵀ·g"
	}
	return sym.Expr{}, false, fmt.Sprintf("no VJP rule for %s", op.Method)
}

func completeIdx(index []rangeV, d []sym.Poly, w *World) []rangeV {
	ci := make([]rangeV, len(d))
	for k := range d {
		if k >= len(index) || w.isWhole(index[k]) {
			ci[k] = rangeV{sym.PInt(0), d[k]}
		} else {
			ci[k] = index[k]
		}
	}
	return ci
}
