package spec

import (
	"fmt"
	"math"

	"qverif/sym"
)

// Ival abstracts the set of float64 values all elements of a tensor may take: a closed interval in the
// extended reals plus a may-be-NaN flag (domain A3).
type Ival struct {
	Lo, Hi float64
	NaN    bool
}

func Top() Ival               { return Ival{math.Inf(-1), math.Inf(1), true} }
func Pt(c float64) Ival       { return Ival{c, c, math.IsNaN(c)} }
func Rng(lo, hi float64) Ival { return Ival{lo, hi, false} }
func FiniteAny() Ival         { return Ival{-math.MaxFloat64, math.MaxFloat64, false} }

func (a Ival) IsFinite() bool {
	return !a.NaN && !math.IsInf(a.Lo, 0) && !math.IsInf(a.Hi, 0)
}

func (a Ival) String() string {
	s := fmt.Sprintf("[%.4g, %.4g]", a.Lo, a.Hi)
	if a.NaN {
		s += "∪NaN"
	}
	return s
}

func (a Ival) contains(x float64) bool { return a.Lo <= x && x <= a.Hi }
func (a Ival) hasInf() bool            { return math.IsInf(a.Lo, 0) || math.IsInf(a.Hi, 0) }

func (a Ival) Join(b Ival) Ival {
	return Ival{math.Min(a.Lo, b.Lo), math.Max(a.Hi, b.Hi), a.NaN || b.NaN}
}

func hull(vals ...float64) (lo, hi float64, nan bool) {
	lo, hi = math.Inf(1), math.Inf(-1)
	for _, v := range vals {
		if math.IsNaN(v) {
			nan = true
			continue
		}
		lo = math.Min(lo, v)
		hi = math.Max(hi, v)
	}
	if lo > hi {
		lo, hi = math.Inf(-1), math.Inf(1)
	}
	return
}

func (a Ival) Neg() Ival { return Ival{-a.Hi, -a.Lo, a.NaN} }

func (a Ival) Add(b Ival) Ival {
	nan := a.NaN || b.NaN
	// +Inf + -Inf
	if (math.IsInf(a.Hi, 1) && math.IsInf(b.Lo, -1)) || (math.IsInf(a.Lo, -1) && math.IsInf(b.Hi, 1)) {
		nan = true
	}
	lo, hi := a.Lo+b.Lo, a.Hi+b.Hi
	if math.IsNaN(lo) {
		lo = math.Inf(-1)
	}
	if math.IsNaN(hi) {
		hi = math.Inf(1)
	}
	return Ival{lo, hi, nan}
}

func (a Ival) Sub(b Ival) Ival { return a.Add(b.Neg()) }

func (a Ival) Mul(b Ival) Ival {
	nan := a.NaN || b.NaN
	if (a.contains(0) && b.hasInf()) || (b.contains(0) && a.hasInf()) {
		nan = true // 0·Inf
	}
	lo, hi, _ := hull(mulx(a.Lo, b.Lo), mulx(a.Lo, b.Hi), mulx(a.Hi, b.Lo), mulx(a.Hi, b.Hi))
	return Ival{lo, hi, nan}
}

// mulx is the interval-endpoint product with 0·Inf = 0 (the NaN case is flagged separately).
func mulx(x, y float64) float64 {
	if x == 0 || y == 0 {
		return 0
	}
	return x * y
}

func (a Ival) Scale(c float64) Ival { return a.Mul(Pt(c)) }

func (a Ival) Recip() Ival {
	nan := a.NaN
	if a.Lo > 0 || a.Hi < 0 {
		lo, hi, _ := hull(1/a.Lo, 1/a.Hi)
		return Ival{lo, hi, nan}
	}
	// contains 0: 1/0 = ±Inf
	if a.Lo == 0 && a.Hi == 0 {
		return Ival{math.Inf(-1), math.Inf(1), nan}
	}
	return Ival{math.Inf(-1), math.Inf(1), nan}
}

func (a Ival) Div(b Ival) Ival {
	r := a.Mul(b.Recip())
	if a.contains(0) && b.contains(0) {
		r.NaN = true // 0/0
	}
	if a.hasInf() && b.hasInf() {
		r.NaN = true
	}
	return r
}

// PowC is x^c for a constant exponent, with Go's math.Pow conventions (x^0 = 1 for every x).
func (a Ival) PowC(c float64) Ival {
	switch {
	case c == 0:
		return Pt(1)
	case c == 1:
		return a
	case c == 2:
		lo, hi, _ := hull(a.Lo*a.Lo, a.Hi*a.Hi)
		if a.contains(0) {
			lo = 0
		}
		return Ival{lo, hi, a.NaN}
	case c == -1:
		return a.Recip()
	case c == -2:
		return a.PowC(2).Recip()
	}
	if a.Lo > 0 {
		lo, hi, n := hull(math.Pow(a.Lo, c), math.Pow(a.Hi, c))
		return Ival{lo, hi, a.NaN || n}
	}
	if c == math.Trunc(c) && c > 0 {
		// integer power: bounded by endpoint magnitudes
		mx := math.Max(math.Abs(a.Lo), math.Abs(a.Hi))
		b := math.Pow(mx, c)
		if int64(c)%2 == 0 {
			return Ival{0, b, a.NaN}
		}
		return Ival{-b, b, a.NaN}
	}
	return Top()
}

func mono(a Ival, f func(float64) float64) Ival {
	lo, hi, n := hull(f(a.Lo), f(a.Hi))
	return Ival{lo, hi, a.NaN || n}
}

func (a Ival) Exp() Ival { return mono(a, math.Exp) }

func (a Ival) Log() Ival {
	if a.Lo < 0 {
		r := Ival{math.Inf(-1), math.Log(math.Max(a.Hi, 0)), true}
		if a.Hi <= 0 {
			r.Hi = math.Inf(-1)
		}
		return r
	}
	return mono(a, math.Log)
}

func (a Ival) Sqrt() Ival {
	if a.Lo < 0 {
		return Ival{0, math.Sqrt(math.Max(a.Hi, 0)), true}
	}
	return mono(a, math.Sqrt)
}

func (a Ival) bounded(lo, hi float64) Ival {
	nan := a.NaN || a.hasInf() // sin(Inf) = NaN
	return Ival{lo, hi, nan}
}

func (a Ival) Sin() Ival  { return a.bounded(-1, 1) }
func (a Ival) Cos() Ival  { return a.bounded(-1, 1) }
func (a Ival) Tanh() Ival { return Ival{-1, 1, a.NaN} }
func (a Ival) Tan() Ival {
	r := FiniteAny()
	r.NaN = a.NaN || a.hasInf()
	return r
}
func (a Ival) Sinh() Ival { return mono(a, math.Sinh) }
func (a Ival) Cosh() Ival {
	lo, hi, n := hull(math.Cosh(a.Lo), math.Cosh(a.Hi))
	if a.contains(0) {
		lo = 1
	}
	return Ival{lo, hi, a.NaN || n}
}

func (a Ival) Abs() Ival {
	lo, hi, _ := hull(math.Abs(a.Lo), math.Abs(a.Hi))
	if a.contains(0) {
		lo = 0
	}
	return Ival{lo, hi, a.NaN}
}

func (a Ival) Max(b Ival) Ival {
	return Ival{math.Max(a.Lo, b.Lo), math.Max(a.Hi, b.Hi), a.NaN || b.NaN}
}

func (a Ival) Min(b Ival) Ival {
	return Ival{math.Min(a.Lo, b.Lo), math.Min(a.Hi, b.Hi), a.NaN || b.NaN}
}

// SumN is the sum of n>=1 elements each in a (n unknown): sign information is kept, magnitude is not.
func (a Ival) SumN() Ival {
	r := Ival{math.Inf(-1), math.Inf(1), a.NaN}
	if a.Lo >= 0 {
		r.Lo = a.Lo
	}
	if a.Hi <= 0 {
		r.Hi = a.Hi
	}
	if a.IsFinite() {
		// a finite sum of finite values is finite (overflow is outside the stated magnitudes)
		if math.IsInf(r.Lo, -1) {
			r.Lo = -math.MaxFloat64
		}
		if math.IsInf(r.Hi, 1) {
			r.Hi = math.MaxFloat64
		}
	}
	if a.hasInf() && a.Lo < 0 && a.Hi > 0 {
		r.NaN = true
	}
	return r
}

// MeanN is the mean of n>=1 elements each in a.
func (a Ival) MeanN() Ival { return a }

func Bool01() Ival { return Rng(0, 1) }

// IvalOfExpr evaluates a real expression in the interval domain; leaf gives the range of a tensor leaf's
// elements, symr the range of a scalar symbol.
func IvalOfExpr(e sym.Expr, leaf func(name string) Ival, symr func(name string) Ival) Ival {
	return e.FoldIval(ivalOps{leaf: leaf, symr: symr}).(Ival)
}

type ivalOps struct {
	leaf func(string) Ival
	symr func(string) Ival
}

func (o ivalOps) Const(f float64) any     { return Pt(f) }
func (o ivalOps) Sym(name string) any     { return o.symr(name) }
func (o ivalOps) Leaf(name string) any    { return o.leaf(name) }
func (o ivalOps) Add(a, b any) any        { return a.(Ival).Add(b.(Ival)) }
func (o ivalOps) Mul(a, b any) any        { return a.(Ival).Mul(b.(Ival)) }
func (o ivalOps) PowInt(a any, k int) any { return a.(Ival).PowC(float64(k)) }
func (o ivalOps) Pow(a, b any) any {
	bi := b.(Ival)
	if bi.Lo == bi.Hi && !bi.NaN {
		return a.(Ival).PowC(bi.Lo)
	}
	return Top()
}
func (o ivalOps) Ind() any       { return Rng(0, 1) }
func (o ivalOps) SumN(a any) any { return a.(Ival).SumN() }
func (o ivalOps) MaxN(a any) any { return a }
func (o ivalOps) Fn(name string, args []any) any {
	a := args[0].(Ival)
	switch name {
	case "exp":
		return a.Exp()
	case "log":
		return a.Log()
	case "sin":
		return a.Sin()
	case "cos":
		return a.Cos()
	case "tan":
		return a.Tan()
	case "sinh":
		return a.Sinh()
	case "cosh":
		return a.Cosh()
	case "tanh":
		return a.Tanh()
	case "sqrt":
		return a.Sqrt()
	case "abs":
		return a.Abs()
	case "clamp":
		return a.Min(args[2].(Ival)).Max(args[1].(Ival))
	case "max":
		return a.Max(args[1].(Ival))
	case "min":
		return a.Min(args[1].(Ival))
	}
	return Top()
}
