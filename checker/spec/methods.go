package spec

import (
	"fmt"
	"go/types"

	"qverif/interp"
	"qverif/sym"
)

// Tol is the symbol for the library's absolute equality tolerance (a non-negative constant).
const Tol = "τ"

func one() sym.Poly { return sym.PInt(1) }

func isOne(p sym.Poly) bool {
	c, ok := p.Const()
	return ok && c == 1
}

func prod(ps []sym.Poly) sym.Poly {
	r := sym.PInt(1)
	for _, p := range ps {
		r = r.Mul(p)
	}
	return r
}

func ge(a, b sym.Poly) *sym.Cond { return sym.IntCond(sym.CGe(a, b)) }
func lt(a, b sym.Poly) *sym.Cond { return sym.IntCond(sym.CLt(a, b)) }
func le(a, b sym.Poly) *sym.Cond { return sym.IntCond(sym.CLe(a, b)) }
func eq(a, b sym.Poly) *sym.Cond { return sym.IntCond(sym.CEq(a, b)) }

func (w *World) intsOf(v interp.Value) []sym.Poly {
	s, ok := v.(interp.SliceV)
	if !ok {
		if interp.IsNil(v) {
			return nil
		}
		panic(interp.Unsupported{Msg: "expected []int, got " + interp.Describe(v)})
	}
	out := make([]sym.Poly, s.Len)
	for i, e := range interp.SliceElems(s) {
		out[i] = e.(interp.IntV).P
	}
	return out
}

type rangeV struct{ From, To sym.Poly }

func (w *World) rangesOf(v interp.Value) []rangeV {
	s, ok := v.(interp.SliceV)
	if !ok {
		if interp.IsNil(v) {
			return nil
		}
		panic(interp.Unsupported{Msg: "expected []Range, got " + interp.Describe(v)})
	}
	out := make([]rangeV, s.Len)
	for i, e := range interp.SliceElems(s) {
		sv := e.(interp.StructV)
		out[i] = rangeV{sv.F[w.A.RFrom].(interp.IntV).P, sv.F[w.A.RTo].(interp.IntV).P}
	}
	return out
}

func (w *World) intSlice(ps []sym.Poly) interp.Value {
	vals := make([]interp.Value, len(ps))
	for i, p := range ps {
		vals[i] = interp.IntV{P: p}
	}
	return w.M.SliceOf(w.A.IntT, vals, "shape")
}

// elemOf returns the element expression of t re-indexed by the given index polynomials (one per axis).
func (w *World) elemAt(t interp.PtrV, idx []sym.Poly) sym.Expr {
	ti := w.InfoOf(t)
	if !ti.Has {
		panic(interp.Unsupported{Msg: "element semantics of tensor " + ti.Name + " unknown"})
	}
	m := map[string]sym.Poly{}
	for k, p := range idx {
		m[IxName(k)] = p
	}
	return ti.Elem.SubstIdx(m)
}

func (w *World) result(name string, dims []sym.Poly, elem sym.Expr, rng Ival) interp.PtrV {
	// the context the real constructors would attach, as far as its flags go (no back edges in spec mode)
	anyDirty, anyTracked := false, false
	for _, o := range w.curOperands {
		g, ok := w.GctxOf(o)
		if !ok {
			continue
		}
		if b, ok := interp.Load(g.C.Fields[w.A.GDirty]).(interp.BoolV); ok && b.Known && b.Val {
			anyDirty = true
		}
		if b, ok := interp.Load(g.C.Fields[w.A.GTracked]).(interp.BoolV); ok && b.Known && b.Val {
			anyTracked = true
		}
	}
	cmp := map[string]bool{"Eq": true, "Ne": true, "Gt": true, "Ge": true, "Lt": true, "Le": true}[name]
	tracked := anyTracked && !anyDirty && !cmp
	g := w.NewGradContext(tracked, anyDirty && !cmp, nil)
	if tracked {
		w.SpecTracked++
	}
	return w.NewTensor(w.fresh(name), dims, elem, rng, g)
}

// bcIdx maps the index of a source (dims s) into a result of shape S by right alignment; unit source axes read index 0.
func bcIdx(s, S []sym.Poly) []sym.Poly {
	r, R := len(s), len(S)
	idx := make([]sym.Poly, r)
	for k := 0; k < r; k++ {
		if isOne(s[k]) {
			idx[k] = sym.PInt(0)
		} else {
			idx[k] = Ix(k + R - r)
		}
	}
	return idx
}

// broadcastShape computes the right-aligned broadcast of two shapes, branching on undetermined size relations.
func (w *World) broadcastShape(a, b []sym.Poly) ([]sym.Poly, bool) {
	ra, rb := len(a), len(b)
	R := ra
	if rb > R {
		R = rb
	}
	out := make([]sym.Poly, R)
	for k := 1; k <= R; k++ {
		var x, y sym.Poly
		hx, hy := k <= ra, k <= rb
		if hx {
			x = a[ra-k]
		}
		if hy {
			y = b[rb-k]
		}
		switch {
		case hx && !hy:
			out[R-k] = x
		case hy && !hx:
			out[R-k] = y
		default:
			if w.M.Branch(eq(x, y)) {
				out[R-k] = x
			} else if w.M.Branch(eq(x, one())) {
				out[R-k] = y
			} else if w.M.Branch(eq(y, one())) {
				out[R-k] = x
			} else {
				return nil, false
			}
		}
	}
	return out, true
}

// canBroadcastTo: source dims s right-aligned against target S, each equal or 1.
func (w *World) canBroadcastTo(s, S []sym.Poly) bool {
	if len(s) > len(S) {
		return false
	}
	off := len(S) - len(s)
	for k := range s {
		if w.M.Branch(eq(s[k], S[k+off])) {
			continue
		}
		if w.M.Branch(eq(s[k], one())) {
			continue
		}
		return false
	}
	return true
}

// normUnit rewrites dims known (on this path) to equal 1 into the literal 1 so that index maps treat them as unit axes.
func (w *World) normUnit(d []sym.Poly) []sym.Poly {
	out := make([]sym.Poly, len(d))
	for i, p := range d {
		if !isOne(p) && w.M.Entailed(eq(p, one())) {
			out[i] = one()
		} else {
			out[i] = p
		}
	}
	return out
}

func (w *World) broadcastElem(t interp.PtrV, S []sym.Poly) sym.Expr {
	s := w.normUnit(w.Dims(t))
	// a source axis whose size equals the target's is indexed by the target index even when it is 1
	idx := bcIdx(s, S)
	return w.elemAt(t, idx)
}

func (w *World) allPositive(ps []sym.Poly) bool {
	for _, p := range ps {
		if !w.M.Branch(ge(p, one())) {
			return false
		}
	}
	return true
}

func unaryIval(name string, a Ival, c float64, hasC bool) Ival {
	switch name {
	case "Exp":
		return a.Exp()
	case "Log":
		return a.Log()
	case "Sin":
		return a.Sin()
	case "Cos":
		return a.Cos()
	case "Tan":
		return a.Tan()
	case "Sinh":
		return a.Sinh()
	case "Cosh":
		return a.Cosh()
	case "Tanh":
		return a.Tanh()
	case "Scale":
		if hasC {
			return a.Scale(c)
		}
		return a.Mul(Rng(-1e3, 1e3)) // symbolic scalar parameters are taken from [-1e3, 1e3]
	case "Pow":
		if hasC {
			return a.PowC(c)
		}
		return Top()
	}
	return Top()
}

var unaryFn = map[string]string{"Exp": "exp", "Log": "log", "Sin": "sin", "Cos": "cos", "Tan": "tan", "Sinh": "sinh", "Cosh": "cosh", "Tanh": "tanh"}

func floatConst(v interp.Value) (float64, bool) {
	f, ok := v.(interp.FloatV)
	if !ok {
		return 0, false
	}
	r, ok := f.E.Const()
	if !ok {
		return 0, false
	}
	x, _ := r.Float64()
	return x, true
}

// Method is the summary of the public Tensor method `name` applied to tensor object recv.
func (w *World) Method(name string, recv interp.PtrV, args []interp.Value) (interp.Value, bool) {
	d := w.Dims(recv)
	r := len(d)
	ti := w.InfoOf(recv)
	id := IdentIdx(r)
	w.curOperands = []interp.PtrV{recv}
	for _, a := range args {
		if t, ok := w.AsTensor(a); ok {
			w.curOperands = append(w.curOperands, t)
		}
	}
	switch name {
	case "NElems":
		return interp.IntV{P: prod(d)}, true
	case "Shape":
		return w.intSlice(d), true
	case "GradContext":
		g, ok := w.GctxOf(recv)
		if !ok {
			return interp.IfaceV{T: typesPtr(w.A), V: interp.NilV{}}, true
		}
		return interp.IfaceV{T: typesPtr(w.A), V: g}, true
	case "Gradient":
		g, ok := w.GctxOf(recv)
		if !ok {
			return interp.NilV{}, true
		}
		return interp.Load(g.C.Fields[w.A.GGradient]), true
	case "ResetGradContext":
		b := args[0].(interp.BoolV)
		if !b.Known {
			panic(interp.Unsupported{Msg: "symbolic tracking flag"})
		}
		if w.M.OnStore != nil {
			w.M.OnStore(recv.C.Fields[w.A.FGctx], 0, nil)
		}
		interp.Store(recv.C.Fields[w.A.FGctx], w.NewGradContext(b.Val, false, nil))
		return nil, true

	case "Scale", "Pow":
		c := args[0].(interp.FloatV).E
		cf, hasC := floatConst(args[0])
		var e sym.Expr
		if name == "Scale" {
			e = sym.Mul(c, w.elemAt(recv, id))
		} else {
			e = sym.PowE(w.elemAt(recv, id), c)
		}
		return w.Boxed(w.result(name, d, e, unaryIval(name, ti.Rng, cf, hasC))), true
	case "Exp", "Log", "Sin", "Cos", "Tan", "Sinh", "Cosh", "Tanh":
		e := sym.FnE(unaryFn[name], w.elemAt(recv, id))
		return w.Boxed(w.result(name, d, e, unaryIval(name, ti.Rng, 0, false))), true

	case "Eq", "Ne", "Gt", "Ge", "Lt", "Le", "ElMax", "ElMin", "Equals":
		u, ok := w.AsTensor(args[0])
		if !ok {
			if name == "Equals" {
				return interp.TupleV{V: []interp.Value{interp.BoolC(false), interp.ErrV{Msg: name + ": operand is nil or not a CPU tensor"}}}, true
			}
			return w.errResult("%s: operand is nil or not a CPU tensor", name), true
		}
		du := w.Dims(u)
		same := len(du) == r
		if same {
			for k := range d {
				if !w.M.Branch(eq(d[k], du[k])) {
					same = false
					break
				}
			}
		}
		if !same {
			if name == "Equals" {
				return interp.TupleV{V: []interp.Value{interp.BoolC(false), interp.ErrV{Msg: "Equals: shapes differ"}}}, true
			}
			return w.errResult("%s: shapes differ", name), true
		}
		a, b := w.elemAt(recv, id), w.elemAt(u, id)
		tu := w.InfoOf(u)
		var e sym.Expr
		rng := Bool01()
		switch name {
		case "Eq":
			e = sym.Ind(sym.AbsLE(sym.Sub(a, b), sym.SymE(Tol)))
		case "Ne":
			e = sym.Sub(sym.NumI(1), sym.Ind(sym.AbsLE(sym.Sub(a, b), sym.SymE(Tol))))
		case "Gt":
			e = sym.Ind(sym.RealGT(a, b))
		case "Ge":
			e = sym.Ind(sym.RealGE(a, b))
		case "Lt":
			e = sym.Ind(sym.RealLT(a, b))
		case "Le":
			e = sym.Ind(sym.RealLE(a, b))
		case "ElMax":
			e = sym.FnE("max", a, b)
			rng = ti.Rng.Max(tu.Rng)
		case "ElMin":
			e = sym.FnE("min", a, b)
			rng = ti.Rng.Min(tu.Rng)
		case "Equals":
			return interp.TupleV{V: []interp.Value{interp.BoolV{C: sym.RealEQ(sym.SymE(w.fresh("equals")), sym.Expr{})}, interp.NilV{}}}, true
		}
		return w.okResult(w.result(name, d, e, rng)), true

	case "Add", "Sub", "Mul", "Div":
		u, ok := w.AsTensor(args[0])
		if !ok {
			return w.errResult("%s: operand is nil or not a CPU tensor", name), true
		}
		du := w.Dims(u)
		S, ok := w.broadcastShape(d, du)
		if !ok {
			return w.errResult("%s: shapes %v and %v are not broadcast-compatible", name, d, du), true
		}
		a, b := w.broadcastElem(recv, S), w.broadcastElem(u, S)
		tu := w.InfoOf(u)
		var e sym.Expr
		var rng Ival
		switch name {
		case "Add":
			e, rng = sym.Add(a, b), ti.Rng.Add(tu.Rng)
		case "Sub":
			e, rng = sym.Sub(a, b), ti.Rng.Sub(tu.Rng)
		case "Mul":
			e, rng = sym.Mul(a, b), ti.Rng.Mul(tu.Rng)
		case "Div":
			e, rng = sym.Div(a, b), ti.Rng.Div(tu.Rng)
		}
		return w.okResult(w.result(name, S, e, rng)), true

	case "Dot":
		u, ok := w.AsTensor(args[0])
		if !ok {
			return w.errResult("Dot: operand is nil or not a CPU tensor"), true
		}
		du := w.Dims(u)
		if r < 1 || len(du) < 1 {
			return w.errResult("Dot: rank < 1"), true
		}
		if !w.M.Branch(eq(d[r-1], du[len(du)-1])) {
			return w.errResult("Dot: last dimensions differ"), true
		}
		S, ok := w.broadcastShape(d, du)
		if !ok {
			return w.errResult("Dot: leading dimensions not broadcast-compatible"), true
		}
		R := len(S)
		v := sym.FreshVar()
		// operand index: leading axes by right alignment against S, last axis bound
		mk := func(t interp.PtrV) sym.Expr {
			s := w.normUnit(w.Dims(t))
			idx := bcIdx(s, S)
			// result rank is R-1: result index #j corresponds to S axis j for j<R-1
			idx[len(idx)-1] = sym.PAtom(v)
			return w.elemAt(t, idx)
		}
		body := sym.Mul(mk(recv), mk(u))
		e := sym.Sigma(v, S[R-1], body)
		tu := w.InfoOf(u)
		return w.okResult(w.result("Dot", S[:R-1], e, ti.Rng.Mul(tu.Rng).SumN())), true

	case "MatMul":
		u, ok := w.AsTensor(args[0])
		if !ok {
			return w.errResult("MatMul: operand is nil or not a CPU tensor"), true
		}
		du := w.Dims(u)
		ru := len(du)
		if r < 2 || ru < 2 {
			return w.errResult("MatMul: rank < 2"), true
		}
		if !w.M.Branch(eq(d[r-1], du[ru-2])) {
			return w.errResult("MatMul: inner dimensions differ"), true
		}
		B, ok := w.broadcastShape(d[:r-2], du[:ru-2])
		if !ok {
			return w.errResult("MatMul: batch dimensions not broadcast-compatible"), true
		}
		nb := len(B)
		S := append(append([]sym.Poly{}, B...), d[r-2], du[ru-1])
		v := sym.FreshVar()
		ia := bcIdxBatch(w.normUnit(d[:r-2]), B)
		ia = append(ia, Ix(nb), sym.PAtom(v))
		ib := bcIdxBatch(w.normUnit(du[:ru-2]), B)
		ib = append(ib, sym.PAtom(v), Ix(nb+1))
		body := sym.Mul(w.elemAt(recv, ia), w.elemAt(u, ib))
		e := sym.Sigma(v, d[r-1], body)
		tu := w.InfoOf(u)
		return w.okResult(w.result("MatMul", S, e, ti.Rng.Mul(tu.Rng).SumN())), true

	case "Transpose":
		if r < 2 {
			return w.errResult("Transpose: rank < 2"), true
		}
		S := append([]sym.Poly{}, d...)
		S[r-2], S[r-1] = S[r-1], S[r-2]
		idx := IdentIdx(r)
		idx[r-2], idx[r-1] = idx[r-1], idx[r-2]
		return w.okResult(w.result("Transpose", S, w.elemAt(recv, idx), ti.Rng)), true

	case "Reshape":
		S := w.intsOf(args[0])
		if !w.allPositive(S) {
			return w.errResult("Reshape: non-positive size"), true
		}
		if !w.M.Branch(eq(prod(S), prod(d))) {
			return w.errResult("Reshape: element counts differ"), true
		}
		return w.okResult(w.result("Reshape", S, w.reshapeElem(recv, S), ti.Rng)), true

	case "UnSqueeze":
		dim := args[0].(interp.IntV)
		if !w.M.Branch(sym.And(ge(dim.P, sym.PInt(0)), le(dim.P, sym.PInt(int64(r))))) {
			return w.errResult("UnSqueeze: dim out of range"), true
		}
		k, _ := w.M.Concretize(dim, 0, r)
		S := append(append(append([]sym.Poly{}, d[:k]...), one()), d[k:]...)
		idx := make([]sym.Poly, r)
		for i := 0; i < r; i++ {
			if i < k {
				idx[i] = Ix(i)
			} else {
				idx[i] = Ix(i + 1)
			}
		}
		return w.okResult(w.result("UnSqueeze", S, w.elemAt(recv, idx), ti.Rng)), true

	case "Squeeze":
		dim := args[0].(interp.IntV)
		if !w.M.Branch(sym.And(ge(dim.P, sym.PInt(0)), lt(dim.P, sym.PInt(int64(r))))) {
			return w.errResult("Squeeze: dim out of range"), true
		}
		k, _ := w.M.Concretize(dim, 0, r-1)
		if !w.M.Branch(eq(d[k], one())) {
			return w.errResult("Squeeze: dimension is not 1"), true
		}
		S := append(append([]sym.Poly{}, d[:k]...), d[k+1:]...)
		idx := make([]sym.Poly, r)
		for i := 0; i < r; i++ {
			switch {
			case i < k:
				idx[i] = Ix(i)
			case i == k:
				idx[i] = sym.PInt(0)
			default:
				idx[i] = Ix(i - 1)
			}
		}
		return w.okResult(w.result("Squeeze", S, w.elemAt(recv, idx), ti.Rng)), true

	case "Flatten":
		dim := args[0].(interp.IntV)
		if !w.M.Branch(sym.And(ge(dim.P, sym.PInt(0)), lt(dim.P, sym.PInt(int64(r))))) {
			return w.errResult("Flatten: dim out of range"), true
		}
		k, _ := w.M.Concretize(dim, 0, r-1)
		S := append(append([]sym.Poly{}, d[:k]...), prod(d[k:]))
		return w.okResult(w.result("Flatten", S, w.reshapeElem(recv, S), ti.Rng)), true

	case "Broadcast":
		S := w.intsOf(args[0])
		if !w.allPositive(S) {
			return w.errResult("Broadcast: non-positive size"), true
		}
		if !w.canBroadcastTo(d, S) {
			return w.errResult("Broadcast: source %v cannot be broadcast to %v", d, S), true
		}
		return w.okResult(w.result("Broadcast", S, w.broadcastElem(recv, S), ti.Rng)), true

	case "Slice":
		index := w.rangesOf(args[0])
		ci, ok := w.validIndex(index, d)
		if !ok {
			return w.errResult("Slice: invalid index"), true
		}
		S := make([]sym.Poly, r)
		idx := make([]sym.Poly, r)
		for k := 0; k < r; k++ {
			S[k] = ci[k].To.Sub(ci[k].From)
			idx[k] = Ix(k).Add(ci[k].From)
		}
		return w.okResult(w.result("Slice", S, w.elemAt(recv, idx), ti.Rng)), true

	case "Patch":
		index := w.rangesOf(args[0])
		u, ok := w.AsTensor(args[1])
		if !ok {
			return w.errResult("Patch: source is nil or not a CPU tensor"), true
		}
		du := w.Dims(u)
		if len(du) != r {
			return w.errResult("Patch: ranks differ"), true
		}
		for k := 0; k < r; k++ {
			if !w.M.Branch(le(du[k], d[k])) {
				return w.errResult("Patch: source larger than target"), true
			}
		}
		ci, ok := w.validIndex(index, d)
		if !ok {
			return w.errResult("Patch: invalid index"), true
		}
		// explicit (non-{0,0}) ranges must cover the source exactly; omitted ones place it at offset 0
		from := make([]sym.Poly, r)
		for k := 0; k < r; k++ {
			if k < len(index) && !w.isWhole(index[k]) {
				if !w.M.Branch(eq(ci[k].To.Sub(ci[k].From), du[k])) {
					return w.errResult("Patch: range does not cover the source"), true
				}
				from[k] = ci[k].From
			} else {
				from[k] = sym.PInt(0)
			}
		}
		var conds []*sym.Cond
		pidx := make([]sym.Poly, r)
		for k := 0; k < r; k++ {
			conds = append(conds, ge(Ix(k), from[k]), lt(Ix(k), from[k].Add(du[k])))
			pidx[k] = Ix(k).Sub(from[k])
		}
		inside := sym.Ind(w.simplifyRange(sym.And(conds...), d))
		tu := w.InfoOf(u)
		e := sym.Add(sym.Mul(inside, w.elemAt(u, pidx)), sym.Mul(sym.Sub(sym.NumI(1), inside), w.elemAt(recv, id)))
		return w.okResult(w.result("Patch", d, e, ti.Rng.Join(tu.Rng))), true

	case "SumAlong", "MaxAlong", "MinAlong", "AvgAlong", "VarAlong", "StdAlong", "MeanAlong":
		dim := args[0].(interp.IntV)
		if !w.M.Branch(sym.And(ge(dim.P, sym.PInt(0)), lt(dim.P, sym.PInt(int64(r))))) {
			return w.errResult("%s: dim out of range", name), true
		}
		k, _ := w.M.Concretize(dim, 0, r-1)
		S := append(append([]sym.Poly{}, d[:k]...), d[k+1:]...)
		e, rng := w.fibreStat(name, recv, k)
		return w.okResult(w.result(name, S, e, rng)), true

	case "Sum", "Max", "Min", "Avg", "Mean":
		// whole-tensor folds as nested binders over every axis
		e := w.elemAt(recv, id)
		for k := r - 1; k >= 0; k-- {
			v := sym.FreshVar()
			body := e.SubstIdx(map[string]sym.Poly{IxName(k): sym.PAtom(v)})
			switch name {
			case "Max":
				e = sym.BigMax(v, d[k], body)
			case "Min":
				e = sym.BigMin(v, d[k], body)
			default:
				e = sym.Sigma(v, d[k], body)
			}
		}
		if name == "Avg" || name == "Mean" {
			e = sym.Div(e, sym.PolyE(prod(d)))
		}
		return interp.FloatV{E: e}, true
	case "Var", "Std":
		// unbiased sample variance over all N elements (0 for N = 1) and its square root
		N := prod(d)
		var fold func(k int, body func(idx []sym.Poly) sym.Expr, idx []sym.Poly) sym.Expr
		fold = func(k int, body func(idx []sym.Poly) sym.Expr, idx []sym.Poly) sym.Expr {
			if k == r {
				return body(idx)
			}
			v := sym.FreshVar()
			return sym.Sigma(v, d[k], fold(k+1, body, append(append([]sym.Poly{}, idx...), sym.PAtom(v))))
		}
		sum := fold(0, func(idx []sym.Poly) sym.Expr { return w.elemAt(recv, idx) }, nil)
		mean := sym.Div(sum, sym.PolyE(N))
		var variance sym.Expr
		if c, ok := N.Const(); ok && c == 1 {
			variance = sym.Expr{}
		} else {
			ss := fold(0, func(idx []sym.Poly) sym.Expr { return sym.PowInt(sym.Sub(w.elemAt(recv, idx), mean), 2) }, nil)
			variance = sym.Div(ss, sym.PolyE(N.AddInt(-1)))
		}
		if name == "Std" {
			return interp.FloatV{E: sym.FnE("sqrt", variance)}, true
		}
		return interp.FloatV{E: variance}, true

	case "At":
		var idx []sym.Poly
		if len(args) == 1 {
			idx = w.intsOf(args[0])
		}
		if len(idx) != r {
			return interp.TupleV{V: []interp.Value{interp.FloatV{}, interp.ErrV{Msg: "At: index length differs from rank"}}}, true
		}
		for k := range idx {
			if !w.M.Branch(sym.And(ge(idx[k], sym.PInt(0)), lt(idx[k], d[k]))) {
				return interp.TupleV{V: []interp.Value{interp.FloatV{}, interp.ErrV{Msg: "At: index out of range"}}}, true
			}
		}
		return interp.TupleV{V: []interp.Value{interp.FloatV{E: w.elemAt(recv, idx)}, interp.NilV{}}}, true
	}
	return nil, false
}

func typesPtr(a *Anchors) types.Type { return types.NewPointer(a.GradContext) }

// bcIdxBatch maps batch axes (dims s) into batch shape B by right alignment.
func bcIdxBatch(s, B []sym.Poly) []sym.Poly {
	r, R := len(s), len(B)
	idx := make([]sym.Poly, r)
	for k := 0; k < r; k++ {
		if isOne(s[k]) {
			idx[k] = sym.PInt(0)
		} else {
			idx[k] = Ix(k + R - r)
		}
	}
	return idx
}

func (w *World) isWhole(rg rangeV) bool {
	return w.M.Entailed(sym.And(eq(rg.From, sym.PInt(0)), eq(rg.To, sym.PInt(0))))
}

// validIndex checks a Slice/Patch index against dims and returns the completed index.
func (w *World) validIndex(index []rangeV, d []sym.Poly) ([]rangeV, bool) {
	r := len(d)
	if len(index) > r {
		return nil, false
	}
	ci := make([]rangeV, r)
	for k := 0; k < r; k++ {
		if k >= len(index) {
			ci[k] = rangeV{sym.PInt(0), d[k]}
			continue
		}
		rg := index[k]
		if w.M.Branch(sym.And(eq(rg.From, sym.PInt(0)), eq(rg.To, sym.PInt(0)))) {
			ci[k] = rangeV{sym.PInt(0), d[k]}
			continue
		}
		if !w.M.Branch(sym.And(ge(rg.From, sym.PInt(0)), lt(rg.From, rg.To), le(rg.To, d[k]))) {
			return nil, false
		}
		ci[k] = rg
	}
	return ci, true
}

// simplifyRange drops range literals that hold for every index of the result (0 <= #k < d_k).
func (w *World) simplifyRange(c *sym.Cond, d []sym.Poly) *sym.Cond {
	if c.Kind != sym.CAnd && c.Kind != sym.CInt {
		return c
	}
	var ctx []sym.Constraint
	ctx = append(ctx, w.M.PathConstraints()...)
	for k, dk := range d {
		ctx = append(ctx, sym.CGe(Ix(k), sym.PInt(0)), sym.CLt(Ix(k), dk))
	}
	subs := []*sym.Cond{c}
	if c.Kind == sym.CAnd {
		subs = c.Sub
	}
	var keep []*sym.Cond
	for _, s := range subs {
		if s.Kind == sym.CInt && sym.Entails(ctx, s.C) {
			continue
		}
		keep = append(keep, s)
	}
	return sym.And(keep...)
}

// fibreStat builds the statistic of the fibre along axis k at result index (#0..#r-2).
func (w *World) fibreStat(name string, t interp.PtrV, k int) (sym.Expr, Ival) {
	d := w.Dims(t)
	r := len(d)
	ti := w.InfoOf(t)
	n := d[k]
	fibre := func(v string) sym.Expr {
		idx := make([]sym.Poly, r)
		for i := 0; i < r; i++ {
			switch {
			case i < k:
				idx[i] = Ix(i)
			case i == k:
				idx[i] = sym.PAtom(v)
			default:
				idx[i] = Ix(i - 1)
			}
		}
		return w.elemAt(t, idx)
	}
	return FibreStat(name, n, fibre, ti.Rng)
}

// FibreStat is the definition of the seven statistics over x_0..x_{n-1} given by fibre(v).
func FibreStat(name string, n sym.Poly, fibre func(v string) sym.Expr, rng Ival) (sym.Expr, Ival) {
	nE := sym.PolyE(n)
	sum := func() sym.Expr {
		v := sym.FreshVar()
		return sym.Sigma(v, n, fibre(v))
	}
	mean := func() sym.Expr { return sym.Div(sum(), nE) }
	variance := func() sym.Expr {
		if c, ok := n.Const(); ok && c == 1 {
			return sym.Expr{}
		}
		mu := mean()
		v := sym.FreshVar()
		ss := sym.Sigma(v, n, sym.PowInt(sym.Sub(fibre(v), mu), 2))
		return sym.Div(ss, sym.PolyE(n.AddInt(-1)))
	}
	switch name {
	case "SumAlong":
		return sum(), rng.SumN()
	case "AvgAlong", "MeanAlong":
		return mean(), rng.MeanN()
	case "MaxAlong":
		v := sym.FreshVar()
		return sym.BigMax(v, n, fibre(v)), rng
	case "MinAlong":
		v := sym.FreshVar()
		return sym.BigMin(v, n, fibre(v)), rng
	case "VarAlong":
		return variance(), Ival{0, FiniteAny().Hi, rng.NaN || rng.hasInf()}
	case "StdAlong":
		return sym.FnE("sqrt", variance()), Ival{0, FiniteAny().Hi, rng.NaN || rng.hasInf()}
	}
	panic(fmt.Sprintf("unknown statistic %s", name))
}

// reshapeElem gives the element of t viewed in shape S (row-major order preserved).
func (w *World) reshapeElem(t interp.PtrV, S []sym.Poly) sym.Expr {
	d := w.normUnit(w.Dims(t))
	var nzFrom, nzTo []int
	for k, x := range d {
		if !isOne(x) {
			nzFrom = append(nzFrom, k)
		}
	}
	for j, x := range S {
		if !isOne(x) {
			nzTo = append(nzTo, j)
		}
	}
	idx := make([]sym.Poly, len(d))
	for k := range idx {
		idx[k] = sym.PInt(0)
	}
	same := len(nzFrom) == len(nzTo)
	if same {
		for i := range nzFrom {
			if !d[nzFrom[i]].Equal(S[nzTo[i]]) && !w.M.Entailed(eq(d[nzFrom[i]], S[nzTo[i]])) {
				same = false
				break
			}
		}
	}
	if same {
		for i := range nzFrom {
			idx[nzFrom[i]] = Ix(nzTo[i])
		}
		return w.elemAt(t, idx)
	}
	toIdx := make([]sym.Poly, len(nzTo))
	toShape := make([]sym.Poly, len(nzTo))
	for i, j := range nzTo {
		toIdx[i], toShape[i] = Ix(j), S[j]
	}
	lin := sym.Ravel(toIdx, toShape)
	fromShape := make([]sym.Poly, len(nzFrom))
	for i, k := range nzFrom {
		fromShape[i] = d[k]
	}
	for i, k := range nzFrom {
		idx[k] = sym.Unravel(i, lin, fromShape)
	}
	return w.elemAt(t, idx)
}
