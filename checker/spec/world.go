// Package spec holds the oracle: typing rules (shape + precondition) and element semantics of the public
// Tensor API written from the property statements, the table of vector-Jacobian products, and the
// abstract tensor objects the interpreter manipulates.  It is the trusted base listed in every evidence file.
package spec

import (
	"fmt"
	"go/constant"
	"go/types"

	"golang.org/x/tools/go/ssa"

	"qverif/core"
	"qverif/interp"
	"qverif/sym"
)

// Anchors are the repository constructs the rules are keyed on, resolved through the type checker.
type Anchors struct {
	CPUTensor   *types.Named
	CPUPtr      types.Type
	FData       int
	FDims       int
	FGctx       int
	GradContext *types.Named
	GTracked    int
	GDirty      int
	GGradient   int
	GBackEdges  int
	BackEdge    *types.Named
	ETarget     int
	EGradFn     int
	TensorIface *types.Named
	Range       *types.Named
	RFrom, RTo  int
	IntT        types.Type
	FloatT      types.Type
	AnyT        types.Type
	ErrorT      types.Type
}

func fieldIndex(st *types.Struct, name string) int {
	for i := 0; i < st.NumFields(); i++ {
		if st.Field(i).Name() == name {
			return i
		}
	}
	return -1
}

func lookupNamed(p *core.Program, pkg, name string) (*types.Named, error) {
	sp := p.SSA[pkg]
	if sp == nil {
		return nil, fmt.Errorf("package %s not loaded", pkg)
	}
	o := sp.Pkg.Scope().Lookup(name)
	if o == nil {
		return nil, fmt.Errorf("type %s.%s not found", pkg, name)
	}
	n, ok := o.Type().(*types.Named)
	if !ok {
		// alias to a named type
		if a, ok := types.Unalias(o.Type()).(*types.Named); ok {
			return a, nil
		}
		return nil, fmt.Errorf("%s.%s is not a named type", pkg, name)
	}
	return n, nil
}

func ResolveAnchors(p *core.Program) (*Anchors, error) {
	a := &Anchors{}
	var err error
	if a.CPUTensor, err = lookupNamed(p, core.PkgCPU, "CPUTensor"); err != nil {
		return nil, err
	}
	a.CPUPtr = types.NewPointer(a.CPUTensor)
	st, ok := a.CPUTensor.Underlying().(*types.Struct)
	if !ok {
		return nil, fmt.Errorf("CPUTensor is not a struct")
	}
	if a.TensorIface, err = lookupNamed(p, core.PkgITensor, "Tensor"); err != nil {
		return nil, err
	}
	if a.GradContext, err = lookupNamed(p, core.PkgGrad, "GradContext"); err != nil {
		return nil, err
	}
	// Private fields are found by name first and by ROLE (their type, and for the two flags how the walk uses
	// them) when a refactoring renamed them.
	uniqueBy := func(st *types.Struct, pred func(types.Type) bool) int {
		found := -1
		for i := 0; i < st.NumFields(); i++ {
			if pred(st.Field(i).Type()) {
				if found >= 0 {
					return -1
				}
				found = i
			}
		}
		return found
	}
	pick := func(st *types.Struct, name string, pred func(types.Type) bool) int {
		if i := fieldIndex(st, name); i >= 0 && pred(st.Field(i).Type()) {
			return i
		}
		return uniqueBy(st, pred)
	}
	isAny := func(t types.Type) bool {
		it, ok := t.Underlying().(*types.Interface)
		return ok && it.NumMethods() == 0
	}
	isInts := func(t types.Type) bool {
		sl, ok := t.Underlying().(*types.Slice)
		return ok && types.Identical(sl.Elem(), types.Typ[types.Int])
	}
	isGctxPtr := func(t types.Type) bool {
		pt, ok := t.(*types.Pointer)
		return ok && types.Identical(pt.Elem(), a.GradContext)
	}
	a.FData, a.FDims, a.FGctx = pick(st, "data", isAny), pick(st, "dims", isInts), pick(st, "gctx", isGctxPtr)
	if a.FData < 0 || a.FDims < 0 || a.FGctx < 0 {
		return nil, fmt.Errorf("CPUTensor fields for element data (any) / dims ([]int) / gradient context (*GradContext) not found")
	}
	gs := a.GradContext.Underlying().(*types.Struct)
	isTensor := func(t types.Type) bool { return types.Identical(t, a.TensorIface) }
	// the back-edge type: element of the one slice-of-pointer-to-struct field whose struct has a Tensor and a func field
	var edgeNamed *types.Named
	isEdges := func(t types.Type) bool {
		sl, ok := t.Underlying().(*types.Slice)
		if !ok {
			return false
		}
		pt, ok := sl.Elem().(*types.Pointer)
		if !ok {
			return false
		}
		n, ok := pt.Elem().(*types.Named)
		if !ok {
			return false
		}
		es, ok := n.Underlying().(*types.Struct)
		if !ok {
			return false
		}
		hasT, hasF := false, false
		for i := 0; i < es.NumFields(); i++ {
			if isTensor(es.Field(i).Type()) {
				hasT = true
			}
			if _, isSig := es.Field(i).Type().Underlying().(*types.Signature); isSig {
				hasF = true
			}
		}
		if hasT && hasF {
			edgeNamed = n
			return true
		}
		return false
	}
	a.GGradient, a.GBackEdges = pick(gs, "gradient", isTensor), pick(gs, "backEdges", isEdges)
	if a.GGradient < 0 || a.GBackEdges < 0 || edgeNamed == nil {
		return nil, fmt.Errorf("GradContext fields for the gradient (Tensor) / back edges ([]*edge) not found")
	}
	a.BackEdge = edgeNamed
	es := a.BackEdge.Underlying().(*types.Struct)
	isFunc := func(t types.Type) bool { _, ok := t.Underlying().(*types.Signature); return ok }
	a.ETarget, a.EGradFn = pick(es, "target", isTensor), pick(es, "gradFn", isFunc)
	if a.ETarget < 0 || a.EGradFn < 0 {
		return nil, fmt.Errorf("back-edge fields for the target (Tensor) / backward rule (func) not found")
	}
	isBool := func(t types.Type) bool { return types.Identical(t.Underlying(), types.Typ[types.Bool]) }
	a.GTracked, a.GDirty = fieldIndex(gs, "tracked"), fieldIndex(gs, "bpdirty")
	if a.GTracked < 0 || a.GDirty < 0 || !isBool(gs.Field(a.GTracked).Type()) || !isBool(gs.Field(a.GDirty).Type()) {
		// role inference: of the two bool fields, "spent" is the one that some function other than the constructor
		// sets to the constant true (the walk marks tensors spent); "tracked" is the other one
		var bools []int
		for i := 0; i < gs.NumFields(); i++ {
			if isBool(gs.Field(i).Type()) {
				bools = append(bools, i)
			}
		}
		if len(bools) != 2 {
			return nil, fmt.Errorf("GradContext must have exactly two bool flags (tracked / spent) to infer their roles, found %d", len(bools))
		}
		constTrue := map[int]bool{}
		for _, fn := range p.ModuleFunctions(core.PkgGrad) {
			for _, b := range fn.Blocks {
				for _, in := range b.Instrs {
					st, ok := in.(*ssa.Store)
					if !ok {
						continue
					}
					fa, ok := st.Addr.(*ssa.FieldAddr)
					if !ok {
						continue
					}
					pt, ok := fa.X.Type().Underlying().(*types.Pointer)
					if !ok || !types.Identical(pt.Elem(), a.GradContext) {
						continue
					}
					if c, ok := st.Val.(*ssa.Const); ok && c.Value != nil && c.Value.Kind() == constant.Bool && constant.BoolVal(c.Value) {
						if _, fresh := fa.X.(*ssa.Alloc); !fresh {
							constTrue[fa.Field] = true
						}
					}
				}
			}
		}
		switch {
		case constTrue[bools[0]] && !constTrue[bools[1]]:
			a.GDirty, a.GTracked = bools[0], bools[1]
		case constTrue[bools[1]] && !constTrue[bools[0]]:
			a.GDirty, a.GTracked = bools[1], bools[0]
		default:
			return nil, fmt.Errorf("cannot tell the tracked flag from the spent flag of GradContext")
		}
	}
	if a.Range, err = lookupNamed(p, core.PkgITensor, "Range"); err != nil {
		return nil, err
	}
	rs := a.Range.Underlying().(*types.Struct)
	a.RFrom, a.RTo = fieldIndex(rs, "From"), fieldIndex(rs, "To")
	if a.RFrom < 0 || a.RTo < 0 {
		return nil, fmt.Errorf("Range fields not found")
	}
	a.IntT = types.Typ[types.Int]
	a.FloatT = types.Typ[types.Float64]
	a.AnyT = types.NewInterfaceType(nil, nil)
	a.ErrorT = types.Universe.Lookup("error").Type()
	return a, nil
}

// TInfo is the abstract content of one tensor object.
type TInfo struct {
	Name string
	Elem sym.Expr // element at index (#0,…,#r-1)
	Rng  Ival     // interval/NaN abstraction of every element
	Has  bool     // Elem is meaningful (false for tensors produced by uninterpreted data-layer code)
}

// World is the per-path abstract heap extension: which cells are tensors and what they contain.
type World struct {
	M    *interp.Machine
	A    *Anchors
	P    *core.Program
	Info map[*interp.Cell]*TInfo
	// Notes collected by summaries (e.g. precondition failures with their reason).
	ErrNotes    []string
	curOperands []interp.PtrV
	// SpecTracked counts spec-mode results that would be tracked (no back edges are modelled for them)
	SpecTracked int
	// Finite is the finiteness assumption for 0·t → 0 (set by drivers; A3 checks it separately).
	seq int
}

func NewWorld(p *core.Program, a *Anchors, m *interp.Machine) *World {
	return &World{M: m, A: a, P: p, Info: map[*interp.Cell]*TInfo{}}
}

func Ix(k int) sym.Poly { return sym.PAtom(fmt.Sprintf("#%d", k)) }

func IxName(k int) string { return fmt.Sprintf("#%d", k) }

// IdentIdx returns (#0,…,#r-1).
func IdentIdx(r int) []sym.Poly {
	out := make([]sym.Poly, r)
	for i := range out {
		out[i] = Ix(i)
	}
	return out
}

// NewTensor allocates a CPUTensor object with the given dims and abstract content.
func (w *World) NewTensor(name string, dims []sym.Poly, elem sym.Expr, rng Ival, gctx interp.Value) interp.PtrV {
	p := w.M.NewStruct(w.A.CPUTensor, "tensor:"+name)
	// the dims slice gets spare capacity: nothing may rely on cap == len (an in-place append/insert on an
	// operand's dims would otherwise go unnoticed)
	vals := make([]interp.Value, len(dims)+2)
	for i, d := range dims {
		vals[i] = interp.IntV{P: d}
	}
	vals[len(dims)], vals[len(dims)+1] = interp.IntV{P: sym.PInt(-7)}, interp.IntV{P: sym.PInt(-7)}
	ds := w.M.SliceOf(w.A.IntT, vals, "dims:"+name)
	ds.Len = len(dims)
	interp.Store(p.C.Fields[w.A.FDims], ds)
	interp.Store(p.C.Fields[w.A.FData], interp.OpaqueV{Why: "tensor data of " + name})
	allOne := true
	for _, d := range dims {
		if c, ok := d.Const(); !ok || c != 1 {
			allOne = false
		}
	}
	if allOne {
		// a single-element tensor's data is fully known: its one float64 (boxed in one singleton []any per
		// dimension); code may legitimately unbox it
		m := map[string]sym.Poly{}
		for i := range dims {
			m[IxName(i)] = sym.PInt(0)
		}
		var v interp.Value = interp.IfaceV{T: types.Typ[types.Float64], V: interp.FloatV{E: elem.SubstIdx(m)}}
		for range dims {
			v = interp.IfaceV{T: types.NewSlice(w.A.AnyT), V: w.M.SliceOf(w.A.AnyT, []interp.Value{v}, "data:"+name)}
		}
		interp.Store(p.C.Fields[w.A.FData], v)
	}
	if gctx == nil {
		gctx = interp.NilV{}
	}
	interp.Store(p.C.Fields[w.A.FGctx], gctx)
	w.Info[p.C] = &TInfo{Name: name, Elem: elem, Rng: rng, Has: true}
	return p
}

// LeafTensor creates a tensor whose elements are the symbols name[#0,…].
func (w *World) LeafTensor(name string, dims []sym.Poly, rng Ival, gctx interp.Value) interp.PtrV {
	return w.NewTensor(name, dims, sym.LeafE(name, IdentIdx(len(dims))), rng, gctx)
}

// Boxed wraps a tensor pointer into the Tensor interface value.
func (w *World) Boxed(p interp.PtrV) interp.Value { return interp.IfaceV{T: w.A.CPUPtr, V: p} }

// AsTensor extracts the tensor object from an interface or pointer value.
func (w *World) AsTensor(v interp.Value) (interp.PtrV, bool) {
	switch x := v.(type) {
	case interp.IfaceV:
		if types.Identical(x.T, w.A.CPUPtr) {
			p, ok := x.V.(interp.PtrV)
			return p, ok
		}
	case interp.PtrV:
		if x.C.Fields != nil && types.Identical(x.C.T, w.A.CPUTensor) {
			return x, true
		}
	}
	return interp.PtrV{}, false
}

func (w *World) Dims(t interp.PtrV) []sym.Poly {
	v := interp.Load(t.C.Fields[w.A.FDims])
	s, ok := v.(interp.SliceV)
	if !ok {
		return nil
	}
	out := make([]sym.Poly, s.Len)
	for i, e := range interp.SliceElems(s) {
		iv, ok := e.(interp.IntV)
		if !ok {
			panic(interp.Unsupported{Msg: "non-integer dimension"})
		}
		out[i] = iv.P
	}
	return out
}

func (w *World) InfoOf(t interp.PtrV) *TInfo {
	if ti, ok := w.Info[t.C]; ok {
		return ti
	}
	ti := &TInfo{Name: fmt.Sprintf("t%d", t.C.ID), Has: false, Rng: Top()}
	w.Info[t.C] = ti
	return ti
}

// GradContext object helpers.

func (w *World) NewGradContext(tracked, dirty bool, gradient interp.Value) interp.PtrV {
	p := w.M.NewStruct(w.A.GradContext, "gctx")
	interp.Store(p.C.Fields[w.A.GTracked], interp.BoolC(tracked))
	interp.Store(p.C.Fields[w.A.GDirty], interp.BoolC(dirty))
	if gradient == nil {
		gradient = interp.NilV{}
	}
	interp.Store(p.C.Fields[w.A.GGradient], gradient)
	return p
}

func (w *World) GctxOf(t interp.PtrV) (interp.PtrV, bool) {
	v := interp.Load(t.C.Fields[w.A.FGctx])
	p, ok := v.(interp.PtrV)
	return p, ok
}

// TensorMethod reports whether m is a method of the public Tensor interface.
func (w *World) TensorMethod(m *types.Func) bool {
	it := w.A.TensorIface.Underlying().(*types.Interface)
	for i := 0; i < it.NumMethods(); i++ {
		if it.Method(i) == m || (it.Method(i).Name() == m.Name() && it.Method(i).Pkg() == m.Pkg()) {
			return true
		}
	}
	return false
}

// okResult / errResult build (Tensor, error) tuples.
func (w *World) okResult(p interp.PtrV) interp.Value {
	return interp.TupleV{V: []interp.Value{w.Boxed(p), interp.NilV{}}}
}

func (w *World) errResult(format string, a ...any) interp.Value {
	msg := fmt.Sprintf(format, a...)
	w.ErrNotes = append(w.ErrNotes, msg)
	return interp.TupleV{V: []interp.Value{interp.NilV{}, interp.ErrV{Msg: msg}}}
}

func (w *World) fresh(prefix string) string {
	w.seq++
	return fmt.Sprintf("%s%d", prefix, w.seq)
}

var _ = ssa.NaiveForm
