package spec

import (
	"qverif/interp"
	"qverif/sym"
)

// Constructor is the summary of the package-level constructors of cputensor (reached through the public
// functions of package tensor): Full, Zeros, Ones, Eye, RandU, RandN, TensorOf, Concat.
func (w *World) Constructor(name string, args []interp.Value) (interp.Value, bool) {
	boolArg := func(v interp.Value) bool {
		b, ok := v.(interp.BoolV)
		if !ok || !b.Known {
			panic(interp.Unsupported{Msg: "symbolic tracking flag"})
		}
		return b.Val
	}
	mk := func(nm string, dims []sym.Poly, elem sym.Expr, rng Ival, tracked bool) interp.Value {
		g := w.NewGradContext(tracked, false, nil)
		return w.okResult(w.NewTensor(w.fresh(nm), dims, elem, rng, g))
	}
	switch name {
	case "Full", "Zeros", "Ones":
		dims := w.intsOf(args[0])
		if !w.allPositive(dims) {
			return w.errResult("%s: non-positive dimension", name), true
		}
		var val sym.Expr
		var tr bool
		switch name {
		case "Full":
			val = args[1].(interp.FloatV).E
			tr = boolArg(args[2])
		case "Zeros":
			val = sym.Expr{}
			tr = boolArg(args[1])
		default:
			val = sym.NumI(1)
			tr = boolArg(args[1])
		}
		rng := FiniteAny()
		if r, ok := val.Const(); ok {
			f, _ := r.Float64()
			rng = Pt(f)
		}
		return mk(name, dims, val, rng, tr), true
	case "Eye":
		n := args[0].(interp.IntV).P
		if !w.M.Branch(ge(n, one())) {
			return w.errResult("Eye: non-positive size"), true
		}
		elem := sym.Ind(eq(Ix(0), Ix(1)))
		return mk("Eye", []sym.Poly{n, n}, elem, Rng(0, 1), boolArg(args[1])), true
	case "RandU":
		dims := w.intsOf(args[0])
		l, u := args[1].(interp.FloatV).E, args[2].(interp.FloatV).E
		if sym.HasNaN(l) || sym.HasNaN(u) || !w.M.Branch(sym.RealLT(l, u)) {
			return w.errResult("RandU: lower bound not below upper bound (NaN bounds are never ordered)"), true
		}
		if !w.allPositive(dims) {
			return w.errResult("RandU: non-positive dimension"), true
		}
		nm := w.fresh("U")
		rng := FiniteAny()
		lf, ok1 := floatConst(args[1])
		uf, ok2 := floatConst(args[2])
		if ok1 && ok2 {
			rng = Rng(lf, uf)
		}
		return mk(nm, dims, sym.LeafE(nm, IdentIdx(len(dims))), rng, boolArg(args[3])), true
	case "RandN":
		dims := w.intsOf(args[0])
		s := args[2].(interp.FloatV).E
		if sym.HasNaN(s) || !w.M.Branch(sym.RealGT(s, sym.Expr{})) {
			return w.errResult("RandN: standard deviation not positive (NaN is not positive)"), true
		}
		if !w.allPositive(dims) {
			return w.errResult("RandN: non-positive dimension"), true
		}
		nm := w.fresh("N")
		return mk(nm, dims, sym.LeafE(nm, IdentIdx(len(dims))), FiniteAny(), boolArg(args[3])), true
	case "TensorOf":
		iv, ok := args[0].(interp.IfaceV)
		if !ok {
			return nil, false
		}
		// rectangular, non-empty at every level: dims are the lengths along the first path
		var dims []sym.Poly
		okShape := true
		var walk func(v interp.Value, depth int)
		walk = func(v interp.Value, depth int) {
			s, isSlice := v.(interp.SliceV)
			if !isSlice {
				return
			}
			if s.Len == 0 {
				okShape = false
				return
			}
			if depth == len(dims) {
				dims = append(dims, sym.PInt(int64(s.Len)))
			} else if c, _ := dims[depth].Const(); int(c) != s.Len {
				okShape = false
				return
			}
			for _, el := range interp.SliceElems(s) {
				walk(el, depth+1)
			}
		}
		walk(iv.V, 0)
		if !okShape {
			return w.errResult("TensorOf: empty or ragged nested data"), true
		}
		if dims == nil {
			dims = []sym.Poly{}
		}
		return mk("TensorOf", dims, sym.LeafE("D", IdentIdx(len(dims))), FiniteAny(), boolArg(args[1])), true
	case "Concat":
		ts, ok := args[0].(interp.SliceV)
		if !ok || ts.Len < 2 {
			return w.errResult("Concat: fewer than two tensors"), true
		}
		var ops []interp.PtrV
		for _, v := range interp.SliceElems(ts) {
			t, ok := w.AsTensor(v)
			if !ok {
				return w.errResult("Concat: nil or non-CPU tensor"), true
			}
			ops = append(ops, t)
		}
		d0 := w.Dims(ops[0])
		r := len(d0)
		for _, t := range ops {
			if len(w.Dims(t)) == 0 {
				return w.errResult("Concat: scalar operand"), true
			}
			if len(w.Dims(t)) != r {
				return w.errResult("Concat: ranks differ"), true
			}
		}
		dim := args[1].(interp.IntV)
		if !w.M.Branch(sym.And(ge(dim.P, sym.PInt(0)), lt(dim.P, sym.PInt(int64(r))))) {
			return w.errResult("Concat: dim out of range"), true
		}
		k, _ := w.M.Concretize(dim, 0, r-1)
		total := sym.PInt(0)
		for _, t := range ops {
			dt := w.Dims(t)
			for j := 0; j < r; j++ {
				if j == k {
					continue
				}
				if !w.M.Branch(eq(dt[j], d0[j])) {
					return w.errResult("Concat: sizes differ off the concatenation dimension"), true
				}
			}
			total = total.Add(dt[k])
		}
		S := append([]sym.Poly{}, d0...)
		S[k] = total
		// piecewise element: operand i covers [off_i, off_i + d_i) along k
		elem := sym.Expr{}
		rng := w.InfoOf(ops[0]).Rng
		off := sym.PInt(0)
		for _, t := range ops {
			dt := w.Dims(t)
			idx := IdentIdx(r)
			idx[k] = idx[k].Sub(off)
			in := sym.Ind(w.simplifyRange(sym.And(ge(Ix(k), off), lt(Ix(k), off.Add(dt[k]))), S))
			elem = sym.Add(elem, sym.Mul(in, w.elemAt(t, idx)))
			off = off.Add(dt[k])
			rng = rng.Join(w.InfoOf(t).Rng)
		}
		return w.okResult(w.NewTensor(w.fresh("Concat"), S, elem, rng, nil)), true
	}
	return nil, false
}
