package engine

import (
	"fmt"
	"go/types"
	"math"
	"strings"

	"golang.org/x/tools/go/ssa"

	"qverif/core"
	"qverif/interp"
	"qverif/spec"
	"qverif/sym"
)

// Labelled-element mode: shapes are concrete and small, every operand element is a distinct symbol, and the
// WHOLE implementation is interpreted, including the nested-[]any data layer (recursive fills, element
// generators, copiers, kernels).  The element found at every position of the result is compared with the
// specification's element expression at that position.  Because the movers never inspect element values
// (rule S11), one labelled tensor per shape characterises the element mapping for that shape completely;
// the enumeration of shapes is bounded and stated in the evidence.

func (e *OpEngine) SetDataMode(on bool) { e.dataMode = on }

func concreteDims(d []int) []sym.Poly {
	out := make([]sym.Poly, len(d))
	for i, x := range d {
		out[i] = sym.PInt(int64(x))
	}
	return out
}

func (e *OpEngine) anySlice() types.Type { return types.NewSlice(e.A.AnyT) }

// labelledData builds the nested []any representation holding leaf symbols name[i,j,…].
func (e *OpEngine) labelledData(name string, dims []int, prefix []sym.Poly) interp.Value {
	if len(dims) == 0 {
		return interp.IfaceV{T: e.A.FloatT, V: interp.FloatV{E: sym.LeafE(name, prefix)}}
	}
	vals := make([]interp.Value, dims[0])
	for i := range vals {
		vals[i] = e.labelledData(name, dims[1:], append(append([]sym.Poly{}, prefix...), sym.PInt(int64(i))))
	}
	return interp.IfaceV{T: e.anySlice(), V: e.M.SliceOf(e.A.AnyT, vals, "data:"+name)}
}

// applyAlias rewrites the elements of aliased tensors (exact-tie cases) to the elements they are equal to.
func (e *OpEngine) applyAlias(x sym.Expr) sym.Expr {
	for from, to := range e.leafAlias {
		to := to
		x = x.SubstLeaf(from, func(idx []sym.Poly) sym.Expr { return sym.LeafE(to, idx) })
	}
	return x
}

// mkTensorConst creates an operand every element of which is the constant c (e.g. NaN).
func (e *OpEngine) mkTensorConst(name string, dims []int, tracked bool, c sym.Expr) interp.PtrV {
	t := e.mkTensor(name, TensorArg{Dims: concreteDims(dims), Tracked: tracked, Rng: spec.Rng(-10, 10)})
	e.W.InfoOf(t).Elem = c
	var fill func(d []int) interp.Value
	fill = func(d []int) interp.Value {
		if len(d) == 0 {
			return interp.IfaceV{T: e.A.FloatT, V: interp.FloatV{E: c}}
		}
		vals := make([]interp.Value, d[0])
		for i := range vals {
			vals[i] = fill(d[1:])
		}
		return interp.IfaceV{T: e.anySlice(), V: e.M.SliceOf(e.A.AnyT, vals, "data:"+name)}
	}
	interp.Store(t.C.Fields[e.A.FData], fill(dims))
	return t
}

// mkTensorD creates an operand with concrete dims and labelled data.
func (e *OpEngine) mkTensorD(name string, dims []int, tracked bool, rng spec.Ival) interp.PtrV {
	t := e.mkTensor(name, TensorArg{Dims: concreteDims(dims), Tracked: tracked, Rng: rng})
	interp.Store(t.C.Fields[e.A.FData], e.labelledData(name, dims, nil))
	return t
}

// readData walks the nested data of t along dims and returns the element expression at every position.
func (e *OpEngine) readData(t interp.PtrV, dims []int) (map[string]sym.Expr, string) {
	out := map[string]sym.Expr{}
	var walk func(v interp.Value, depth int, idx []int) string
	walk = func(v interp.Value, depth int, idx []int) string {
		if depth == len(dims) {
			iv, ok := v.(interp.IfaceV)
			if !ok {
				return fmt.Sprintf("element at %v is %s, not a float64", idx, interp.Describe(v))
			}
			f, ok := iv.V.(interp.FloatV)
			if !ok {
				return fmt.Sprintf("element at %v is %s, not a float64", idx, interp.Describe(iv.V))
			}
			out[fmt.Sprint(idx)] = f.E
			return ""
		}
		iv, ok := v.(interp.IfaceV)
		if !ok {
			return fmt.Sprintf("row at %v is %s, not a []any", idx, interp.Describe(v))
		}
		s, ok := iv.V.(interp.SliceV)
		if !ok {
			return fmt.Sprintf("row at %v is %s, not a []any", idx, interp.Describe(iv.V))
		}
		if s.Len != dims[depth] {
			return fmt.Sprintf("row at %v has %d entries, dims say %d", idx, s.Len, dims[depth])
		}
		for i, el := range interp.SliceElems(s) {
			if msg := walk(el, depth+1, append(append([]int{}, idx...), i)); msg != "" {
				return msg
			}
		}
		return ""
	}
	msg := walk(interp.Load(t.C.Fields[e.A.FData]), 0, nil)
	return out, msg
}

func intsOf(ps []sym.Poly) ([]int, bool) {
	out := make([]int, len(ps))
	for i, p := range ps {
		c, ok := p.Const()
		if !ok {
			return nil, false
		}
		out[i] = int(c)
	}
	return out, true
}

// compareData checks the implementation's result data against the specification's element expression.
func (e *OpEngine) compareData(key, pos string, impl interp.PtrV, specElem sym.Expr, label string) {
	dims, ok := intsOf(e.W.Dims(impl))
	if !ok {
		return
	}
	e.did("D.elements", key)
	got, msg := e.readData(impl, dims)
	if msg != "" {
		e.find("D.elements", key, "representation", pos, "result data does not match its dims: "+msg+" ["+label+"]")
		return
	}
	e.ElemChecks += len(got)
	// enumerate positions
	idx := make([]int, len(dims))
	for {
		m := map[string]sym.Poly{}
		for k, i := range idx {
			m[spec.IxName(k)] = sym.PInt(int64(i))
		}
		want := e.applyAlias(specElem.SubstIdx(m))
		g := e.applyAlias(got[fmt.Sprint(idx)])
		if !e.sameExpr(g, want, nil) {
			verdict, wit := e.numericCompare(g, want, nil)
			if verdict == 1 {
				e.Findings = append(e.Findings, Finding{Method: e.curMethod, Rule: "D.elements", Construct: key, What: "element", Pos: pos,
					Detail:  fmt.Sprintf("result element at %v is %s but the defined element is %s [%s]", idx, clip(g.String()), clip(want.String()), label),
					Witness: wit})
			} else {
				e.undecided("D.elements", key, "element", pos, fmt.Sprintf("element at %v: normal forms differ, no separating point: got %s want %s [%s]", idx, clip(g.String()), clip(want.String()), label))
			}
			return
		}
		k := len(idx) - 1
		for k >= 0 {
			idx[k]++
			if idx[k] < dims[k] {
				break
			}
			idx[k] = 0
			k--
		}
		if k < 0 {
			return
		}
	}
}

// orderFacts makes the labelled elements of the named tensors totally ordered (lexicographic by name, then
// index) and far apart, so that comparison kernels and max/min folds take definite branches.
func orderFacts(tensors map[string][]int) sym.Facts {
	type el struct {
		e sym.Expr
	}
	var all []sym.Expr
	var names []string
	for n := range tensors {
		names = append(names, n)
	}
	// deterministic order
	for i := 0; i < len(names); i++ {
		for j := i + 1; j < len(names); j++ {
			if names[j] < names[i] {
				names[i], names[j] = names[j], names[i]
			}
		}
	}
	for _, n := range names {
		dims := tensors[n]
		idx := make([]int, len(dims))
		for {
			ps := make([]sym.Poly, len(idx))
			for k, i := range idx {
				ps[k] = sym.PInt(int64(i))
			}
			all = append(all, sym.LeafE(n, ps))
			k := len(idx) - 1
			for k >= 0 {
				idx[k]++
				if idx[k] < dims[k] {
					break
				}
				idx[k] = 0
				k--
			}
			if k < 0 {
				break
			}
		}
	}
	f := sym.Facts{}
	for i := range all {
		for j := i + 1; j < len(all); j++ {
			f[sym.Sub(all[i], all[j]).Key()] = sym.SignBigNeg // earlier element is smaller
		}
		f[sym.Sub(all[i], sym.NumF(negInf)).Key()] = sym.SignBigPos
		f[sym.Sub(all[i], sym.NumF(posInf)).Key()] = sym.SignBigNeg
	}
	return f
}

var (
	posInf = inf(1)
	negInf = inf(-1)
)

func inf(s int) float64 {
	var z float64
	if s > 0 {
		return 1 / z
	}
	return -1 / z
}

/* ---------- instance enumeration ---------- */

type DataBounds struct {
	MaxRank int
	Sizes   []int
	MaxElts int
}

func QuickDataBounds() DataBounds { return DataBounds{MaxRank: 3, Sizes: []int{1, 2, 3}, MaxElts: 12} }
func ThoroughDataBounds() DataBounds {
	return DataBounds{MaxRank: 4, Sizes: []int{1, 2, 3}, MaxElts: 36}
}

func shapesUpTo(b DataBounds, minRank int) [][]int {
	var out [][]int
	var rec func(cur []int)
	rec = func(cur []int) {
		n := 1
		for _, x := range cur {
			n *= x
		}
		if n > b.MaxElts {
			return
		}
		if len(cur) >= minRank {
			out = append(out, append([]int{}, cur...))
		}
		if len(cur) == b.MaxRank {
			return
		}
		for _, s := range b.Sizes {
			rec(append(cur, s))
		}
	}
	rec(nil)
	return out
}

func prodInts(d []int) int {
	n := 1
	for _, x := range d {
		n *= x
	}
	return n
}

func dimsLabel(d []int) string { return strings.ReplaceAll(fmt.Sprint(d), " ", ",") }

// mkTensorPeriodic creates an operand [n,1] whose elements alternate between the two real symbols <name>p and
// <name>q along the flat index.
func (e *OpEngine) mkTensorPeriodic(name string, n int, tracked bool) interp.PtrV {
	return e.mkTensorPeriodicR(name, n, tracked, false)
}

// mkTensorPeriodicR: as mkTensorPeriodic; flat gives the rank-1 shape [n] instead of [n,1].
func (e *OpEngine) mkTensorPeriodicR(name string, n int, tracked, flat bool) interp.PtrV {
	if flat {
		t := e.mkTensor(name, TensorArg{Dims: concreteDims([]int{n}), Tracked: tracked, Rng: spec.Rng(-10, 10)})
		P, Q := sym.SymE(name+"p"), sym.SymE(name+"q")
		par := sym.IMod(spec.Ix(0), sym.PInt(2))
		e.W.InfoOf(t).Elem = sym.Add(sym.Mul(P, sym.Ind(sym.IntCond(sym.CEq(par, sym.PInt(0))))), sym.Mul(Q, sym.Ind(sym.IntCond(sym.CEq(par, sym.PInt(1))))))
		els := make([]interp.Value, n)
		for i := range els {
			v := P
			if i%2 == 1 {
				v = Q
			}
			els[i] = interp.IfaceV{T: e.A.FloatT, V: interp.FloatV{E: v}}
		}
		interp.Store(t.C.Fields[e.A.FData], interp.IfaceV{T: e.anySlice(), V: e.M.SliceOf(e.A.AnyT, els, "data:"+name)})
		return t
	}
	dims := []int{n, 1}
	t := e.mkTensor(name, TensorArg{Dims: concreteDims(dims), Tracked: tracked, Rng: spec.Rng(-10, 10)})
	P, Q := sym.SymE(name+"p"), sym.SymE(name+"q")
	par := sym.IMod(spec.Ix(0), sym.PInt(2))
	e.W.InfoOf(t).Elem = sym.Add(sym.Mul(P, sym.Ind(sym.IntCond(sym.CEq(par, sym.PInt(0))))), sym.Mul(Q, sym.Ind(sym.IntCond(sym.CEq(par, sym.PInt(1))))))
	rows := make([]interp.Value, n)
	for i := range rows {
		v := P
		if i%2 == 1 {
			v = Q
		}
		el := interp.IfaceV{T: e.A.FloatT, V: interp.FloatV{E: v}}
		rows[i] = interp.IfaceV{T: e.anySlice(), V: e.M.SliceOf(e.A.AnyT, []interp.Value{el}, "data:"+name)}
	}
	interp.Store(t.C.Fields[e.A.FData], interp.IfaceV{T: e.anySlice(), V: e.M.SliceOf(e.A.AnyT, rows, "data:"+name)})
	return t
}

// mkTensorPeriodicDims: an operand of the given concrete shape whose elements alternate between the two real symbols
// <name>p and <name>q along the row-major flat index (long tensors with FEW rows: [1,n], [2,n/2], [3,n/3]).
func (e *OpEngine) mkTensorPeriodicDims(name string, dims []int, tracked bool) interp.PtrV {
	t := e.mkTensor(name, TensorArg{Dims: concreteDims(dims), Tracked: tracked, Rng: spec.Rng(-10, 10)})
	P, Q := sym.SymE(name+"p"), sym.SymE(name+"q")
	flat := sym.PInt(0)
	stride := 1
	for i := len(dims) - 1; i >= 0; i-- {
		flat = flat.Add(spec.Ix(i).MulInt(int64(stride)))
		stride *= dims[i]
	}
	par := sym.IMod(flat, sym.PInt(2))
	e.W.InfoOf(t).Elem = sym.Add(sym.Mul(P, sym.Ind(sym.IntCond(sym.CEq(par, sym.PInt(0))))), sym.Mul(Q, sym.Ind(sym.IntCond(sym.CEq(par, sym.PInt(1))))))
	k := 0
	var fill func(d []int) interp.Value
	fill = func(d []int) interp.Value {
		if len(d) == 0 {
			v := P
			if k%2 == 1 {
				v = Q
			}
			k++
			return interp.IfaceV{T: e.A.FloatT, V: interp.FloatV{E: v}}
		}
		vals := make([]interp.Value, d[0])
		for i := range vals {
			vals[i] = fill(d[1:])
		}
		return interp.IfaceV{T: e.anySlice(), V: e.M.SliceOf(e.A.AnyT, vals, "data:"+name)}
	}
	interp.Store(t.C.Fields[e.A.FData], fill(dims))
	return t
}

// DataCall is one labelled-element instance.
type DataCall struct {
	// Steps, when > 0, raises the interpreter's step budget for this instance (tensors with thousands of elements)
	Steps int
	Fn    *ssa.Function
	Label string
	Facts sym.Facts
	// Cases, when present, re-runs the instance under each named set of facts (Facts is ignored)
	Cases []DataCase
	Build func(e *OpEngine) []interp.Value
	// OnResult, when set, inspects the top-level results (for operations that return no tensor)
	OnResult func(e *OpEngine, caseName string, res []interp.Value)
}

type DataCase struct {
	Name  string
	Facts sym.Facts
	// Alias: in this case every element of tensor Alias[k] equals the element of tensor k at the same position
	// (exact ties): both sides of a comparison are rewritten accordingly
	Alias map[string]string
}

// RunDataInstance interprets the call completely and compares every result element (done inside the
// public-operation wrapper, for the top-level call and for nested public calls alike).
func (e *OpEngine) RunDataInstance(c *DataCall) {
	cases := c.Cases
	if len(cases) == 0 {
		cases = []DataCase{{Name: "", Facts: c.Facts}}
	}
	key := core.FuncKey(c.Fn)
	for _, dc := range cases {
		label := c.Label
		if dc.Name != "" {
			label += " case " + dc.Name
		}
		saveSteps := e.M.MaxSteps
		if c.Steps > 0 {
			e.M.MaxSteps = c.Steps
		}
		_, err := e.M.Explore(160, func() {
			e.Begin()
			sym.ActiveFacts = nil
			e.M.Base = nil
			e.LeafRng = nil
			args := c.Build(e)
			sym.ActiveFacts = dc.Facts
			e.leafAlias = dc.Alias
			defer func() { sym.ActiveFacts = nil; e.leafAlias = nil }()
			e.curMethod, e.curExpanding, e.curLabel = c.Fn.Name(), false, label
			e.baseline, e.watch = e.M.CellSeq(), true
			out := e.M.Run(func() interp.Value { return e.M.Call(c.Fn, args, nil) })
			e.watch = false
			e.Paths++
			e.did("S6.panic", key)
			switch out.Kind {
			case interp.Panicked:
				e.find("S6.panic", key, "panic:"+panicClass(out.Panic.Msg), e.P.Pos(out.Panic.Pos),
					fmt.Sprintf("public call panics in %s: %s [instance %s]", shortFn(out.Panic.Fn), out.Panic.Msg, label))
			case interp.Diverged:
				e.find("S6.hang", key, "no-termination", e.P.FuncPos(c.Fn), "step budget exhausted: possible non-termination [instance "+label+"]")
			default:
				if c.OnResult != nil {
					c.OnResult(e, dc.Name, out.Results)
				}
				// probes: the RESULT object, as the implementation built it (with whatever private bookkeeping it
				// carries: fill markers, memoised reductions, cached shapes), is handed to an element-wise operation and
				// to a reduction; both must see the elements the specification gives the result
				if e.ProbeResults && c.Steps == 0 && len(out.Results) >= 1 && (len(out.Results) == 1 || interp.IsNil(out.Results[len(out.Results)-1])) {
					if r, ok := e.W.AsTensor(out.Results[0]); ok && c.Fn.Name() != "Scale" && c.Fn.Name() != "Sum" && c.Fn.Name() != "Add" {
						small := true
						{
							n := int64(1)
							for _, d := range e.W.Dims(r) {
								if v, ok := d.Const(); ok {
									n *= v
								}
							}
							small = n <= 12 && len(e.W.Dims(r)) <= 3
						}
						if info := e.W.InfoOf(r); info != nil && info.Has && small {
							for _, pn := range []string{"Scale", "Sum", "Add"} {
								pf := e.method(pn)
								if pf == nil {
									continue
								}
								e.curLabel = label + " → probe " + pn + " on the result"
								pargs := []interp.Value{r}
								if pn == "Scale" {
									pargs = append(pargs, interp.FloatV{E: sym.SymE("probe_c")})
								}
								if pn == "Add" {
									// the binary path (operand alignment / expansion helpers) with the result as both operands
									pargs = append(pargs, e.W.Boxed(r))
								}
								po := e.M.Run(func() interp.Value { return e.M.Call(pf, pargs, nil) })
								e.ProbeRuns++
								if po.Kind == interp.Panicked {
									e.find("S6.panic", core.FuncKey(pf), "panic:"+panicClass(po.Panic.Msg), e.P.Pos(po.Panic.Pos),
										fmt.Sprintf("public call panics in %s: %s [instance %s]", shortFn(po.Panic.Fn), po.Panic.Msg, e.curLabel))
								} else if po.Kind == interp.Returned && pn == "Sum" && len(po.Results) == 1 {
									if wantV, ok := e.W.Method("Sum", r, nil); ok {
										e.compareScalar("cputensor.(*CPUTensor).Sum", e.P.FuncPos(pf), po.Results[0], wantV, e.curLabel)
									}
								}
							}
							// … and once more after one element of the result was replaced through the public Patch: a copy that
							// inherits the result's private bookkeeping and then writes elements is where such state goes stale
							_, infElem := sym.ClosedInf(info.Elem)
							if dims := e.W.Dims(r); len(dims) >= 1 && len(dims) <= 3 && e.method("Patch") != nil && !sym.HasNaN(info.Elem) && !infElem {
								conc := true
								ones := make([]int, len(dims))
								idx := make([][2]int, len(dims))
								for i, d := range dims {
									if v, ok := d.Const(); !ok || v < 1 {
										conc = false
									}
									ones[i] = 1
									idx[i] = [2]int{0, 1}
								}
								if conc {
									e.curLabel = label + " → probe Patch of element 0 of the result"
									src := e.mkTensorD("Z", ones, false, spec.Rng(-10, 10))
									pf := e.method("Patch")
									po := e.M.Run(func() interp.Value {
										return e.M.Call(pf, []interp.Value{r, e.cRanges(idx), e.W.Boxed(src)}, nil)
									})
									e.ProbeRuns++
									if po.Kind == interp.Returned && len(po.Results) == 2 && interp.IsNil(po.Results[1]) {
										if r2, ok := e.W.AsTensor(po.Results[0]); ok {
											for _, pn := range []string{"Scale", "Sum"} {
												pf2 := e.method(pn)
												if pf2 == nil {
													continue
												}
												e.curLabel = label + " → probe Patch of element 0, then " + pn
												pargs := []interp.Value{r2}
												if pn == "Scale" {
													pargs = append(pargs, interp.FloatV{E: sym.SymE("probe_c")})
												}
												po2 := e.M.Run(func() interp.Value { return e.M.Call(pf2, pargs, nil) })
												e.ProbeRuns++
												if po2.Kind == interp.Returned && pn == "Sum" && len(po2.Results) == 1 {
													if wantV, ok := e.W.Method("Sum", r2, nil); ok {
														e.compareScalar("cputensor.(*CPUTensor).Sum", e.P.FuncPos(pf2), po2.Results[0], wantV, e.curLabel)
													}
												}
											}
										}
									}
								}
							}
							e.curLabel = label
						}
					}
				}
			}
		})
		e.M.MaxSteps = saveSteps
		if err != nil && strings.Contains(err.Error(), "path budget") {
			// a kernel that branches on element values (compensated summation, pivoting) multiplies paths per element:
			// the first 160 abstract paths of this instance were decided, the rest is bounded away (recorded)
			e.PathBudgetHits++
			err = nil
		}
		if err != nil {
			e.undecided("interp", key, "unsupported", e.P.FuncPos(c.Fn), fmt.Sprintf("%v [instance %s]", err, label))
		}
	}
}

// pairCases gives the five order classes of a[idx]-b[idx] (the same class at every position): far above,
// within the tolerance above, tie, within the tolerance below, far below.
func pairCases(d []int, withNear bool) []DataCase {
	mk := func(name string, sg sym.Sign) DataCase {
		f := sym.Facts{}
		idx := make([]int, len(d))
		for {
			ps := make([]sym.Poly, len(idx))
			for k, i := range idx {
				ps[k] = sym.PInt(int64(i))
			}
			f[sym.Sub(sym.LeafE("A", ps), sym.LeafE("B", ps)).Key()] = sg
			k := len(idx) - 1
			for k >= 0 {
				idx[k]++
				if idx[k] < d[k] {
					break
				}
				idx[k] = 0
				k--
			}
			if k < 0 {
				break
			}
		}
		return DataCase{Name: name, Facts: f}
	}
	tie := mk("a==b", sym.SignZero)
	tie.Alias = map[string]string{"B": "A"}
	out := []DataCase{mk("a>>b", sym.SignBigPos), tie, mk("a<<b", sym.SignBigNeg)}
	if withNear {
		out = append(out, mk("0<a-b<=tol", sym.SignSmallPos), mk("-tol<=a-b<0", sym.SignSmallNeg))
	}
	return out
}

func cInt(i int) interp.Value { return intV(sym.PInt(int64(i))) }

func (e *OpEngine) cInts(xs []int) interp.Value {
	ps := make([]sym.Poly, len(xs))
	for i, x := range xs {
		ps[i] = sym.PInt(int64(x))
	}
	return e.intsArg(ps)
}

func (e *OpEngine) cRanges(rs [][2]int) interp.Value {
	ps := make([][2]sym.Poly, len(rs))
	for i, r := range rs {
		ps[i] = [2]sym.Poly{sym.PInt(int64(r[0])), sym.PInt(int64(r[1]))}
	}
	return e.rangesArg(ps)
}

// DataInstances enumerates labelled-element instances of the public operations selected by want.
func (e *OpEngine) DataInstances(want func(string) bool, b DataBounds) []*DataCall {
	var out []*DataCall
	add := func(c *DataCall) { out = append(out, c) }
	rng := spec.Rng(-10, 10)
	unary := func(name string, shapes [][]int, extra func(e *OpEngine, d []int) [][]interp.Value, ordered bool) {
		if !want(name) {
			return
		}
		fn := e.method(name)
		for _, d := range shapes {
			d := d
			var facts sym.Facts
			if ordered {
				facts = orderFacts(map[string][]int{"A": d})
			}
			variants := [][]interp.Value{nil}
			nvar := 1
			if extra != nil {
				// count variants with a throw-away world is not possible before Begin: build lazily per index
				nvar = -1
			}
			if nvar == 1 {
				add(&DataCall{Fn: fn, Label: fmt.Sprintf("%s A=%s", name, dimsLabel(d)), Facts: facts, Build: func(e *OpEngine) []interp.Value {
					return []interp.Value{e.mkTensorD("A", d, true, rng)}
				}})
				continue
			}
			_ = variants
			// variants are produced by index until the generator returns fewer
			for vi := 0; vi < 64; vi++ {
				vi := vi
				probe := extraCount(e, extra, d)
				if vi >= probe {
					break
				}
				add(&DataCall{Fn: fn, Label: fmt.Sprintf("%s A=%s variant %d", name, dimsLabel(d), vi), Facts: facts, Build: func(e *OpEngine) []interp.Value {
					vs := extra(e, d)
					return append([]interp.Value{e.mkTensorD("A", d, true, rng)}, vs[vi]...)
				}})
			}
		}
	}
	all := shapesUpTo(b, 0)
	// a few deeper shapes: carries across three or more dimensions only show there
	deep := [][]int{{2, 3, 2, 3}, {2, 1, 2, 2}, {1, 2, 2, 1, 2}, {2, 2, 1, 3}, {3, 2, 2, 2}}
	all = append(all, deep...)
	withDeep := func(sh [][]int, minRank int) [][]int {
		out := append([][]int{}, sh...)
		for _, d := range deep {
			if len(d) >= minRank {
				out = append(out, d)
			}
		}
		return out
	}
	// sizes just beyond every block/chunk constant found in the implementation (empty when there is none)
	thr0, thr1 := e.thresholdShapes(0), e.thresholdShapes(1)
	thrL := e.largeThresholdShapes()
	thr0L := append(append([][]int{}, thr0...), thrL...)
	// element-wise drivers walk the nesting recursively: a row offset that is only right up to rank 2 (index within the
	// parent instead of the overall row number) shows from rank 3 on, with an outer extent above 1
	deepUnary := [][]int{{2, 2, 2}, {2, 1, 2, 2}, {1, 2, 2, 1, 2}}
	for _, n := range pointwiseUnary {
		small := DataBounds{MaxRank: 2, Sizes: []int{1, 2}, MaxElts: 4}
		unary(n, append(append(shapesUpTo(small, 0), deepUnary...), thr0L...), nil, false)
	}
	unary("Scale", append(append(shapesUpTo(DataBounds{MaxRank: 2, Sizes: []int{1, 2}, MaxElts: 4}, 0), deep...), thr0L...), func(e *OpEngine, d []int) [][]interp.Value {
		return [][]interp.Value{{interp.FloatV{E: sym.SymE("c")}}}
	}, false)
	unary("Pow", append(shapesUpTo(DataBounds{MaxRank: 2, Sizes: []int{1, 2}, MaxElts: 4}, 0), deepUnary...), func(e *OpEngine, d []int) [][]interp.Value {
		return [][]interp.Value{{interp.FloatV{E: sym.SymE("c")}}}
	}, false)
	thrS := append(append([][]int{}, thr0...), thrL...) // shapes beyond every harvested constant, for the structural operations
	thrS1 := append(append([][]int{}, thr1...), thrL...)
	var thrS2 [][]int
	for _, d := range thrS {
		if len(d) >= 2 {
			thrS2 = append(thrS2, d)
		}
	}
	unary("Transpose", append(withDeep(shapesUpTo(b, 2), 2), thrS2...), nil, false)
	dimVariants := func(hiFn func(r int) int) func(e *OpEngine, d []int) [][]interp.Value {
		return func(e *OpEngine, d []int) [][]interp.Value {
			var vs [][]interp.Value
			for k := 0; k <= hiFn(len(d)); k++ {
				vs = append(vs, []interp.Value{cInt(k)})
			}
			return vs
		}
	}
	unary("UnSqueeze", append(append([][]int{}, all...), thrS...), dimVariants(func(r int) int { return r }), false)
	unary("Flatten", append(withDeep(shapesUpTo(b, 1), 1), thrS1...), dimVariants(func(r int) int { return r - 1 }), false)
	unary("Squeeze", shapesUpTo(b, 1), func(e *OpEngine, d []int) [][]interp.Value {
		var vs [][]interp.Value
		for k, x := range d {
			if x == 1 {
				vs = append(vs, []interp.Value{cInt(k)})
			}
		}
		return vs
	}, false)
	for _, n := range reducers {
		ordered := n == "MaxAlong" || n == "MinAlong"
		sh := append(withDeep(shapesUpTo(b, 1), 1), thr1...)
		if n != "VarAlong" && n != "StdAlong" {
			sh = append(sh, thrL...) // linear in the elements: large extents stay cheap
		}
		unary(n, sh, dimVariants(func(r int) int { return r - 1 }), ordered)
	}
	unary("Reshape", append(append([][]int{}, all...), thrS...), func(e *OpEngine, d []int) [][]interp.Value {
		n := 1
		for _, x := range d {
			n *= x
		}
		var vs [][]interp.Value
		for _, tgt := range factorShapes(n, 3) {
			vs = append(vs, []interp.Value{e.cInts(tgt)})
		}
		return vs
	}, false)
	unary("Broadcast", shapesUpTo(DataBounds{MaxRank: 3, Sizes: []int{1, 2, 3}, MaxElts: 9}, 0), func(e *OpEngine, d []int) [][]interp.Value {
		var vs [][]interp.Value
		for _, tgt := range broadcastTargetsC(d, b) {
			vs = append(vs, []interp.Value{e.cInts(tgt)})
		}
		return vs
	}, false)
	unary("Slice", append(withDeep(shapesUpTo(b, 0), 0), thrS...), func(e *OpEngine, d []int) [][]interp.Value {
		var vs [][]interp.Value
		for _, idx := range sliceIndexes(d) {
			vs = append(vs, []interp.Value{e.cRanges(idx)})
		}
		return vs
	}, false)
	// binary
	binary := func(name string, pairs [][2][]int, ordered bool, mid func(e *OpEngine, da, db []int) [][]interp.Value) {
		if !want(name) {
			return
		}
		fn := e.method(name)
		for _, pr := range pairs {
			da, db := pr[0], pr[1]
			var facts sym.Facts
			if ordered {
				facts = orderFacts(map[string][]int{"A": da, "B": db})
			}
			nv := 1
			if mid != nil {
				nv = midCount(e, mid, da, db)
			}
			for vi := 0; vi < nv; vi++ {
				vi := vi
				steps := 0
				if prodInts(da)+prodInts(db) > 300 {
					steps = 40000000 // operands beyond a size constant in the hundreds or thousands
				}
				add(&DataCall{Fn: fn, Steps: steps, Label: fmt.Sprintf("%s A=%s B=%s v%d", name, dimsLabel(da), dimsLabel(db), vi), Facts: facts, Build: func(e *OpEngine) []interp.Value {
					a := e.mkTensorD("A", da, true, rng)
					bt := e.mkTensorD("B", db, true, rng)
					if mid != nil {
						m := mid(e, da, db)[vi]
						return append(append([]interp.Value{a}, m...), e.W.Boxed(bt))
					}
					return []interp.Value{a, e.W.Boxed(bt)}
				}})
			}
		}
	}
	smallShapes := shapesUpTo(DataBounds{MaxRank: 3, Sizes: []int{1, 2}, MaxElts: 8}, 0)
	for _, n := range append(append([]string{}, comparisons...), "ElMax", "ElMin") {
		if !want(n) {
			continue
		}
		fn := e.method(n)
		near := n != "Eq" && n != "Ne" // Eq/Ne are specified for identical or far-apart pairs only
		for _, d := range smallShapes {
			d := d
			add(&DataCall{Fn: fn, Label: fmt.Sprintf("%s A=%s B=%s", n, dimsLabel(d), dimsLabel(d)), Cases: pairCases(d, near), Build: func(e *OpEngine) []interp.Value {
				return []interp.Value{e.mkTensorD("A", d, true, rng), e.W.Boxed(e.mkTensorD("B", d, true, rng))}
			}})
		}
	}
	if want("Equals") {
		fn := e.method("Equals")
		for _, d := range smallShapes {
			d := d
			cases := pairCases(d, false)
			// mixed cases: all positions tie except the first / the last one
			if n := len(cases[1].Facts); n > 1 {
				for _, which := range []string{"first", "last"} {
					f := sym.Facts{}
					for k, v := range cases[1].Facts {
						f[k] = v
					}
					idx := make([]sym.Poly, len(d))
					for i := range idx {
						if which == "last" {
							idx[i] = sym.PInt(int64(d[i] - 1))
						} else {
							idx[i] = sym.PInt(0)
						}
					}
					f[sym.Sub(sym.LeafE("A", idx), sym.LeafE("B", idx)).Key()] = sym.SignBigPos
					cases = append(cases, DataCase{Name: "only the " + which + " position differs", Facts: f})
				}
			}
			add(&DataCall{Fn: fn, Label: fmt.Sprintf("Equals A=%s B=%s", dimsLabel(d), dimsLabel(d)), Cases: cases, Build: func(e *OpEngine) []interp.Value {
				return []interp.Value{e.mkTensorD("A", d, false, rng), e.W.Boxed(e.mkTensorD("B", d, false, rng))}
			}, OnResult: func(e *OpEngine, caseName string, res []interp.Value) {
				key := "cputensor.(*CPUTensor).Equals"
				e.did("D.elements", key)
				bv, ok := res[0].(interp.BoolV)
				if !ok || !bv.Known || !interp.IsNil(res[1]) {
					e.undecided("D.elements", key, "equals", e.P.FuncPos(fn), "Equals result not determined [case "+caseName+"]")
					return
				}
				if want := caseName == "a==b"; bv.Val != want {
					e.find("D.elements", key, "equals", e.P.FuncPos(fn), fmt.Sprintf("Equals returns %v when every position compares %s [shape %s]", bv.Val, caseName, dimsLabel(d)))
				}
			}})
		}
	}
	// the same tensor object as both operands, with symbolic elements and with every element NaN: results may not depend on operand identity (NaN is not equal to itself, A-A is not 0 there)
	for _, n := range append(append([]string{}, comparisons...), "ElMax", "ElMin", "Add", "Sub", "Mul", "Div") {
		if !want(n) {
			continue
		}
		fn := e.method(n)
		for _, d := range [][]int{{2}, {2, 2}} {
			for _, withNaN := range []bool{false, true} {
				d, withNaN := d, withNaN
				lbl := fmt.Sprintf("%s A=%s with itself", n, dimsLabel(d))
				if withNaN {
					lbl += ", every element NaN"
				}
				add(&DataCall{Fn: fn, Label: lbl, Build: func(e *OpEngine) []interp.Value {
					a := e.mkTensorD("A", d, true, rng)
					if withNaN {
						a = e.mkTensorConst("A", d, true, sym.NumF(math.NaN()))
					}
					return []interp.Value{a, e.W.Boxed(a)}
				}})
			}
		}
	}
	if want("Equals") {
		fn := e.method("Equals")
		for _, withNaN := range []bool{false, true} {
			withNaN := withNaN
			lbl := "Equals A=[2,2] with itself"
			if withNaN {
				lbl += ", every element NaN"
			}
			add(&DataCall{Fn: fn, Label: lbl, Build: func(e *OpEngine) []interp.Value {
				a := e.mkTensorD("A", []int{2, 2}, false, rng)
				if withNaN {
					a = e.mkTensorConst("A", []int{2, 2}, false, sym.NumF(math.NaN()))
				}
				return []interp.Value{a, e.W.Boxed(a)}
			}, OnResult: func(e *OpEngine, caseName string, res []interp.Value) {
				key := "cputensor.(*CPUTensor).Equals"
				e.did("D.elements", key)
				bv, ok := res[0].(interp.BoolV)
				if !ok || !bv.Known || !interp.IsNil(res[1]) {
					e.undecided("D.elements", key, "equals", e.P.FuncPos(fn), "Equals result not determined ["+lbl+"]")
					return
				}
				if bv.Val != !withNaN {
					e.find("D.elements", key, "equals-self", e.P.FuncPos(fn), fmt.Sprintf("Equals of a tensor with itself returns %v [%s]: NaN differs from itself, everything else equals itself", bv.Val, lbl))
				}
			}})
		}
	}
	// every element +Inf (only for properties whose quantifier admits non-finite values, e.g. upstream gradients):
	// a sum of equal infinities is that infinity, a mean likewise — compensated / running schemes give Inf-Inf = NaN
	if e.NonFinite {
		for _, nm := range []string{"Sum", "Avg", "Mean", "SumAlong", "AvgAlong", "MeanAlong"} {
			if !want(nm) {
				continue
			}
			nm := nm
			fn := e.method(nm)
			key := "cputensor.(*CPUTensor)." + nm
			variants := []int{-1}
			if strings.HasSuffix(nm, "Along") {
				variants = []int{0, 1}
			}
			for _, dim := range variants {
				dim := dim
				d := []int{3, 2}
				lbl := fmt.Sprintf("%s A=%s, every element +Inf", nm, dimsLabel(d))
				if dim >= 0 {
					lbl += fmt.Sprintf(" dim=%d", dim)
				}
				var recv interp.PtrV
				dc := &DataCall{Fn: fn, Label: lbl, Build: func(e *OpEngine) []interp.Value {
					recv = e.mkTensorConst("A", d, false, sym.NumF(math.Inf(1)))
					if dim >= 0 {
						return []interp.Value{recv, cInt(dim)}
					}
					return []interp.Value{recv}
				}}
				if dim < 0 {
					dc.OnResult = func(e *OpEngine, caseName string, res []interp.Value) {
						e.did("D.elements", key)
						wantV, ok := e.W.Method(nm, recv, nil)
						if !ok || len(res) != 1 {
							e.undecided("D.elements", key, "no-spec", e.P.FuncPos(fn), "no specification for "+nm)
							return
						}
						e.compareScalar(key, e.P.FuncPos(fn), res[0], wantV, lbl)
					}
				}
				add(dc)
			}
		}
	}
	// beyond an element-count constant in the thousands: two-symbol periodic operands
	for _, c := range e.hugeThresholds() {
		n := c + 1
		for _, nm := range []string{"Exp", "Scale", "Sum", "Avg", "Mean", "Var", "Std", "SumAlong", "AvgAlong", "MeanAlong", "VarAlong"} {
			if !want(nm) {
				continue
			}
			nm := nm
			fn := e.method(nm)
			key := "cputensor.(*CPUTensor)." + nm
			variants := []int{-1}
			if strings.HasSuffix(nm, "Along") {
				variants = []int{0, 1}
			}
			for _, dim := range variants {
				dim := dim
				lbl := fmt.Sprintf("%s A=[%d,1] two-symbol periodic", nm, n)
				if dim >= 0 {
					lbl += fmt.Sprintf(" dim=%d", dim)
				}
				var recv interp.PtrV
				dc := &DataCall{Fn: fn, Label: lbl, Steps: 40000000, Build: func(e *OpEngine) []interp.Value {
					recv = e.mkTensorPeriodic("A", n, false)
					switch {
					case nm == "Scale":
						return []interp.Value{recv, interp.FloatV{E: sym.SymE("c")}}
					case dim >= 0:
						return []interp.Value{recv, cInt(dim)}
					}
					return []interp.Value{recv}
				}}
				switch nm {
				case "Sum", "Avg", "Mean", "Var", "Std":
					dc.OnResult = func(e *OpEngine, caseName string, res []interp.Value) {
						e.did("D.elements", key)
						wantV, ok := e.W.Method(nm, recv, nil)
						if !ok || len(res) != 1 {
							e.undecided("D.elements", key, "no-spec", e.P.FuncPos(fn), "no specification for "+nm)
							return
						}
						e.compareScalar(key, e.P.FuncPos(fn), res[0], wantV, lbl)
					}
				}
				add(dc)
			}
		}
	}
	// … and the binary element-wise kernels on two periodic operands, as flat vectors and with a trailing unit axis
	for _, c := range e.hugeThresholds() {
		n := c + 1
		for _, nm := range []string{"Add", "Sub", "Mul", "Div"} {
			if !want(nm) {
				continue
			}
			fn := e.method(nm)
			for _, flat := range []bool{true, false} {
				flat := flat
				lbl := fmt.Sprintf("%s A=B=[%d] two-symbol periodic", nm, n)
				if !flat {
					lbl = fmt.Sprintf("%s A=B=[%d,1] two-symbol periodic", nm, n)
				}
				add(&DataCall{Fn: fn, Label: lbl, Steps: 40000000, Build: func(e *OpEngine) []interp.Value {
					a := e.mkTensorPeriodicR("A", n, false, flat)
					bt := e.mkTensorPeriodicR("B", n, false, flat)
					return []interp.Value{a, e.W.Boxed(bt)}
				}})
			}
		}
		for _, nm := range []string{"Exp", "Scale", "Sum", "Mean"} {
			if !want(nm) {
				continue
			}
			nm := nm
			fn := e.method(nm)
			key := "cputensor.(*CPUTensor)." + nm
			lbl := fmt.Sprintf("%s A=[%d] two-symbol periodic", nm, n)
			var recv interp.PtrV
			dc := &DataCall{Fn: fn, Label: lbl, Steps: 40000000, Build: func(e *OpEngine) []interp.Value {
				recv = e.mkTensorPeriodicR("A", n, false, true)
				if nm == "Scale" {
					return []interp.Value{recv, interp.FloatV{E: sym.SymE("c")}}
				}
				return []interp.Value{recv}
			}}
			if nm == "Sum" || nm == "Mean" {
				dc.OnResult = func(e *OpEngine, caseName string, res []interp.Value) {
					e.did("D.elements", key)
					wantV, ok := e.W.Method(nm, recv, nil)
					if !ok || len(res) != 1 {
						return
					}
					e.compareScalar(key, e.P.FuncPos(fn), res[0], wantV, lbl)
				}
			}
			add(dc)
		}
	}
	// … and long operands with FEW rows (a row-chunking scheme divides by rows/workers)
	for _, c := range e.hugeThresholds() {
		n := c + 1
		for _, rows := range []int{1, 2, 3} {
			d := []int{rows, (n + rows - 1) / rows}
			for _, nm := range []string{"Exp", "Scale", "Pow", "Tanh", "Sum", "Mean", "SumAlong", "MeanAlong"} {
				if !want(nm) {
					continue
				}
				nm := nm
				fn := e.method(nm)
				key := "cputensor.(*CPUTensor)." + nm
				lbl := fmt.Sprintf("%s A=%s two-symbol periodic", nm, dimsLabel(d))
				var recv interp.PtrV
				dc := &DataCall{Fn: fn, Label: lbl, Steps: 40000000, Build: func(e *OpEngine) []interp.Value {
					recv = e.mkTensorPeriodicDims("A", d, false)
					switch nm {
					case "Scale", "Pow":
						return []interp.Value{recv, interp.FloatV{E: sym.NumI(2)}}
					case "SumAlong", "MeanAlong":
						return []interp.Value{recv, cInt(0)}
					}
					return []interp.Value{recv}
				}}
				if nm == "Sum" || nm == "Mean" {
					dc.OnResult = func(e *OpEngine, caseName string, res []interp.Value) {
						e.did("D.elements", key)
						wantV, ok := e.W.Method(nm, recv, nil)
						if !ok || len(res) != 1 {
							return
						}
						e.compareScalar(key, e.P.FuncPos(fn), res[0], wantV, lbl)
					}
				}
				add(dc)
			}
		}
	}
	bpairs := broadcastPairsC(b)
	for _, d := range thr0L {
		bpairs = append(bpairs, [2][]int{d, d})
	}
	var thrDot, thrMM [][2][]int
	for _, c := range e.smallThresholds() {
		thrDot = append(thrDot, [2][]int{{c + 1}, {c + 1}})
		// each of (rows, inner, columns) just beyond the constant while the other two are 1 or 2
		for pos := 0; pos < 3; pos++ {
			for _, o1 := range []int{1, 2} {
				for _, o2 := range []int{1, 2} {
					mnk := [3]int{}
					others := []int{o1, o2}
					oi := 0
					for i := range mnk {
						if i == pos {
							mnk[i] = c + 1
						} else {
							mnk[i] = others[oi]
							oi++
						}
					}
					thrMM = append(thrMM, [2][]int{{mnk[0], mnk[1]}, {mnk[1], mnk[2]}})
				}
			}
		}
	}
	for _, c := range e.SizeThresholds() {
		if c > 40 {
			// batch counters: c+1 pairs of unit matrices / unit vectors, and one long contraction
			thrMM = append(thrMM, [2][]int{{c + 1, 1, 1}, {c + 1, 1, 1}}, [2][]int{{1, c + 1}, {c + 1, 1}})
			thrDot = append(thrDot, [2][]int{{c + 1, 1}, {c + 1, 1}}, [2][]int{{c + 1}, {c + 1}})
		}
	}
	bpairs = append(bpairs, [2][]int{{2, 2, 2}, {2, 2, 2}}, [2][]int{{2, 1, 2, 2}, {2, 1, 2, 2}})
	for _, n := range []string{"Add", "Sub", "Mul", "Div"} {
		binary(n, bpairs, false, nil)
	}
	// batch broadcasting across a rank gap of two with a stretched unit dimension below the gap
	deepDot := [][2][]int{{{2, 1, 2}, {2, 3, 2, 2, 2}}, {{3, 2, 1, 2}, {2, 2}}}
	deepMM := [][2][]int{{{2, 1, 1, 1}, {2, 3, 2, 2, 1, 1}}, {{2, 3, 2, 1, 1, 2}, {2, 1, 2, 1}}}
	binary("Dot", append(append(dotPairsC(b), thrDot...), deepDot...), false, nil)
	binary("MatMul", append(append(matmulPairsC(b), thrMM...), deepMM...), false, nil)
	patchPairs := patchPairsC(b)
	for _, d := range thrS {
		// a source just beyond the constant patched into a slightly larger target, and into one of its own size
		big := append([]int{}, d...)
		big[0] += 2
		patchPairs = append(patchPairs, [2][]int{big, d}, [2][]int{d, d})
	}
	binary("Patch", patchPairs, false, func(e *OpEngine, da, db []int) [][]interp.Value {
		var vs [][]interp.Value
		for _, idx := range patchIndexes(da, db) {
			vs = append(vs, []interp.Value{e.cRanges(idx)})
		}
		return vs
	})
	// Concat
	if want("Concat") {
		fn := e.P.Func(core.PkgCPU, "Concat")
		for _, cc := range concatCases(b) {
			cc := cc
			add(&DataCall{Fn: fn, Label: fmt.Sprintf("Concat %v dim=%d", cc.shapes, cc.dim), Build: func(e *OpEngine) []interp.Value {
				vals := make([]interp.Value, len(cc.shapes))
				for i, d := range cc.shapes {
					vals[i] = e.W.Boxed(e.mkTensorD(roleName(i), d, true, rng))
				}
				return []interp.Value{e.M.SliceOf(e.A.TensorIface, vals, "ts"), cInt(cc.dim)}
			}})
		}
	}
	// constructors through package tensor's cputensor entry points
	if want("Full") {
		fn := e.P.Func(core.PkgCPU, "Full")
		for _, d := range all {
			d := d
			add(&DataCall{Fn: fn, Label: "Full " + dimsLabel(d), Build: func(e *OpEngine) []interp.Value {
				return []interp.Value{e.cInts(d), interp.FloatV{E: sym.SymE("value")}, interp.BoolC(true)}
			}})
		}
	}
	for _, n := range []string{"Zeros", "Ones"} {
		if want(n) {
			fn := e.P.Func(core.PkgCPU, n)
			for _, d := range shapesUpTo(DataBounds{MaxRank: 2, Sizes: []int{1, 2}, MaxElts: 4}, 0) {
				d := d
				add(&DataCall{Fn: fn, Label: n + " " + dimsLabel(d), Build: func(e *OpEngine) []interp.Value {
					return []interp.Value{e.cInts(d), interp.BoolC(false)}
				}})
			}
		}
	}
	/* ----- operations without a tensor result: compared through OnResult ----- */
	scalarShapes := append(withDeep(shapesUpTo(DataBounds{MaxRank: 3, Sizes: []int{1, 2, 3}, MaxElts: 12}, 0), 0), thr0...)
	for _, n := range []string{"Sum", "Max", "Min", "Avg", "Mean", "Var", "Std", "NElems", "Shape"} {
		if !want(n) {
			continue
		}
		fn := e.method(n)
		key := "cputensor.(*CPUTensor)." + n
		shapes := scalarShapes
		if n != "Var" && n != "Std" {
			shapes = append(append([][]int{}, scalarShapes...), thrL...)
		}
		for _, d := range shapes {
			d := d
			var facts sym.Facts
			if n == "Max" || n == "Min" {
				facts = orderFacts(map[string][]int{"A": d})
			}
			var recv interp.PtrV
			add(&DataCall{Fn: fn, Label: fmt.Sprintf("%s A=%s", n, dimsLabel(d)), Facts: facts, Build: func(e *OpEngine) []interp.Value {
				recv = e.mkTensorD("A", d, false, rng)
				return []interp.Value{recv}
			}, OnResult: func(e *OpEngine, caseName string, res []interp.Value) {
				e.did("D.elements", key)
				want, ok := e.W.Method(n, recv, nil)
				if !ok || len(res) != 1 {
					e.undecided("D.elements", key, "no-spec", e.P.FuncPos(fn), "no specification for "+n)
					return
				}
				e.compareScalar(key, e.P.FuncPos(fn), res[0], want, fmt.Sprintf("%s A=%s", n, dimsLabel(d)))
			}})
		}
	}
	if want("At") {
		fn := e.method("At")
		key := "cputensor.(*CPUTensor).At"
		for _, d := range scalarShapes {
			d := d
			for _, idx := range atIndexes(d) {
				idx := idx
				var recv interp.PtrV
				add(&DataCall{Fn: fn, Label: fmt.Sprintf("At%v A=%s", idx, dimsLabel(d)), Build: func(e *OpEngine) []interp.Value {
					recv = e.mkTensorD("A", d, false, rng)
					return []interp.Value{recv, e.cInts(idx)}
				}, OnResult: func(e *OpEngine, caseName string, res []interp.Value) {
					e.did("D.elements", key)
					e.did("A4.pre", key)
					want, _ := e.W.Method("At", recv, []interp.Value{e.cInts(idx)})
					wt := want.(interp.TupleV)
					gotErr, wantErr := isErrVal(res[1]), isErrVal(wt.V[1])
					lbl := fmt.Sprintf("At%v A=%s", idx, dimsLabel(d))
					switch {
					case gotErr && !wantErr:
						e.find("A4.pre", key, "rejects-valid", e.P.FuncPos(fn), "rejects a valid index ["+lbl+"]")
					case !gotErr && wantErr:
						e.find("A4.pre", key, "accepts-invalid", e.P.FuncPos(fn), "accepts an invalid index ["+lbl+"]")
					case !gotErr:
						e.compareScalar(key, e.P.FuncPos(fn), res[0], wt.V[0], lbl)
					}
				}})
			}
		}
	}
	if want("TensorOf") {
		fn := e.P.Func(core.PkgCPU, "TensorOf")
		for _, tc := range tensorOfCases() {
			tc := tc
			add(&DataCall{Fn: fn, Label: "TensorOf " + tc.label, Build: func(e *OpEngine) []interp.Value {
				return []interp.Value{e.nestedFloats(tc.tree, nil), interp.BoolC(false)}
			}})
		}
	}
	if want("Eye") {
		fn := e.P.Func(core.PkgCPU, "Eye")
		for n := 1; n <= 4; n++ {
			n := n
			add(&DataCall{Fn: fn, Label: fmt.Sprintf("Eye %d", n), Build: func(e *OpEngine) []interp.Value {
				return []interp.Value{cInt(n), interp.BoolC(false)}
			}})
		}
	}
	return out
}

func extraCount(e *OpEngine, extra func(e *OpEngine, d []int) [][]interp.Value, d []int) int {
	// the variant lists only depend on d; building them needs a world for slice arguments
	saveW := e.W
	e.W = spec.NewWorld(e.P, e.A, e.M)
	n := len(extra(e, d))
	e.W = saveW
	return n
}

func midCount(e *OpEngine, mid func(e *OpEngine, da, db []int) [][]interp.Value, da, db []int) int {
	saveW := e.W
	e.W = spec.NewWorld(e.P, e.A, e.M)
	n := len(mid(e, da, db))
	e.W = saveW
	return n
}

// factorShapes lists shapes of rank <= maxRank with product n (sizes >= 1, at most a few 1s).
func factorShapes(n, maxRank int) [][]int {
	var out [][]int
	var rec func(rem int, cur []int)
	rec = func(rem int, cur []int) {
		if len(cur) > 0 && rem == 1 {
			out = append(out, append([]int{}, cur...))
		}
		if len(cur) == maxRank {
			return
		}
		for f := 1; f <= rem; f++ {
			if rem%f == 0 {
				if f == 1 && (rem != 1 && len(cur) > 0 && cur[len(cur)-1] == 1) {
					continue
				}
				if f == 1 && rem == 1 && len(cur) >= 2 {
					continue
				}
				rec(rem/f, append(cur, f))
			}
		}
	}
	rec(n, nil)
	out = append(out, []int{}) // scalar target (valid only when n == 1)
	if len(out) > 24 {
		out = out[:24]
	}
	return out
}

func broadcastTargetsC(d []int, b DataBounds) [][]int {
	var out [][]int
	var units []int
	for k, x := range d {
		if x == 1 {
			units = append(units, k)
		}
	}
	for mask := 0; mask < 1<<len(units); mask++ {
		base := append([]int{}, d...)
		for i, k := range units {
			if mask&(1<<i) != 0 {
				base[k] = 2 + i%2
			}
		}
		for lead := 0; lead <= 2; lead++ {
			pre := []int{}
			for i := 0; i < lead; i++ {
				pre = append(pre, 2+i)
			}
			t := append(append([]int{}, pre...), base...)
			n := 1
			for _, x := range t {
				n *= x
			}
			if n <= 48 && len(t) <= 5 {
				out = append(out, t)
			}
			if lead == 1 {
				out = append(out, append([]int{1}, base...))
			}
		}
	}
	return out
}

func sliceIndexes(d []int) [][][2]int {
	var out [][][2]int
	out = append(out, nil) // no index: whole tensor
	r := len(d)
	// per dimension choices: whole {0,0}, first element, last element, interior/proper sub-range
	var rec func(k int, cur [][2]int)
	rec = func(k int, cur [][2]int) {
		if k > 0 {
			out = append(out, append([][2]int{}, cur...))
		}
		if k == r {
			return
		}
		choices := [][2]int{{0, 0}, {0, 1}, {d[k] - 1, d[k]}}
		if d[k] >= 3 {
			choices = append(choices, [2]int{1, d[k]}, [2]int{1, 2})
		} else if d[k] == 2 {
			choices = append(choices, [2]int{0, 2})
		}
		for _, c := range choices {
			rec(k+1, append(cur, c))
		}
	}
	rec(0, nil)
	if len(out) > 60 {
		// keep a spread
		var keep [][][2]int
		step := len(out) / 60
		for i := 0; i < len(out); i += step + 1 {
			keep = append(keep, out[i])
		}
		out = keep
	}
	return out
}

func broadcastPairsC(b DataBounds) [][2][]int {
	var out [][2][]int
	shapes := shapesUpTo(DataBounds{MaxRank: 3, Sizes: []int{1, 2, 3}, MaxElts: 9}, 0)
	for _, a := range shapes {
		for _, c := range shapes {
			if compatC(a, c) {
				out = append(out, [2][]int{a, c})
			}
		}
	}
	// a few rank-gap >= 2 pairs with interior unit dimensions
	out = append(out,
		[2][]int{{2, 1, 3}, {2, 2, 2, 1, 3}}, [2][]int{{2, 1, 3}, {3, 2, 2, 3}}, [2][]int{{1, 2}, {2, 3, 2, 2}},
		[2][]int{{2, 2, 2, 2, 3}, {2, 1, 3}}, [2][]int{{3}, {2, 2, 2, 3}}, [2][]int{{2, 1, 1}, {3, 2, 2, 2}})
	return out
}

func compatC(a, c []int) bool {
	for k := 1; k <= len(a) && k <= len(c); k++ {
		x, y := a[len(a)-k], c[len(c)-k]
		if x != y && x != 1 && y != 1 {
			return false
		}
	}
	return true
}

func dotPairsC(b DataBounds) [][2][]int {
	var out [][2][]int
	batches := shapesUpTo(DataBounds{MaxRank: 2, Sizes: []int{1, 2, 3}, MaxElts: 6}, 0)
	for _, ba := range batches {
		for _, bb := range batches {
			if !compatC(ba, bb) {
				continue
			}
			for _, n := range []int{1, 2, 3} {
				out = append(out, [2][]int{append(append([]int{}, ba...), n), append(append([]int{}, bb...), n)})
			}
		}
	}
	out = append(out, [2][]int{{2, 3, 2}, {2}}, [2][]int{{3, 2, 2}, {3, 2, 2}}, [2][]int{{2, 3, 2, 2}, {3, 1, 2}})
	return out
}

func matmulPairsC(b DataBounds) [][2][]int {
	var out [][2][]int
	batches := shapesUpTo(DataBounds{MaxRank: 2, Sizes: []int{1, 2, 3}, MaxElts: 3}, 0)
	for _, ba := range batches {
		for _, bb := range batches {
			if !compatC(ba, bb) {
				continue
			}
			for _, mnk := range [][3]int{{2, 3, 2}, {1, 2, 3}, {3, 1, 2}, {2, 2, 1}, {1, 1, 1}} {
				out = append(out, [2][]int{append(append([]int{}, ba...), mnk[0], mnk[1]), append(append([]int{}, bb...), mnk[1], mnk[2])})
			}
		}
	}
	out = append(out, [2][]int{{2, 2, 3}, {3, 4}}, [2][]int{{2, 3}, {2, 2, 3, 2}}, [2][]int{{2, 1, 2, 3}, {3, 3, 2}})
	return out
}

func patchPairsC(b DataBounds) [][2][]int {
	var out [][2][]int
	for _, d := range shapesUpTo(DataBounds{MaxRank: 3, Sizes: []int{1, 2, 3}, MaxElts: 12}, 0) {
		// sources: same shape, and every shape obtained by shrinking dimensions
		var rec func(k int, cur []int)
		rec = func(k int, cur []int) {
			if k == len(d) {
				out = append(out, [2][]int{d, append([]int{}, cur...)})
				return
			}
			for s := 1; s <= d[k]; s++ {
				if s == d[k] || s == 1 || s == 2 {
					rec(k+1, append(cur, s))
				}
			}
		}
		rec(0, nil)
	}
	return out
}

// patchIndexes lists index forms for patching source db into target da: every combination of omitted,
// {0,0} and explicit ranges at every offset that fits.
func patchIndexes(da, db []int) [][][2]int {
	var out [][][2]int
	r := len(da)
	var rec func(k int, cur [][2]int)
	rec = func(k int, cur [][2]int) {
		out = append(out, append([][2]int{}, cur...)) // index covering the first k dimensions
		if k == r {
			return
		}
		rec(k+1, append(cur, [2]int{0, 0}))
		for off := 0; off+db[k] <= da[k]; off++ {
			rec(k+1, append(cur, [2]int{off, off + db[k]}))
		}
	}
	rec(0, nil)
	if len(out) > 40 {
		var keep [][][2]int
		step := len(out)/40 + 1
		for i := 0; i < len(out); i += step {
			keep = append(keep, out[i])
		}
		keep = append(keep, out[len(out)-1])
		out = keep
	}
	return out
}

type concatCase struct {
	shapes [][]int
	dim    int
}

func concatCases(b DataBounds) []concatCase {
	var out []concatCase
	for _, base := range shapesUpTo(DataBounds{MaxRank: 3, Sizes: []int{1, 2}, MaxElts: 4}, 1) {
		for dim := 0; dim < len(base); dim++ {
			for _, ext := range [][]int{{1, 2}, {2, 1}, {1, 2, 1}, {2, 1, 3}, {1, 1, 1}} {
				var shapes [][]int
				for _, x := range ext {
					d := append([]int{}, base...)
					d[dim] = x
					shapes = append(shapes, d)
				}
				out = append(out, concatCase{shapes, dim})
			}
		}
	}
	return out
}

/* ---------- TensorOf data trees ---------- */

// dtree is a nested float slice: leaf==true is a float64, otherwise a slice of children.
type dtree struct {
	leaf      bool
	kids      []*dtree
	depthHint int
}

func rectTree(d []int) *dtree {
	if len(d) == 0 {
		return &dtree{leaf: true}
	}
	t := &dtree{}
	for i := 0; i < d[0]; i++ {
		t.kids = append(t.kids, rectTree(d[1:]))
	}
	return t
}

func (t *dtree) depth() int {
	if t.leaf {
		return 0
	}
	if len(t.kids) == 0 {
		return 1
	}
	return 1 + t.kids[0].depth()
}

type tensorOfCase struct {
	label string
	tree  *dtree
	depth int
}

func tensorOfCases() []tensorOfCase {
	var out []tensorOfCase
	for _, d := range [][]int{{}, {1}, {3}, {1, 1}, {2, 3}, {3, 1}, {2, 2, 2}, {1, 2, 3}, {2, 1, 2}, {3, 2, 2}, {2, 2, 2, 2}, {2, 1, 2, 3}, {1, 2, 2, 1}, {3, 2, 1, 2}} {
		out = append(out, tensorOfCase{label: "rect " + dimsLabel(d), tree: rectTree(d), depth: len(d)})
	}
	// ragged / empty variants: must be rejected with an error, never a panic
	rag := func(label string, d []int, edit func(t *dtree)) {
		t := rectTree(d)
		edit(t)
		out = append(out, tensorOfCase{label: label, tree: t, depth: len(d)})
	}
	rag("empty depth1", []int{2}, func(t *dtree) { t.kids = nil })
	rag("empty row depth2", []int{2, 2}, func(t *dtree) { t.kids[1].kids = nil })
	rag("ragged depth2 longer", []int{2, 2}, func(t *dtree) { t.kids[1].kids = append(t.kids[1].kids, &dtree{leaf: true}) })
	rag("ragged depth2 shorter", []int{2, 2}, func(t *dtree) { t.kids[1].kids = t.kids[1].kids[:1] })
	rag("ragged depth3 inner longer", []int{2, 2, 2}, func(t *dtree) {
		for _, r := range t.kids[1].kids {
			r.kids = append(r.kids, &dtree{leaf: true})
		}
	})
	rag("ragged depth3 inner shorter", []int{2, 2, 2}, func(t *dtree) {
		for _, r := range t.kids[1].kids {
			r.kids = r.kids[:1]
		}
	})
	rag("ragged depth3 one row", []int{2, 2, 2}, func(t *dtree) { t.kids[1].kids[1].kids = t.kids[1].kids[1].kids[:1] })
	rag("ragged depth3 middle", []int{2, 2, 2}, func(t *dtree) { t.kids[1].kids = t.kids[1].kids[:1] })
	rag("empty depth3 inner", []int{2, 2, 2}, func(t *dtree) { t.kids[0].kids[0].kids = nil })
	// an empty or nil sub-slice in FIRST position of a middle level (reference lengths are usually read from [0])
	rag("empty depth3 first middle", []int{2, 2, 2}, func(t *dtree) { t.kids[0].kids = nil })
	rag("empty depth3 every middle", []int{2, 2, 2}, func(t *dtree) { t.kids[0].kids, t.kids[1].kids = nil, nil })
	rag("empty depth3 single middle", []int{1, 2, 2}, func(t *dtree) { t.kids[0].kids = nil })
	rag("empty depth4 first level2", []int{2, 2, 1, 2}, func(t *dtree) { t.kids[0].kids = nil })
	rag("empty depth4 first level3", []int{1, 1, 2, 2}, func(t *dtree) { t.kids[0].kids[0].kids = nil })
	rag("empty depth4 every level3", []int{1, 2, 2, 2}, func(t *dtree) { t.kids[0].kids[0].kids, t.kids[0].kids[1].kids = nil, nil })
	rag("empty depth2 first row", []int{2, 2}, func(t *dtree) { t.kids[0].kids = nil })
	rag("ragged depth4 innermost longer", []int{2, 1, 1, 2}, func(t *dtree) {
		r := t.kids[1].kids[0].kids[0]
		r.kids = append(r.kids, &dtree{leaf: true})
	})
	rag("ragged depth4 innermost shorter", []int{2, 1, 1, 2}, func(t *dtree) {
		r := t.kids[1].kids[0].kids[0]
		r.kids = r.kids[:1]
	})
	rag("ragged depth4 level3", []int{2, 1, 2, 2}, func(t *dtree) { t.kids[1].kids[0].kids = t.kids[1].kids[0].kids[:1] })
	rag("ragged depth4 level2", []int{2, 2, 1, 2}, func(t *dtree) { t.kids[1].kids = t.kids[1].kids[:1] })
	return out
}

// nestedFloats builds the Go value ([]float64, [][]float64, …) for a tree; elements are leaves D[i,j,…].
func (e *OpEngine) nestedFloats(t *dtree, prefix []sym.Poly) interp.Value {
	typ := e.floatSliceType(t.depthHint)
	_ = typ
	return e.nestedFloatsT(t, prefix, t.maxDepth())
}

func (t *dtree) maxDepth() int {
	if t.leaf {
		return 0
	}
	m := 0
	for _, k := range t.kids {
		if d := k.maxDepth(); d > m {
			m = d
		}
	}
	return m + 1
}

func (e *OpEngine) floatSliceType(depth int) types.Type {
	var t types.Type = e.A.FloatT
	for i := 0; i < depth; i++ {
		t = types.NewSlice(t)
	}
	return t
}

func (e *OpEngine) nestedFloatsT(t *dtree, prefix []sym.Poly, depth int) interp.Value {
	var build func(t *dtree, prefix []sym.Poly, depth int) interp.Value
	build = func(t *dtree, prefix []sym.Poly, depth int) interp.Value {
		if depth == 0 {
			return interp.FloatV{E: sym.LeafE("D", prefix)}
		}
		vals := make([]interp.Value, len(t.kids))
		for i, k := range t.kids {
			vals[i] = build(k, append(append([]sym.Poly{}, prefix...), sym.PInt(int64(i))), depth-1)
		}
		return e.M.SliceOf(e.floatSliceType(depth-1), vals, "input-data")
	}
	return interp.IfaceV{T: e.floatSliceType(depth), V: build(t, prefix, depth)}
}

// atIndexes: every valid position (bounded) plus out-of-range and wrong-arity indexes.
func atIndexes(d []int) [][]int {
	var out [][]int
	idx := make([]int, len(d))
	for n := 0; n < 40; n++ {
		out = append(out, append([]int{}, idx...))
		k := len(idx) - 1
		for k >= 0 {
			idx[k]++
			if idx[k] < d[k] {
				break
			}
			idx[k] = 0
			k--
		}
		if k < 0 {
			break
		}
	}
	for k := range d {
		for _, bad := range []int{-1, -2, d[k], d[k] + 1} {
			b := make([]int, len(d))
			b[k] = bad
			out = append(out, b)
		}
	}
	out = append(out, append(make([]int, len(d)), 0)) // one index too many
	if len(d) > 0 {
		out = append(out, make([]int, len(d)-1)) // one too few
	}
	return out
}

// compareScalar compares a float (or int / []int) result with the specification's value.
func (e *OpEngine) compareScalar(key, pos string, got, want interp.Value, label string) {
	switch g := got.(type) {
	case interp.FloatV:
		w, ok := want.(interp.FloatV)
		if !ok {
			e.undecided("D.elements", key, "type", pos, "result kinds differ ["+label+"]")
			return
		}
		if !e.sameExpr(g.E, w.E, nil) {
			verdict, wit := e.numericCompare(g.E, w.E, nil)
			if verdict == 1 {
				e.Findings = append(e.Findings, Finding{Method: e.curMethod, Rule: "D.elements", Construct: key, What: "value", Pos: pos,
					Detail: fmt.Sprintf("returns %s but the defined value is %s [%s]", clip(g.E.String()), clip(w.E.String()), label), Witness: wit})
			} else {
				e.undecided("D.elements", key, "value", pos, fmt.Sprintf("normal forms differ, no separating point: got %s want %s [%s]", clip(g.E.String()), clip(w.E.String()), label))
			}
		}
	case interp.IntV:
		w, ok := want.(interp.IntV)
		if !ok || !g.P.Equal(w.P) {
			e.find("D.elements", key, "value", pos, fmt.Sprintf("returns %s, defined value %s [%s]", interp.Describe(got), interp.Describe(want), label))
		}
	case interp.SliceV:
		w, ok := want.(interp.SliceV)
		if !ok || w.Len != g.Len {
			e.find("D.elements", key, "value", pos, fmt.Sprintf("returns %s, defined value %s [%s]", interp.Describe(got), interp.Describe(want), label))
			return
		}
		ge, we := interp.SliceElems(g), interp.SliceElems(w)
		for i := range ge {
			a, ok1 := ge[i].(interp.IntV)
			b, ok2 := we[i].(interp.IntV)
			if !ok1 || !ok2 || !a.P.Equal(b.P) {
				e.find("D.elements", key, "value", pos, fmt.Sprintf("returns %s, defined value %s [%s]", interp.Describe(got), interp.Describe(want), label))
				return
			}
		}
	default:
		e.undecided("D.elements", key, "type", pos, "unexpected result kind ["+label+"]")
	}
}
