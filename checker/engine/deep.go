package engine

import (
	"fmt"
	"go/types"

	"golang.org/x/tools/go/ssa"

	"qverif/core"
	"qverif/interp"
	"qverif/spec"
	"qverif/sym"
)

// Deep mode: interface calls on tensors made by component code run the real cputensor methods (shadowed by
// the specification summaries), so results carry real gradient contexts and back edges; the real
// BackPropagate is then interpreted over the graph the component built.

func (e *OpEngine) callMethod(key, label, name string, recv interp.PtrV, args ...interp.Value) (interp.PtrV, bool) {
	fn := e.method(name)
	out, ok := e.call(key, label, fn, append([]interp.Value{recv}, args...))
	if !ok {
		return interp.PtrV{}, false
	}
	if len(out.Results) == 2 && isErrVal(out.Results[1]) {
		e.find("A4.pre", key, "rejects-valid", e.P.FuncPos(fn), fmt.Sprintf("%s fails inside a well-formed pipeline [instance %s]", name, label))
		return interp.PtrV{}, false
	}
	t, ok := e.W.AsTensor(out.Results[0])
	return t, ok
}

func (e *OpEngine) backprop(key, label string, root interp.PtrV) bool {
	bp := e.bpFunc()
	out, ok := e.call(key, label, bp, []interp.Value{e.W.Boxed(root)})
	if !ok {
		return false
	}
	if len(out.Results) == 1 && isErrVal(out.Results[0]) {
		ev := out.Results[0].(interp.ErrV)
		e.find("C01.total", key, "backprop-error", e.P.FuncPos(bp), fmt.Sprintf("back-propagation of a well-formed graph fails: %s [instance %s]", ev.Msg, label))
		return false
	}
	return true
}

// gradientOf returns the accumulated gradient tensor of t (ok=false when nil).
func (e *OpEngine) gradientOf(t interp.PtrV) (interp.PtrV, bool) {
	g, ok := e.W.GctxOf(t)
	if !ok {
		return interp.PtrV{}, false
	}
	return e.W.AsTensor(interp.Load(g.C.Fields[e.A.GGradient]))
}

// compareGrad compares a leaf's gradient with the expected element expression.
func (e *OpEngine) compareGrad(rule, key, what, pos, label string, leaf interp.PtrV, want sym.Expr, rule2 string, finite bool) {
	e.compareGradD2(rule, key, what, pos, label, leaf, want, nil, rule2, finite)
}

// compareGradD2 additionally takes the value the gradient would have if the ONLY deviation were the known one
// of the Broadcast backward rule (mean instead of sum over an expanded operand): a result equal to that is
// classified "inherits-D2" so that the listed known finding does not mask any other wrong value.
func (e *OpEngine) compareGradD2(rule, key, what, pos, label string, leaf interp.PtrV, want sym.Expr, wantD2 *sym.Expr, rule2 string, finite bool) {
	e.did(rule, key)
	dims := e.W.Dims(leaf)
	gt, ok := e.gradientOf(leaf)
	if !ok {
		if want.IsZero() {
			// "a finite zero": an explicit zero tensor is expected, but a missing gradient for a tracked input is a defect
		}
		e.find(rule, key, what+":missing", pos, fmt.Sprintf("the tracked input received no gradient [instance %s]", label))
		return
	}
	if !e.sameDims(e.W.Dims(gt), dims) {
		e.find(rule, key, what+":shape", pos, fmt.Sprintf("gradient shape %s differs from the input's shape %s [instance %s]", polys(e.W.Dims(gt)), polys(dims), label))
		return
	}
	gi := e.W.InfoOf(gt)
	if !gi.Has {
		e.undecided(rule, key, what+":opaque", pos, "gradient element semantics unknown")
		return
	}
	got, w := unitCanon(gi.Elem, dims), unitCanon(want, dims)
	if eqs := e.M.SymEqualities(); len(eqs) > 0 {
		got, w = got.SubstSym(eqs), w.SubstSym(eqs)
	}
	if !e.sameExpr(got, w, dims) {
		verdict, wit := e.numericCompare(got, w, dims)
		if verdict == 1 {
			sig := valueSignature(got, w)
			if wantD2 != nil && unitCanon(*wantD2, dims).Key() == got.Key() {
				sig = "inherits-D2"
			}
			e.Findings = append(e.Findings, Finding{Method: e.curMethod, Rule: rule, Construct: key, What: what + ":" + sig, Pos: pos,
				Detail: fmt.Sprintf("gradient is %s but the analytic derivative (%s) is %s [instance %s]", clip(got.String()), rule2, clip(w.String()), label), Witness: wit})
		} else {
			e.undecided(rule, key, what+":value", pos, fmt.Sprintf("normal forms differ, no separating point: got %s want %s [instance %s]", clip(got.String()), clip(w.String()), label))
		}
		return
	}
	if finite {
		e.did("A3.finite", key)
		if !gi.Rng.IsFinite() {
			e.find("A3.finite", key, what+":non-finite", pos, fmt.Sprintf("gradient may be non-finite (%s) [instance %s]", gi.Rng.String(), label))
		}
	}
}

/* ---------- loss gradients (C13) ---------- */

type region struct {
	name     string
	lo, hi   sym.Sign // sign of (pred - upper), sign of (lower - pred)
	predRng  spec.Ival
	expected int // 0: analytic inside formula, 1: zero
}

func (e *OpEngine) RunLossGradientChecks() {
	sv := e.deep
	e.deep = true
	defer func() { e.deep = sv }()
	regions := []region{
		{"inside", sym.SignBigNeg, sym.SignBigNeg, spec.Rng(0.01, 0.99), 0},
		{"clipped-low (incl. exactly 0)", sym.SignBigNeg, sym.SignBigPos, spec.Rng(-0.5, 0), 1},
		{"clipped-high (incl. exactly 1)", sym.SignBigPos, sym.SignBigNeg, spec.Rng(1, 1.5), 1},
	}
	for _, name := range []string{"MSE", "BCE", "CE"} {
		ctor := e.fn(core.PkgLosses, "New"+name)
		compute := e.fn(core.PkgLosses, "(*"+name+").Compute")
		key := "losses.(*" + name + ").Compute/gradient"
		if ctor == nil || compute == nil {
			e.undecided("anchor", key, "missing", "", "loss not found")
			continue
		}
		pos := e.P.FuncPos(compute)
		rank := 1
		if name == "CE" {
			rank = 2
		}
		regs := regions
		if name == "MSE" {
			regs = regions[:1]
		}
		lossT := e.typeOf(core.PkgLosses, name)
		for _, d := range patterns("n", rank) {
			for ci, computed := range []bool{false, true, false} {
				for _, rg := range regs {
					// third variant: the zero value of the exported loss type instead of the constructor's result
					zeroValue := ci == 2
					if zeroValue && (lossT == nil || rg.name != regs[0].name) {
						continue
					}
					d, computed, rg := d, computed, rg
					label := fmt.Sprintf("%s dims=%s prediction=%s region=%s", name, shapeStr(d), map[bool]string{false: "leaf", true: "k·q (computed)"}[computed], rg.name)
					if zeroValue {
						label += " zero-value receiver"
					}
					e.RunBody(key, label, 400, func() {
						e.M.Base = sizeBase(d)
						id := spec.IdentIdx(rank)
						leafName := "P"
						pred := sym.LeafE("P", id)
						if computed {
							leafName = "Q"
							pred = sym.Mul(sym.SymE("k"), sym.LeafE("Q", id))
						}
						T := sym.LeafE("T", id)
						f := sym.Facts{}
						if name != "MSE" {
							f[sym.Sub(pred, sym.NumF(1-lossEps)).Key()] = rg.lo
							f[sym.Sub(sym.NumF(lossEps), pred).Key()] = rg.hi
							f[sym.Sub(T, sym.NumI(1)).Key()] = sym.SignBigNeg
							f[sym.Neg(T).Key()] = sym.SignBigNeg
						}
						sym.ActiveFacts = f
						var lossObj interp.Value
						var out interp.Outcome
						var ok bool
						if zeroValue {
							lossObj = e.M.NewStruct(lossT, "zero-value:"+name)
						} else {
							out, ok = e.call(key, label, ctor, nil)
							if !ok {
								return
							}
							lossObj = out.Results[0]
						}
						leaf := e.mkTensor(leafName, TensorArg{Dims: d, Tracked: true, Rng: rg.predRng})
						t := e.mkTensor("T", TensorArg{Dims: d, Rng: spec.Rng(0, 1)})
						p := leaf
						if computed {
							var ok bool
							p, ok = e.callMethod(key, label, "Scale", leaf, interp.FloatV{E: sym.SymE("k")})
							if !ok {
								return
							}
							e.W.InfoOf(p).Rng = rg.predRng
						}
						out, ok = e.call(key, label, compute, []interp.Value{lossObj, e.W.Boxed(p), e.W.Boxed(t)})
						if !ok {
							return
						}
						if isErrVal(out.Results[1]) {
							e.find("A4.pre", key, "rejects-valid", pos, "Compute fails on valid inputs [instance "+label+"]")
							return
						}
						l, ok := e.W.AsTensor(out.Results[0])
						if !ok || !e.backprop(key, label, l) {
							return
						}
						n := sym.PolyE(d[0])
						var want sym.Expr
						switch {
						case rg.expected == 1:
							want = sym.Expr{}
						case name == "MSE":
							want = sym.Div(sym.Mul(sym.NumI(2), sym.Sub(pred, T)), n)
						case name == "BCE":
							want = sym.Div(sym.Sub(sym.Div(sym.Sub(sym.NumI(1), T), sym.Sub(sym.NumI(1), pred)), sym.Div(T, pred)), n)
						default:
							want = sym.Div(sym.Neg(sym.Div(T, pred)), n)
						}
						if computed {
							want = sym.Mul(sym.SymE("k"), want)
						}
						e.compareGrad("C13.gradient", key, leafName, pos, label, leaf, want, "2(p-t)/N | ((1-t)/(1-p) - t/p)/N | -(t/p)/N, zero where clipped", true)
						// untracked target receives nothing
						e.did("C08.bp", key)
						if _, has := e.gradientOf(t); has {
							e.find("C08.bp", key, "gradient-on-untracked", pos, "the untracked target received a gradient [instance "+label+"]")
						}
					})
				}
			}
		}
	}
}

/* ---------- activation gradients in a chain (C15) ---------- */

func (e *OpEngine) RunActivationGradientChecks(maxRank int) {
	sv := e.deep
	e.deep = true
	defer func() { e.deep = sv }()
	mT := e.typeOf(core.PkgActs, "LeakyReluConfig")
	sT := e.typeOf(core.PkgActs, "SoftmaxConfig")
	type adef struct {
		name   string
		suffix string
		ctor   func(e *OpEngine, key, label string) (interp.Value, bool)
		signs  bool // piecewise in the sign of the input
		slope  sym.Expr
	}
	defs := []adef{
		{name: "Relu", ctor: e.ctorNoErr(core.PkgActs, "NewRelu"), signs: true, slope: sym.Expr{}},
		{name: "Sigmoid", ctor: e.ctorNoErr(core.PkgActs, "NewSigmoid")},
		{name: "Tanh", ctor: e.ctorNoErr(core.PkgActs, "NewTanh")},
	}
	for _, mv := range []sym.Expr{sym.SymE("m"), sym.NumF(2.5), sym.NumF(-0.5), sym.NumF(0.01)} {
		mv := mv
		defs = append(defs, adef{name: "LeakyRelu", suffix: " M=" + mv.String(), signs: true, slope: mv,
			ctor: func(e *OpEngine, key, label string) (interp.Value, bool) {
				conf := e.newStructPtr(mT, map[string]interp.Value{"M": interp.FloatV{E: mv}})
				return e.ctorNoErr(core.PkgActs, "NewLeakyRelu", conf)(e, key, label)
			}})
	}
	for _, d := range defs {
		d := d
		fwd := e.fn(core.PkgActs, "(*"+d.name+").Forward")
		key := "activations.(*" + d.name + ").Forward/gradient"
		if fwd == nil {
			continue
		}
		pos := e.P.FuncPos(fwd)
		cases := []struct {
			name string
			sg   sym.Sign
		}{{"", sym.SignUnknown}}
		if d.signs {
			cases = []struct {
				name string
				sg   sym.Sign
			}{{"h>0", sym.SignBigPos}, {"h<0", sym.SignBigNeg}, {"h=0", sym.SignZero}}
		}
		for r := 0; r <= maxRank; r++ {
			for _, dims := range shapesFor("a", r, 1) {
				for _, cs := range cases {
					dims, cs, r := dims, cs, r
					label := fmt.Sprintf("%s%s x=%s case %s (input is the intermediate k·x, upstream weighting G)", d.name, d.suffix, shapeStr(dims), cs.name)
					e.RunBody(key, label, 300, func() {
						e.M.Base = sizeBase(dims)
						id := spec.IdentIdx(r)
						h := sym.Mul(sym.SymE("k"), sym.LeafE("X", id))
						f := sym.Facts{}
						if d.signs {
							f[h.Key()] = cs.sg
							f[sym.Neg(h).Key()] = flipSign(cs.sg)
						}
						sym.ActiveFacts = f
						act, ok := d.ctor(e, key, label)
						if !ok {
							return
						}
						x := e.mkTensor("X", TensorArg{Dims: dims, Tracked: true, Rng: spec.Rng(-50, 50)})
						g := e.mkTensor("G", TensorArg{Dims: dims, Rng: spec.Rng(-1e3, 1e3)})
						hT, ok := e.callMethod(key, label, "Scale", x, interp.FloatV{E: sym.SymE("k")})
						if !ok {
							return
						}
						e.W.InfoOf(hT).Rng = spec.Rng(-50, 50)
						out, ok := e.call(key, label, fwd, []interp.Value{act, e.tensorsArg(e.W.Boxed(hT))})
						if !ok {
							return
						}
						if isErrVal(out.Results[1]) {
							e.find("A4.pre", key, "rejects-valid", pos, "Forward fails on a valid input [instance "+label+"]")
							return
						}
						y, _ := e.W.AsTensor(out.Results[0])
						z, ok := e.callMethod(key, label, "Mul", y, e.W.Boxed(g))
						if !ok || !e.backprop(key, label, z) {
							return
						}
						G := sym.LeafE("G", id)
						k := sym.SymE("k")
						var want sym.Expr
						switch {
						case d.signs && cs.sg == sym.SignBigPos:
							want = sym.Mul(G, k)
						case d.signs && cs.sg == sym.SignBigNeg:
							want = sym.Mul(sym.Mul(G, k), d.slope)
						case d.signs:
							// at 0: any value between the one-sided derivatives
							e.did("C15.gradient", key)
							gt, has := e.gradientOf(x)
							if !has {
								e.find("C15.gradient", key, "X:missing", pos, "no gradient at input 0 [instance "+label+"]")
								return
							}
							got := unitCanon(e.W.InfoOf(gt).Elem, dims)
							base := unitCanon(sym.Mul(G, k), dims)
							q := sym.Div(got, base)
							if !betweenSlopes(q, d.slope) {
								e.find("C15.gradient", key, "X:tie", pos, fmt.Sprintf("at input 0 the gradient is %s; expected upstream·k times a value between the one-sided derivatives 1 and %s [instance %s]", clip(got.String()), d.slope.String(), label))
							}
							if !e.W.InfoOf(gt).Rng.IsFinite() {
								e.find("A3.finite", key, "X:non-finite", pos, "gradient at input 0 may be non-finite [instance "+label+"]")
							}
							return
						default:
							// smooth activations: derivative of the composite point-wise expression
							dz, ok := sym.Diff(e.W.InfoOf(z).Elem, "X")
							if !ok {
								e.undecided("C15.gradient", key, "X:diff", pos, "composite expression is not point-wise")
								return
							}
							want = dz
						}
						e.compareGrad("C15.gradient", key, "X", pos, label, x, want, "upstream · activation'(h) · dh/dx", true)
						// the activation's INPUT is the intermediate h: it must itself hold upstream · activation'(h)
						e.compareGrad("C15.gradient", key, "h", pos, label, hT, sym.Div(want, k), "upstream · activation'(h) at the intermediate input", false)
					})
				}
			}
		}
	}
	// extreme-range probe: |x| up to 700 with a unit chain factor; the gradient interval must stay free of NaN
	for _, d := range defs {
		d := d
		if d.name == "LeakyRelu" && d.suffix != " M=0.01" {
			continue
		}
		fwd := e.fn(core.PkgActs, "(*"+d.name+").Forward")
		key := "activations.(*" + d.name + ").Forward/gradient"
		if fwd == nil {
			continue
		}
		label := d.name + d.suffix + " extreme range |x| <= 700"
		e.RunBody(key, label, 100, func() {
			act, ok := d.ctor(e, key, label)
			if !ok {
				return
			}
			x := e.mkTensor("X", TensorArg{Dims: nil, Tracked: true, Rng: spec.Rng(-700, 700)})
			g := e.mkTensor("G", TensorArg{Dims: nil, Rng: spec.Rng(-1e3, 1e3)})
			hT, ok := e.callMethod(key, label, "Scale", x, interp.FloatC(1))
			if !ok {
				return
			}
			out, ok := e.call(key, label, fwd, []interp.Value{act, e.tensorsArg(e.W.Boxed(hT))})
			if !ok {
				return
			}
			if isErrVal(out.Results[1]) {
				e.find("A4.pre", key, "rejects-valid", e.P.FuncPos(fwd), "Forward fails on a valid input [instance "+label+"]")
				return
			}
			y, _ := e.W.AsTensor(out.Results[0])
			z, ok := e.callMethod(key, label, "Mul", y, e.W.Boxed(g))
			if !ok || !e.backprop(key, label, z) {
				return
			}
			e.did("A3.finite", key)
			gt, has := e.gradientOf(x)
			if !has {
				return
			}
			if rg := e.W.InfoOf(gt).Rng; rg.NaN {
				e.find("A3.finite", key, "X:nan-at-extremes", e.P.FuncPos(fwd), fmt.Sprintf("the gradient may be NaN (%s) for inputs of magnitude up to 700 (0·Inf or Inf-Inf in the backward pass) [instance %s]", rg.String(), label))
			}
		})
	}
	// Softmax: p_i (g_i - Σ_j p_j g_j) along the configured dimension
	fwd := e.fn(core.PkgActs, "(*Softmax).Forward")
	if fwd == nil || sT == nil {
		return
	}
	key := "activations.(*Softmax).Forward/gradient"
	pos := e.P.FuncPos(fwd)
	for r := 1; r <= maxRank && r <= 3; r++ {
		for dim := 0; dim < r; dim++ {
			r, dim := r, dim
			dims := allAtoms("a", r)
			label := fmt.Sprintf("Softmax Dim=%d x=%s (leaf input, upstream weighting G)", dim, shapeStr(dims))
			e.RunBody(key, label, 300, func() {
				e.M.Base = sizeBase(dims)
				conf := e.newStructPtr(sT, map[string]interp.Value{"Dim": intV(sym.PInt(int64(dim)))})
				act, ok := e.ctorNoErr(core.PkgActs, "NewSoftmax", conf)(e, key, label)
				if !ok {
					return
				}
				x := e.mkTensor("X", TensorArg{Dims: dims, Tracked: true, Rng: spec.Rng(-50, 50)})
				g := e.mkTensor("G", TensorArg{Dims: dims, Rng: spec.Rng(-1e3, 1e3)})
				out, ok := e.call(key, label, fwd, []interp.Value{act, e.tensorsArg(e.W.Boxed(x))})
				if !ok {
					return
				}
				if isErrVal(out.Results[1]) {
					e.find("A4.pre", key, "rejects-valid", pos, "Forward fails on a valid input [instance "+label+"]")
					return
				}
				y, _ := e.W.AsTensor(out.Results[0])
				z, ok := e.callMethod(key, label, "Mul", y, e.W.Boxed(g))
				if !ok || !e.backprop(key, label, z) {
					return
				}
				id := spec.IdentIdx(r)
				pAt := func(idx []sym.Poly) sym.Expr {
					v := sym.FreshVar()
					si := append([]sym.Poly{}, idx...)
					si[dim] = sym.PAtom(v)
					return sym.Div(sym.FnE("exp", sym.LeafE("X", idx)), sym.Sigma(v, dims[dim], sym.FnE("exp", sym.LeafE("X", si))))
				}
				u := sym.FreshVar()
				ji := append([]sym.Poly{}, id...)
				ji[dim] = sym.PAtom(u)
				inner := sym.Sigma(u, dims[dim], sym.Mul(pAt(ji), sym.LeafE("G", ji)))
				want := sym.Mul(pAt(id), sym.Sub(sym.LeafE("G", id), inner))
				// with the Broadcast backward rule averaging, the normaliser's share is divided by the size of dim
				wantD2 := sym.Mul(pAt(id), sym.Sub(sym.LeafE("G", id), sym.Div(inner, sym.PolyE(dims[dim]))))
				e.compareGradD2("C15.gradient", key, "X", pos, label, x, want, &wantD2, "p_i (g_i - Σ_j p_j g_j)", false)
			})
		}
	}
}

func flipSign(s sym.Sign) sym.Sign {
	switch s {
	case sym.SignBigPos:
		return sym.SignBigNeg
	case sym.SignBigNeg:
		return sym.SignBigPos
	}
	return s
}

// betweenSlopes: q is a constant (or an expression in the slope symbol) between 1 and slope.
func betweenSlopes(q sym.Expr, slope sym.Expr) bool {
	if r, ok := q.Const(); ok {
		f, _ := r.Float64()
		s := 0.0
		if sr, ok := slope.Const(); ok {
			s, _ = sr.Float64()
		} else {
			// symbolic slope: a constant weight in [0,1] is between 1 and m only if it is a convex weight of 1 and m;
			// constants are accepted only when they equal 1 (degenerate) — handled below
			return f >= 0 && f <= 1 && false
		}
		lo, hi := s, 1.0
		if lo > hi {
			lo, hi = hi, lo
		}
		return f >= lo-1e-12 && f <= hi+1e-12
	}
	// symbolic slope m: accept a·1 + b·m with a,b >= 0 and a+b = 1
	m := sym.SymE("mcoef")
	_ = m
	a, b, ok := affineIn(q, slope)
	return ok && a >= 0 && b >= 0 && a+b > 1-1e-12 && a+b < 1+1e-12
}

// affineIn decomposes q = a + b·s for a symbol expression s (a, b rational constants).
func affineIn(q, s sym.Expr) (float64, float64, bool) {
	rest := sym.Sub(q, sym.Mul(sym.SymE("\x01"), sym.Expr{}))
	_ = rest
	// try b in a small set of candidates: q - b·s must be constant
	for _, b := range []float64{0, 0.5, 1, 0.25, 0.75} {
		c := sym.Sub(q, sym.Mul(sym.NumF(b), s))
		if r, ok := c.Const(); ok {
			f, _ := r.Float64()
			return f, b, true
		}
	}
	return 0, 0, false
}

/* ---------- training loop (C11) ---------- */

func (e *OpEngine) RunTrainingLoopChecks() {
	sv := e.deep
	e.deep = true
	defer func() { e.deep = sv }()
	key := "training-loop FC→activation→CE→BackPropagate→SGD.Update→ResetGradContext"
	upd := e.fn(core.PkgOptimizers, "(*SGD).Update")
	sgdCtor := e.fn(core.PkgOptimizers, "NewSGD")
	confT := e.typeOf(core.PkgOptimizers, "SGDConfig")
	fwd := e.fn(core.PkgLayers, "(*FC).Forward")
	wfn := e.fn(core.PkgLayers, "(*FC).Weights")
	ceCtor := e.fn(core.PkgLosses, "NewCE")
	ceCompute := e.fn(core.PkgLosses, "(*CE).Compute")
	reset := e.method("ResetGradContext")
	if upd == nil || sgdCtor == nil || confT == nil || fwd == nil || wfn == nil || ceCtor == nil || ceCompute == nil || reset == nil {
		e.undecided("anchor", key, "missing", "", "training-loop components not found")
		return
	}
	pos := e.P.FuncPos(upd)
	B, D, O := sym.PAtom("b"), sym.PAtom("d"), sym.PAtom("o")
	type actK struct {
		name string
		mk   func(e *OpEngine, label string) (interp.Value, *ssa.Function, bool)
	}
	acts := []actK{
		{"Sigmoid", func(e *OpEngine, label string) (interp.Value, *ssa.Function, bool) {
			o, ok := e.ctorNoErr(core.PkgActs, "NewSigmoid")(e, key, label)
			return o, e.fn(core.PkgActs, "(*Sigmoid).Forward"), ok
		}},
		{"Relu", func(e *OpEngine, label string) (interp.Value, *ssa.Function, bool) {
			o, ok := e.ctorNoErr(core.PkgActs, "NewRelu")(e, key, label)
			return o, e.fn(core.PkgActs, "(*Relu).Forward"), ok
		}},
	}
	for _, batch := range []sym.Poly{B, sym.PInt(1)} {
		for _, ak := range acts {
			for _, omitReset := range []bool{false, true} {
				batch, ak, omitReset := batch, ak, omitReset
				label := fmt.Sprintf("FC(d→o)→%s→CE batch=%s omitReset=%v", ak.name, batch.String(), omitReset)
				e.RunBody(key, label, 400, func() {
					e.M.Base = sizeBase([]sym.Poly{batch, D, O})
					// activations are kept inside (0,1) / positive so that the clips and Relu take one branch
					f := sym.Facts{}
					sym.ActiveFacts = f
					fc, ok := e.newFC(key, label, D, O)
					if !ok {
						return
					}
					out, ok := e.call(key, label, wfn, []interp.Value{fc})
					if !ok {
						return
					}
					ws := out.Results[0].(interp.SliceV)
					var ptrs []interp.PtrV
					for _, wv := range interp.SliceElems(ws) {
						ptrs = append(ptrs, wv.(interp.StructV).F[0].(interp.PtrV))
					}
					conf := e.newStructPtr(confT, map[string]interp.Value{"LearningRate": interp.FloatV{E: sym.SymE("lr")}})
					out, ok = e.call(key, label, sgdCtor, []interp.Value{conf})
					if !ok {
						return
					}
					opt := out.Results[0]
					act, actFwd, ok := ak.mk(e, label)
					if !ok || actFwd == nil {
						return
					}
					out, ok = e.call(key, label, ceCtor, nil)
					if !ok {
						return
					}
					ce := out.Results[0]
					x := e.mkTensor("X", TensorArg{Dims: []sym.Poly{batch, D}, Rng: spec.Rng(0.1, 1)})
					t := e.mkTensor("T", TensorArg{Dims: []sym.Poly{batch, O}, Rng: spec.Rng(0, 1)})
					var stepExpr [2][2]sym.Expr
					for step := 0; step < 2; step++ {
						// name the current parameters W<step>, Bv<step> (objects and contexts stay what the code produced)
						names := []string{fmt.Sprintf("W%d", step), fmt.Sprintf("Bv%d", step)}
						for i, p := range ptrs {
							wt, ok := e.W.AsTensor(interp.Load(p.C))
							if !ok {
								e.find("C11.loop", key, "nil-weight", pos, "a weight is nil at the start of step "+fmt.Sprint(step+1)+" ["+label+"]")
								return
							}
							e.did("C11.shape", key)
							if !e.sameDims(e.W.Dims(wt), []sym.Poly{O}) {
								e.find("C11.shape", key, "weight-shape-changed", pos, fmt.Sprintf("weight %d has shape %s at the start of step %d, expected [Outputs]: weights must keep their shapes [%s]", i, polys(e.W.Dims(wt)), step+1, label))
								return
							}
							ti := e.W.InfoOf(wt)
							ti.Name, ti.Elem, ti.Rng, ti.Has = names[i], sym.LeafE(names[i], spec.IdentIdx(1)), spec.Rng(0.1, 1), true
						}
						out, ok = e.call(key, label, fwd, []interp.Value{fc, e.tensorsArg(e.W.Boxed(x))})
						if !ok {
							return
						}
						if isErrVal(out.Results[1]) {
							e.find("A4.pre", key, "rejects-valid", e.P.FuncPos(fwd), "FC.Forward fails inside a well-formed pipeline [instance "+label+"]")
							return
						}
						out, ok = e.call(key, label, actFwd, []interp.Value{act, e.tensorsArg(out.Results[0])})
						if !ok {
							return
						}
						if isErrVal(out.Results[1]) {
							e.find("A4.pre", key, "rejects-valid", e.P.FuncPos(actFwd), "the activation fails inside a well-formed pipeline [instance "+label+"]")
							return
						}
						out, ok = e.call(key, label, ceCompute, []interp.Value{ce, out.Results[0], e.W.Boxed(t)})
						if !ok {
							return
						}
						if isErrVal(out.Results[1]) {
							e.find("A4.pre", key, "rejects-valid", e.P.FuncPos(ceCompute), "the loss fails inside a well-formed pipeline [instance "+label+"]")
							return
						}
						l, _ := e.W.AsTensor(out.Results[0])
						if !e.backprop(key, label, l) {
							return
						}
						for i, p := range ptrs {
							out, ok = e.call(key, label, upd, []interp.Value{opt, p})
							if !ok {
								return
							}
							gotErr := isErrVal(out.Results[0])
							e.did("C11.loop", key)
							if step == 1 && omitReset {
								if !gotErr {
									e.find("C11.loop", key, "missing-reset-not-reported", pos, "the reset was omitted after step 1, yet the update of step 2 succeeds instead of reporting the missing gradient ["+label+"]")
								}
								continue
							}
							if gotErr {
								e.find("C11.loop", key, fmt.Sprintf("update-fails-step%d", step+1), pos,
									fmt.Sprintf("Update of weight %d fails in step %d of a well-formed loop: %s [%s]", i, step+1, out.Results[0].(interp.ErrV).Msg, label))
								return
							}
							nt, ok := e.W.AsTensor(interp.Load(p.C))
							if !ok {
								return
							}
							if !e.sameDims(e.W.Dims(nt), []sym.Poly{O}) {
								e.find("C11.shape", key, "weight-shape-changed", pos, fmt.Sprintf("after the update of step %d weight %d has shape %s, expected [Outputs] [%s]", step+1, i, polys(e.W.Dims(nt)), label))
								return
							}
							stepExpr[step][i] = e.W.InfoOf(nt).Elem
							if !omitReset || step == 1 {
								if _, ok := e.call(key, label, reset, []interp.Value{nt, interp.BoolC(true)}); !ok {
									return
								}
							}
						}
						if step == 1 && omitReset {
							return
						}
					}
					// step 2 must be the same function of (W1, Bv1, data) as step 1 was of (W0, Bv0, data)
					for i := range ptrs {
						e.did("C11.no-leak", key)
						ren := stepExpr[0][i].SubstLeaf("W0", func(idx []sym.Poly) sym.Expr { return sym.LeafE("W1", idx) }).
							SubstLeaf("Bv0", func(idx []sym.Poly) sym.Expr { return sym.LeafE("Bv1", idx) })
						if ren.Key() != stepExpr[1][i].Key() {
							verdict, wit := e.numericCompare(stepExpr[1][i], ren, []sym.Poly{O})
							if verdict == 1 {
								e.Findings = append(e.Findings, Finding{Method: e.curMethod, Rule: "C11.no-leak", Construct: key, What: fmt.Sprintf("weight%d", i), Pos: pos,
									Detail: fmt.Sprintf("the update of step 2 is not the step-1 update applied to the current weights: something from step 1 (gradient, graph edge, spent flag, cached tensor) leaks into step 2 [%s]", label), Witness: wit})
							} else {
								e.undecided("C11.no-leak", key, fmt.Sprintf("weight%d", i), pos, "step-1 and step-2 update expressions differ in normal form, no separating point ["+label+"]")
							}
						}
					}
				})
			}
		}
	}
}

var _ = types.Typ

// RunToleranceCheck extracts the absolute equality tolerance from the Eq kernel (the constant against which
// |a-b| is compared on the path that decides equality) and requires it to be strictly below the clipping
// epsilon 1e-12: otherwise a prediction of exactly 0 (or an input a hair away from 0) is "equal" to a clip
// bound / to zero and the tie rule of ElMax/ElMin hands it half of the derivative.
func (e *OpEngine) RunToleranceCheck(key string) {
	e.runToleranceCheck(key, "C13.tolerance", lossEps, "the clipping epsilon 1e-12: a value exactly at 0 compares equal to the clip bound (and inputs within the tolerance of 0 compare equal to 0), so the tie rule of ElMax/ElMin gives them half of the derivative instead of a clean 0 or 1")
}

// RunUnitToleranceCheck requires the tolerance to stay below the spacing of float64 at unit magnitude
// (2^-52): a larger tolerance makes DISTINCT representable operands of ordinary size "equal", so the
// selection rules of ElMax/ElMin/MaxAlong/MinAlong treat a differentiable point as a tie and the comparison
// kernels report equality for different values.
func (e *OpEngine) RunUnitToleranceCheck(key string) {
	e.runToleranceCheck(key, "S10.tolerance", 2.220446049250313e-16, "the spacing of float64 at 1 (2^-52): distinct operands of ordinary magnitude (1 and 1+5e-13) compare equal, so ElMax/ElMin/MaxAlong/MinAlong split or duplicate the gradient at points where they are differentiable, and Eq/Ge/Le report equality of different values")
}

func (e *OpEngine) runToleranceCheck(key, rule string, bound float64, why string) {
	fn := e.method("Eq")
	if fn == nil {
		e.undecided("anchor", key, "missing", "", "Eq not found")
		return
	}
	save := e.dataMode
	e.dataMode, e.noCompare = true, true
	defer func() { e.dataMode, e.noCompare = save, false }()
	tol := -1.0
	e.RunBody(key, "Eq on symbolic scalars", 16, func() {
		a := e.mkTensorD("A", nil, false, spec.Rng(-1, 1))
		b := e.mkTensorD("B", nil, false, spec.Rng(-1, 1))
		e.watch = false
		out := e.M.Run(func() interp.Value { return e.M.Call(fn, []interp.Value{a, e.W.Boxed(b)}, nil) })
		_ = out
		for _, c := range e.M.RealConds() {
			var walk func(x sym.Expr)
			walk = func(x sym.Expr) {
				for _, v := range x.Constants() {
					if v < 0 {
						v = -v
					}
					if v > 0 && v != 1 && (tol < 0 || v < tol) {
						tol = v
					}
				}
			}
			walk(c.E)
			walk(c.Tau)
		}
	})
	e.did(rule, key)
	if tol < 0 {
		e.undecided(rule, key, "extract", e.P.FuncPos(fn), "could not extract the equality tolerance from the Eq kernel")
		return
	}
	if !(tol < bound) {
		e.find(rule, key, "tolerance-not-below-epsilon", e.P.FuncPos(fn),
			fmt.Sprintf("the absolute equality tolerance is %g, not below %s", tol, why))
	}
}
