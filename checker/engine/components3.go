package engine

import (
	"fmt"
	"go/types"
	"math/big"

	"qverif/core"
	"qverif/interp"
	"qverif/spec"
	"qverif/sym"
)

/* ---------- Input layer (C09) ---------- */

func (e *OpEngine) RunInputLayerChecks() {
	ctor := e.fn(core.PkgLayers, "NewInput")
	fwd := e.fn(core.PkgLayers, "(*Input).Forward")
	key := "layers.(*Input).Forward"
	if ctor == nil || fwd == nil {
		e.undecided("anchor", key, "missing", "", "Input layer not found")
		return
	}
	pos := e.P.FuncPos(fwd)
	d := allAtoms("a", 1)
	for _, c := range []string{"unset SeedFunc, no inputs", "unset SeedFunc, one input", "no inputs"} {
		c := c
		e.RunBody(key, c, 50, func() {
			e.M.Base = sizeBase(d)
			out, ok := e.call(key, c, ctor, nil)
			if !ok {
				return
			}
			obj := out.Results[0]
			var xs interp.Value = e.tensorsArg()
			if c == "unset SeedFunc, one input" {
				xs = e.tensorsArg(e.W.Boxed(e.mkTensor("X", TensorArg{Dims: d})))
			}
			out, ok = e.call(key, c, fwd, []interp.Value{obj, xs})
			if !ok {
				return
			}
			// a freshly constructed Input has no seed function: every call must be an error, never a panic
			e.expectError(key, c, pos, out.Results, "SeedFunc unset / unexpected inputs")
		})
	}
}

/* ---------- initializers (C18, C09) ---------- */

type initDef struct {
	name   string
	conf   string
	fields map[string]interp.Value // valid symbolic configuration
	kind   string                  // RandU | RandN | Full
	a, b   func() sym.Expr         // expected parameters (lower/upper, mean/sigma, value)
	base   []sym.Constraint
	nilOK  bool
	nilA   sym.Expr
	nilB   sym.Expr
	bad    []map[string]interp.Value
}

func fsym(n string) interp.Value { return interp.FloatV{E: sym.SymE(n)} }

func (e *OpEngine) RunInitializerChecks(maxRank int) {
	fi, fo := sym.PAtom("fanIn"), sym.PAtom("fanOut")
	fanBase := []sym.Constraint{sym.CGe(fi, sym.PInt(1)), sym.CGe(fo, sym.PInt(1))}
	sq := func(num int64, den sym.Poly) sym.Expr {
		return sym.FnE("sqrt", sym.Div(sym.NumI(num), sym.PolyE(den)))
	}
	zero := func() sym.Expr { return sym.Expr{} }
	defs := []initDef{
		{name: "Full", conf: "FullConfig", kind: "Full", fields: map[string]interp.Value{"Value": fsym("v")},
			a: func() sym.Expr { return sym.SymE("v") }, nilOK: true, nilA: sym.Expr{}},
		{name: "Uniform", conf: "UniformConfig", kind: "RandU", fields: map[string]interp.Value{"Lower": fsym("lo"), "Upper": fsym("hi")},
			a: func() sym.Expr { return sym.SymE("lo") }, b: func() sym.Expr { return sym.SymE("hi") },
			nilOK: true, nilA: sym.NumF(-0.05), nilB: sym.NumF(0.05),
			bad: []map[string]interp.Value{{"Lower": interp.FloatC(1), "Upper": interp.FloatC(1)}, {"Lower": interp.FloatC(2), "Upper": interp.FloatC(-2)}}},
		{name: "Normal", conf: "NormalConfig", kind: "RandN", fields: map[string]interp.Value{"Mean": fsym("mu"), "StdDev": fsym("sigma")},
			a: func() sym.Expr { return sym.SymE("mu") }, b: func() sym.Expr { return sym.SymE("sigma") },
			nilOK: true, nilA: sym.Expr{}, nilB: sym.NumF(0.05),
			bad: []map[string]interp.Value{{"Mean": interp.FloatC(0), "StdDev": interp.FloatC(0)}, {"Mean": interp.FloatC(0), "StdDev": interp.FloatC(-1)}}},
		{name: "HeUniform", conf: "HeUniformConfig", kind: "RandU", fields: map[string]interp.Value{"FanIn": intV(fi)}, base: fanBase,
			a: func() sym.Expr { return sym.Neg(sq(6, fi)) }, b: func() sym.Expr { return sq(6, fi) },
			bad: []map[string]interp.Value{{"FanIn": intV(sym.PInt(0))}, {"FanIn": intV(sym.PInt(-3))}}},
		{name: "HeNormal", conf: "HeNormalConfig", kind: "RandN", fields: map[string]interp.Value{"FanIn": intV(fi)}, base: fanBase,
			a: zero, b: func() sym.Expr { return sq(2, fi) },
			bad: []map[string]interp.Value{{"FanIn": intV(sym.PInt(0))}}},
		{name: "XavierUniform", conf: "XavierUniformConfig", kind: "RandU", fields: map[string]interp.Value{"FanIn": intV(fi), "FanOut": intV(fo)}, base: fanBase,
			a: func() sym.Expr { return sym.Neg(sq(6, fi.Add(fo))) }, b: func() sym.Expr { return sq(6, fi.Add(fo)) },
			bad: []map[string]interp.Value{{"FanIn": intV(sym.PInt(0)), "FanOut": intV(sym.PInt(1))}, {"FanIn": intV(sym.PInt(1)), "FanOut": intV(sym.PInt(0))}}},
		{name: "XavierNormal", conf: "XavierNormalConfig", kind: "RandN", fields: map[string]interp.Value{"FanIn": intV(fi), "FanOut": intV(fo)}, base: fanBase,
			a: zero, b: func() sym.Expr { return sq(2, fi.Add(fo)) },
			bad: []map[string]interp.Value{{"FanIn": intV(sym.PInt(0)), "FanOut": intV(sym.PInt(1))}, {"FanIn": intV(sym.PInt(2)), "FanOut": intV(sym.PInt(-1))}}},
	}
	for _, d := range defs {
		d := d
		ctor := e.fn(core.PkgInits, "New"+d.name)
		initf := e.fn(core.PkgInits, "(*"+d.name+").Init")
		confT := e.typeOf(core.PkgInits, d.conf)
		key := "initializers.(*" + d.name + ").Init"
		if ctor == nil || initf == nil || confT == nil {
			e.undecided("anchor", key, "missing", "", "initializer not found")
			continue
		}
		pos := e.P.FuncPos(initf)
		type variant struct {
			label string
			conf  func() interp.Value
			a, b  sym.Expr
		}
		var bexp sym.Expr
		if d.b != nil {
			bexp = d.b()
		}
		variants := []variant{{"symbolic config", func() interp.Value { return e.newStructPtr(confT, d.fields) }, d.a(), bexp}}
		if d.nilOK {
			variants = append(variants, variant{"nil config", func() interp.Value { return interp.NilV{} }, d.nilA, d.nilB})
		}
		for _, v := range variants {
			for r := 0; r <= maxRank; r++ {
				v, r := v, r
				shape := allAtoms("s", r)
				label := fmt.Sprintf("%s %s shape=%s", d.name, v.label, shapeStr(shape))
				e.RunBody(key, label, 600, func() {
					e.M.Base = append(sizeBase(shape), d.base...)
					cv := v.conf()
					out, ok := e.call(key, label, ctor, []interp.Value{cv})
					if !ok {
						return
					}
					e.poisonConfig(cv) // the caller changes / reuses its config afterwards
					obj := out.Results[0]
					if len(out.Results) == 2 {
						if isErrVal(out.Results[1]) {
							// symbolic parameters may be invalid on this path (lo >= hi, sigma <= 0): nothing to check
							return
						}
					}
					e.nodes = nil
					out, ok = e.call(key, label, initf, []interp.Value{obj, e.intsArg(shape)})
					if !ok {
						return
					}
					t, ok := e.checkTensorResult(key, label, pos, out.Results, Expect{Dims: shape})
					if !ok {
						return
					}
					e.did("C18.tracked", key)
					if gs, ok := e.readGctx(t); !ok || !gs.tracked || gs.dirty {
						e.find("C18.tracked", key, "untracked", pos, "the initialised tensor is not a tracked leaf ["+label+"]")
					}
					// parameters that reached the device constructor
					e.did("S9b.plumbing", key)
					var node *Node
					for _, n := range e.nodes {
						if n.Method == d.kind {
							node = n
						}
					}
					if node == nil {
						e.find("S9b.plumbing", key, "constructor", pos, fmt.Sprintf("Init does not build its tensor with %s [%s]", d.kind, label))
						return
					}
					cmp := func(what string, got interp.Value, want sym.Expr) {
						g, ok := got.(interp.FloatV)
						if !ok {
							return
						}
						ge, we := g.E, want
						if !e.sameExpr(ge, we, nil) {
							verdict, wit := e.numericCompare(ge, we, nil)
							if verdict == 1 {
								e.Findings = append(e.Findings, Finding{Method: e.curMethod, Rule: "S9b.plumbing", Construct: key, What: what, Pos: pos,
									Detail: fmt.Sprintf("%s reaching %s is %s, defined %s [%s]", what, d.kind, clip(ge.String()), clip(we.String()), label), Witness: wit})
							} else {
								e.undecided("S9b.plumbing", key, what, pos, fmt.Sprintf("%s: normal forms differ, no separating point: got %s want %s", what, clip(ge.String()), clip(we.String())))
							}
						}
					}
					switch d.kind {
					case "Full":
						cmp("value", node.Args[1], v.a)
					case "RandU":
						cmp("lower-bound", node.Args[1], v.a)
						cmp("upper-bound", node.Args[2], v.b)
					case "RandN":
						cmp("mean", node.Args[1], v.a)
						cmp("std-dev", node.Args[2], v.b)
					}
				})
			}
		}
		// invalid configurations are rejected by the constructor; invalid shapes by Init
		for i, bf := range d.bad {
			bf := bf
			label := fmt.Sprintf("New%s invalid config #%d", d.name, i)
			e.RunBody("initializers.New"+d.name, label, 50, func() {
				out, ok := e.call("initializers.New"+d.name, label, ctor, []interp.Value{e.newStructPtr(confT, bf)})
				if !ok {
					return
				}
				e.expectError("initializers.New"+d.name, label, e.P.FuncPos(ctor), out.Results, "invalid configuration")
			})
		}
		if !d.nilOK {
			label := "New" + d.name + " nil config"
			e.RunBody("initializers.New"+d.name, label, 50, func() {
				out, ok := e.call("initializers.New"+d.name, label, ctor, []interp.Value{interp.NilV{}})
				if !ok {
					return
				}
				e.expectError("initializers.New"+d.name, label, e.P.FuncPos(ctor), out.Results, "nil configuration")
			})
		}
		for _, bs := range [][]sym.Poly{{sym.PInt(0)}, {sym.PInt(2), sym.PInt(-1)}} {
			bs := bs
			label := fmt.Sprintf("%s Init shape=%s", d.name, shapeStr(bs))
			e.RunBody(key, label, 100, func() {
				e.M.Base = d.base
				conf := d.fields
				if d.kind == "RandU" && d.name == "Uniform" {
					conf = map[string]interp.Value{"Lower": interp.FloatC(-1), "Upper": interp.FloatC(1)}
				}
				if d.name == "Normal" {
					conf = map[string]interp.Value{"Mean": interp.FloatC(0), "StdDev": interp.FloatC(1)}
				}
				out, ok := e.call(key, label, ctor, []interp.Value{e.newStructPtr(confT, conf)})
				if !ok {
					return
				}
				out, ok = e.call(key, label, initf, []interp.Value{out.Results[0], e.intsArg(bs)})
				if !ok {
					return
				}
				e.expectError(key, label, pos, out.Results, "non-positive dimension")
			})
		}
	}
}

/* ---------- random draws (C18): one fresh draw per element, parameters in order ---------- */

// RunRandomDrawChecks interprets RandU / RandN completely on small concrete shapes: every element must be a
// distinct fresh draw from the distribution built with (Min=l, Max=u) resp. (Mu=mean, Sigma=s), with no
// explicit random source.
func (e *OpEngine) RunRandomDrawChecks() {
	save := e.dataMode
	e.dataMode = true
	defer func() { e.dataMode = save }()
	for _, kind := range []string{"RandU", "RandN"} {
		fn := e.fn(core.PkgCPU, kind)
		key := "cputensor." + kind
		if fn == nil {
			e.undecided("anchor", key, "missing", "", "constructor not found")
			continue
		}
		drawShapes := [][]int{{}, {3}, {2, 3}, {2, 1, 2}}
		// look-ahead buffers / blocked sampling: element counts just beyond every size constant of the implementation
		// (a cursor that wraps, a block that is not refilled) - none on a tree without such constants
		for _, c := range e.SizeThresholds() {
			drawShapes = append(drawShapes, []int{c + 1})
			if c <= 512 {
				drawShapes = append(drawShapes, []int{2, c + 1}, []int{2*c + 1})
			}
		}
		for _, d := range drawShapes {
			for rep := 0; rep < 1; rep++ {
				d := d
				label := fmt.Sprintf("%s %s", kind, dimsLabel(d))
				e.RunBody(key, label, 50, func() {
					p1, p2 := "lo", "hi"
					if kind == "RandN" {
						p1, p2 = "mu", "sigma"
					}
					e.draws = nil
					out, ok := e.call(key, label, fn, []interp.Value{e.cInts(d), fsym(p1), fsym(p2), interp.BoolC(true)})
					if !ok {
						return
					}
					if isErrVal(out.Results[1]) {
						return // invalid parameter path (lo >= hi / sigma <= 0)
					}
					t, ok := e.W.AsTensor(out.Results[0])
					if !ok {
						return
					}
					n := 1
					for _, x := range d {
						n *= x
					}
					e.did("S9c.draws", key)
					elems, msg := e.readData(t, d)
					if msg != "" {
						e.find("S9c.draws", key, "representation", e.P.FuncPos(fn), msg)
						return
					}
					seen := map[string]bool{}
					for pos, ex := range elems {
						k := ex.Key()
						if seen[k] {
							e.find("S9c.draws", key, "repeated-draw", e.P.FuncPos(fn), fmt.Sprintf("two elements hold the same draw %s (position %s): elements are not independent fresh draws [%s]", k, pos, label))
							return
						}
						seen[k] = true
						if !isDrawSymbol(ex) {
							e.find("S9c.draws", key, "not-a-plain-draw", e.P.FuncPos(fn), fmt.Sprintf("element at %s is %s, not a plain draw from the distribution [%s]", pos, clip(k), label))
							return
						}
					}
					if len(e.draws) != n {
						e.find("S9c.draws", key, "draw-count", e.P.FuncPos(fn), fmt.Sprintf("%d draws for %d elements [%s]", len(e.draws), n, label))
					}
					for _, dr := range e.draws {
						if dr.kind != kind || dr.p1.Key() != sym.SymE(p1).Key() || dr.p2.Key() != sym.SymE(p2).Key() {
							e.find("S9b.plumbing", key, "distribution-parameters", e.P.FuncPos(fn),
								fmt.Sprintf("a draw uses %s(%s, %s) instead of (%s, %s) [%s]", dr.kind, dr.p1.Key(), dr.p2.Key(), p1, p2, label))
							return
						}
						if dr.srcSet {
							e.find("S8.rng", key, "explicit-source", e.P.FuncPos(fn), "the distribution is given an explicit random source instead of gonum's locked global one ["+label+"]")
							return
						}
					}
				})
			}
		}
	}
}

type drawRec struct {
	kind   string
	p1, p2 sym.Expr
	srcSet bool
}

func isDrawSymbol(x sym.Expr) bool {
	// a draw is a single symbol with coefficient 1 whose name starts with "draw"
	k := x.Key()
	return len(k) > 4 && k[:4] == "draw" && big.NewRat(1, 1) != nil && !containsAny(k, " +-·")
}

func containsAny(s, chars string) bool {
	for _, c := range chars {
		for _, d := range s {
			if c == d {
				return true
			}
		}
	}
	return false
}

// distuvRand models (distuv.Uniform).Rand / (distuv.Normal).Rand: a fresh symbol per call, recording the
// distribution's parameter fields.
func (e *OpEngine) distuvRand(fnName string, recv interp.Value, t types.Type) (interp.Value, bool) {
	sv, ok := recv.(interp.StructV)
	if !ok {
		return nil, false
	}
	st, ok := t.Underlying().(*types.Struct)
	if !ok {
		return nil, false
	}
	rec := drawRec{}
	get := func(name string) interp.Value {
		for i := 0; i < st.NumFields(); i++ {
			if st.Field(i).Name() == name {
				return sv.F[i]
			}
		}
		return nil
	}
	switch fnName {
	case "Uniform":
		rec.kind = "RandU"
		a, _ := get("Min").(interp.FloatV)
		b, _ := get("Max").(interp.FloatV)
		rec.p1, rec.p2 = a.E, b.E
	case "Normal":
		rec.kind = "RandN"
		a, _ := get("Mu").(interp.FloatV)
		b, _ := get("Sigma").(interp.FloatV)
		rec.p1, rec.p2 = a.E, b.E
	default:
		return nil, false
	}
	if src := get("Src"); src != nil && !interp.IsNil(src) {
		rec.srcSet = true
	}
	e.draws = append(e.draws, rec)
	return interp.FloatV{E: sym.SymE(fmt.Sprintf("draw%d", len(e.draws)))}, true
}

var _ = spec.Top
