package engine

import (
	"fmt"
	"go/types"
	"math"

	"golang.org/x/tools/go/ssa"

	"qverif/core"
	"qverif/interp"
	"qverif/spec"
	"qverif/sym"
)

// Deep switches interface calls on tensors from specification summaries to the real cputensor methods
// (with the summaries kept as shadows), so that gradient contexts and back edges exist and the real
// BackPropagate can be interpreted over graphs built by component code.
func (e *OpEngine) SetDeep(on bool) { e.deep = on }

func (e *OpEngine) typeOf(pkg, name string) types.Type {
	sp := e.P.SSA[pkg]
	if sp == nil {
		return nil
	}
	o := sp.Pkg.Scope().Lookup(name)
	if o == nil {
		return nil
	}
	return o.Type()
}

func (e *OpEngine) fn(pkg, name string) *ssa.Function { return e.P.Func(pkg, name) }

// newStructPtr allocates a struct of the named type and sets the given fields.
// poisonConfig overwrites the numeric fields of a configuration struct the caller still owns: after the
// constructor has returned the caller may reuse or change it, and the object built from it must keep the values it
// was constructed with.
func (e *OpEngine) poisonConfig(v interp.Value) {
	p, ok := v.(interp.PtrV)
	if !ok || p.C == nil || p.C.Fields == nil {
		return
	}
	st, ok := p.C.T.Underlying().(*types.Struct)
	if !ok {
		return
	}
	for i := 0; i < st.NumFields(); i++ {
		switch cur := interp.Load(p.C.Fields[i]).(type) {
		case interp.FloatV:
			interp.Store(p.C.Fields[i], interp.FloatV{E: sym.SymE("changed_after_construction_" + st.Field(i).Name())})
		case interp.IntV:
			interp.Store(p.C.Fields[i], interp.IntV{P: cur.P.AddInt(3)})
		}
	}
}

func (e *OpEngine) newStructPtr(t types.Type, fields map[string]interp.Value) interp.PtrV {
	p := e.M.NewStruct(t, "instance:"+t.String())
	st := t.Underlying().(*types.Struct)
	for i := 0; i < st.NumFields(); i++ {
		if v, ok := fields[st.Field(i).Name()]; ok {
			interp.Store(p.C.Fields[i], v)
		}
	}
	return p
}

func (e *OpEngine) fieldOf(p interp.PtrV, name string) interp.Value {
	st := p.C.T.Underlying().(*types.Struct)
	for i := 0; i < st.NumFields(); i++ {
		if st.Field(i).Name() == name {
			return interp.Load(p.C.Fields[i])
		}
	}
	return nil
}

// RunBody explores every abstract path of body; interpretation failures become undecided findings.
func (e *OpEngine) RunBody(key, label string, maxPaths int, body func()) {
	// loops over a symbolic bound (block / chunk loops over a batch) are unrolled up to 3 iterations: longer
	// paths are abandoned and counted, the explored ones are decided as usual
	saveCut, cuts0, done := e.M.LoopCut, e.M.Cuts, 0
	e.M.LoopCut = 3
	defer func() { e.M.LoopCut = saveCut }()
	_, err := e.M.Explore(maxPaths, func() {
		e.Begin()
		sym.ActiveFacts = nil
		e.curMethod, e.curExpanding = key, false
		defer func() { sym.ActiveFacts = nil }()
		body()
		e.Paths++
		done++
	})
	if err == nil && done == 0 && e.M.Cuts-cuts0 > 0 {
		err = fmt.Errorf("loop whose bound is a symbolic integer: every path iterates it more than 3 times")
	}
	if err != nil {
		// same fallback as for operation instances: decide on concrete sizes
		err = e.concreteFallback(err, func() error {
			_, err2 := e.M.Explore(maxPaths, func() {
				e.Begin()
				sym.ActiveFacts = nil
				e.curMethod, e.curExpanding = key, false
				defer func() { sym.ActiveFacts = nil }()
				body()
				e.Paths++
				done++
			})
			return err2
		})
	}
	if err != nil {
		e.undecided("interp", key, "unsupported", "", fmt.Sprintf("%v [instance %s]", err, label))
		return
	}
	if cut := e.M.Cuts - cuts0; cut > 0 {
		e.LoopCuts += cut
		if done == 0 {
			e.undecided("interp", key, "loop-bound", "", fmt.Sprintf("every path iterates a loop over a symbolic bound more than 3 times [instance %s]", label))
		}
	}
}

// call runs fn and reports panics/divergence as findings; ok=false in that case.
func (e *OpEngine) call(key, label string, fn *ssa.Function, args []interp.Value) (interp.Outcome, bool) {
	out := e.M.Run(func() interp.Value { return e.M.Call(fn, args, nil) })
	e.did("S6.panic", key)
	switch out.Kind {
	case interp.Panicked:
		e.find("S6.panic", key, "panic:"+panicClass(out.Panic.Msg), e.P.Pos(out.Panic.Pos),
			fmt.Sprintf("public call panics in %s: %s [instance %s]", shortFn(out.Panic.Fn), out.Panic.Msg, label))
		return out, false
	case interp.Diverged:
		e.find("S6.hang", key, "no-termination", e.P.FuncPos(fn), "step budget exhausted [instance "+label+"]")
		return out, false
	}
	return out, true
}

func isErrVal(v interp.Value) bool {
	_, ok := v.(interp.ErrV)
	return ok
}

// expectTensor checks a (Tensor, error) outcome against an expected shape / element / range.
type Expect struct {
	Dims     []sym.Poly
	Elem     sym.Expr
	HasElem  bool
	Finite   bool
	NonNeg   bool
	RuleElem string
}

func (e *OpEngine) checkTensorResult(key, label string, pos string, res []interp.Value, ex Expect) (interp.PtrV, bool) {
	if len(res) != 2 {
		e.undecided("A2.formula", key, "arity", pos, "unexpected result arity")
		return interp.PtrV{}, false
	}
	e.did("A4.pre", key)
	if ev, bad := res[1].(interp.ErrV); bad {
		e.find("A4.pre", key, "rejects-valid", pos, fmt.Sprintf("returns an error (%s) for inputs that satisfy the documented precondition [instance %s]", ev.Msg, label))
		return interp.PtrV{}, false
	}
	t, ok := e.W.AsTensor(res[0])
	if !ok {
		e.find("A4.shape", key, "nil-result", pos, "returns neither a tensor nor an error [instance "+label+"]")
		return interp.PtrV{}, false
	}
	e.did("A1.shape", key)
	if ex.Dims != nil || true {
		if !e.sameDims(e.W.Dims(t), ex.Dims) {
			e.find("A1.shape", key, "result-shape", pos, fmt.Sprintf("result has shape %s, defined shape is %s [instance %s]", polys(e.W.Dims(t)), polys(ex.Dims), label))
			return t, false
		}
	}
	ti := e.W.InfoOf(t)
	if ex.HasElem {
		e.did("A2.formula", key)
		if !ti.Has {
			e.undecided("A2.formula", key, "opaque", pos, "element semantics unknown")
			return t, false
		}
		got, want := unitCanon(ti.Elem, ex.Dims), unitCanon(ex.Elem, ex.Dims)
		if eqs := e.M.SymEqualities(); len(eqs) > 0 {
			got, want = got.SubstSym(eqs), want.SubstSym(eqs)
		}
		if !e.sameExpr(got, want, ex.Dims) {
			verdict, wit := e.numericCompare(got, want, ex.Dims)
			if verdict == 1 {
				e.Findings = append(e.Findings, Finding{Method: e.curMethod, Rule: "A2.formula", Construct: key, What: "value", Pos: pos,
					Detail:  fmt.Sprintf("computes %s but the definition (%s) is %s [instance %s; path %s]", clip(got.String()), ex.RuleElem, clip(want.String()), label, e.M.PathString()),
					Witness: wit})
			} else {
				e.undecided("A2.formula", key, "value", pos, fmt.Sprintf("normal forms differ, no separating point: got %s want %s [instance %s]", clip(got.String()), clip(want.String()), label))
			}
			return t, false
		}
	}
	if ex.Finite {
		e.did("A3.finite", key)
		if !ti.Rng.IsFinite() {
			e.find("A3.finite", key, "non-finite", pos, fmt.Sprintf("result may be non-finite (%s) for finite inputs [instance %s]", ti.Rng.String(), label))
		}
	}
	if ex.NonNeg {
		e.did("A3.sign", key)
		if ti.Rng.Lo < 0 || ti.Rng.NaN {
			e.find("A3.sign", key, "negative", pos, fmt.Sprintf("result may be negative (%s) [instance %s]", ti.Rng.String(), label))
		}
	}
	return t, true
}

// expectError: the call must return a non-nil error (and no tensor).
func (e *OpEngine) expectError(key, label, pos string, res []interp.Value, why string) {
	e.did("A4.pre", key)
	if len(res) == 0 {
		return
	}
	last := res[len(res)-1]
	if !isErrVal(last) {
		e.find("A4.pre", key, "accepts-invalid", pos, fmt.Sprintf("accepts arguments that violate the documented precondition (%s) [instance %s]", why, label))
		return
	}
	if len(res) == 2 && !interp.IsNil(res[0]) {
		if _, isPtr := res[0].(interp.PtrV); isPtr || isIface(res[0]) {
			e.find("A4.pre", key, "error-with-result", pos, fmt.Sprintf("returns an error together with a non-nil result (%s) [instance %s]", why, label))
		}
	}
}

/* ---------- losses (C12) ---------- */

const lossEps = 1e-12

func clipE(x sym.Expr, lo, hi float64) sym.Expr {
	return sym.FnE("max", sym.NumF(lo), sym.FnE("min", x, sym.NumF(hi)))
}

// LossFormula is the defining scalar of each loss over prediction leaf P and target leaf T.
func LossFormula(name string, dims []sym.Poly) sym.Expr {
	switch name {
	case "MSE":
		v := sym.FreshVar()
		p := sym.LeafE("P", []sym.Poly{sym.PAtom(v)})
		t := sym.LeafE("T", []sym.Poly{sym.PAtom(v)})
		return sym.Div(sym.Sigma(v, dims[0], sym.PowInt(sym.Sub(p, t), 2)), sym.PolyE(dims[0]))
	case "BCE":
		v := sym.FreshVar()
		p := clipE(sym.LeafE("P", []sym.Poly{sym.PAtom(v)}), lossEps, 1-lossEps)
		t := clipE(sym.LeafE("T", []sym.Poly{sym.PAtom(v)}), 0, 1)
		body := sym.Neg(sym.Add(sym.Mul(t, sym.FnE("log", p)), sym.Mul(sym.Sub(sym.NumI(1), t), sym.FnE("log", sym.Sub(sym.NumI(1), p)))))
		return sym.Div(sym.Sigma(v, dims[0], body), sym.PolyE(dims[0]))
	case "CE":
		v, u := sym.FreshVar(), sym.FreshVar()
		idx := []sym.Poly{sym.PAtom(v), sym.PAtom(u)}
		p := clipE(sym.LeafE("P", idx), lossEps, 1-lossEps)
		t := clipE(sym.LeafE("T", idx), 0, 1)
		inner := sym.Sigma(u, dims[1], sym.Mul(t, sym.FnE("log", p)))
		return sym.Div(sym.Neg(sym.Sigma(v, dims[0], inner)), sym.PolyE(dims[0]))
	}
	return sym.Expr{}
}

func (e *OpEngine) RunLossChecks() {
	for _, name := range []string{"MSE", "BCE", "CE"} {
		ctor := e.fn(core.PkgLosses, "New"+name)
		compute := e.fn(core.PkgLosses, "(*"+name+").Compute")
		key := "losses.(*" + name + ").Compute"
		if ctor == nil || compute == nil {
			e.undecided("anchor", key, "missing", "", "constructor or Compute not found")
			continue
		}
		pos := e.P.FuncPos(compute)
		rank := 1
		if name == "CE" {
			rank = 2
		}
		// valid instances: each dim 1 or an atom; tracked and untracked inputs
		lossT := e.typeOf(core.PkgLosses, name)
		for _, d := range patterns("n", rank) {
			for ti, tracked := range []bool{false, true, false} {
				// the third variant uses the ZERO VALUE of the exported type (`new(losses.X)`, `var l losses.X`) instead of
				// the constructor: the type carries no configuration, so both must be the same loss
				zeroValue := ti == 2
				if zeroValue && lossT == nil {
					continue
				}
				label := fmt.Sprintf("%s p,t=%s tracked=%v", name, shapeStr(d), tracked)
				if zeroValue {
					label += " zero-value receiver"
				}
				e.RunBody(key, label, 200, func() {
					e.M.Base = sizeBase(d)
					var recv interp.Value
					if zeroValue {
						recv = e.M.NewStruct(lossT, "zero-value:"+name)
					} else {
						out, ok := e.call(key, label, ctor, nil)
						if !ok {
							return
						}
						recv = out.Results[0]
					}
					var out interp.Outcome
					var ok bool
					p := e.mkTensor("P", TensorArg{Dims: d, Tracked: tracked, Rng: spec.Rng(-1e6, 1e6)})
					t := e.mkTensor("T", TensorArg{Dims: d, Rng: spec.Rng(-1e6, 1e6)})
					out, ok = e.call(key, label, compute, []interp.Value{recv, e.W.Boxed(p), e.W.Boxed(t)})
					if !ok {
						return
					}
					e.checkTensorResult(key, label, pos, out.Results, Expect{Dims: []sym.Poly{}, Elem: LossFormula(name, d), HasElem: true, Finite: true, NonNeg: true,
						RuleElem: name + " definition with clipping"})
				})
			}
		}
		// invalid instances
		type bad struct {
			label  string
			build  func() (interp.Value, interp.Value)
			skipIf func() bool
		}
		mk := func(nm string, d []sym.Poly) interp.Value { return e.W.Boxed(e.mkTensor(nm, TensorArg{Dims: d})) }
		good := allAtoms("n", rank)
		var bads []bad
		bads = append(bads,
			bad{"nil prediction", func() (interp.Value, interp.Value) { return interp.NilV{}, mk("T", good) }, nil},
			bad{"nil target", func() (interp.Value, interp.Value) { return mk("P", good), interp.NilV{} }, nil},
			bad{"rank too small", func() (interp.Value, interp.Value) { return mk("P", good[:rank-1]), mk("T", good[:rank-1]) }, nil},
			bad{"rank too large", func() (interp.Value, interp.Value) {
				g := append(append([]sym.Poly{}, good...), sym.PAtom("z"))
				return mk("P", g), mk("T", g)
			}, nil},
			bad{"rank mismatch", func() (interp.Value, interp.Value) {
				return mk("P", good), mk("T", append(append([]sym.Poly{}, good...), sym.PAtom("z")))
			}, nil},
		)
		// rank deviations by unit dimensions (a column of predictions [n,1] against targets [n]): accepted, they
		// would broadcast to [n,n] silently
		one := sym.PInt(1)
		withUnit := func(trailing bool) []sym.Poly {
			if trailing {
				return append(append([]sym.Poly{}, good...), one)
			}
			return append([]sym.Poly{one}, good...)
		}
		for _, trailing := range []bool{true, false} {
			trailing := trailing
			side := map[bool]string{true: "trailing", false: "leading"}[trailing]
			bads = append(bads,
				bad{"prediction with a " + side + " unit dimension", func() (interp.Value, interp.Value) { return mk("P", withUnit(trailing)), mk("T", good) }, nil},
				bad{"target with a " + side + " unit dimension", func() (interp.Value, interp.Value) { return mk("P", good), mk("T", withUnit(trailing)) }, nil},
				bad{"both with a " + side + " unit dimension", func() (interp.Value, interp.Value) { return mk("P", withUnit(trailing)), mk("T", withUnit(trailing)) }, nil},
			)
		}
		for k := 0; k < rank; k++ {
			k := k
			bads = append(bads, bad{fmt.Sprintf("size mismatch at dim %d", k), func() (interp.Value, interp.Value) {
				g2 := append([]sym.Poly{}, good...)
				g2[k] = sym.PAtom("other")
				return mk("P", good), mk("T", g2)
			}, func() bool { return e.M.Entailed(sym.IntCond(sym.CEq(sym.PAtom("other"), good[k]))) }})
		}
		for _, b := range bads {
			label := name + " " + b.label
			e.RunBody(key, label, 200, func() {
				e.M.Base = append(sizeBase(good), sym.CGe(sym.PAtom("z"), sym.PInt(2)), sym.CGe(sym.PAtom("other"), sym.PInt(2)))
				out, ok := e.call(key, label, ctor, nil)
				if !ok {
					return
				}
				recv := out.Results[0]
				p, t := b.build()
				out, ok = e.call(key, label, compute, []interp.Value{recv, p, t})
				if !ok {
					return
				}
				// with distinct atoms a size "mismatch" may still coincide: only the path where they differ must fail
				if b.skipIf != nil && b.skipIf() {
					return
				}
				e.expectError(key, label, pos, out.Results, b.label)
			})
		}
	}
}

var _ = math.Inf

func isIface(v interp.Value) bool {
	_, ok := v.(interp.IfaceV)
	return ok
}
