// Package engine drives the abstract interpreter over the public tensor operations: for one forward call
// instance (ranks, unit/non-unit pattern of every dimension, symbolic integer arguments, tracking flags) it
// interprets the real public method of cputensor — validators, dims helpers, gradient-context attachment —
// compares error-ness and result shape with the specification, then evaluates every backward closure the
// method wired and compares its result with the operation's vector-Jacobian product.
package engine

import (
	"fmt"
	"go/token"
	"go/types"
	"sort"
	"strings"

	"golang.org/x/tools/go/ssa"

	"qverif/core"
	"qverif/interp"
	"qverif/spec"
	"qverif/sym"
)

// Node records one (possibly nested) call of a public cputensor operation during an interpreted run.
type Node struct {
	Method  string
	Fn      *ssa.Function
	Recv    interp.PtrV // zero for package-level functions
	HasRecv bool
	Args    []interp.Value // non-receiver arguments
	Result  interp.PtrV
	OK      bool
	// SpecRejected: the implementation accepted a call the specification rejects (reported as A4.pre); the
	// result is still kept so that its backward rules can be run ("an accepted forward call never makes
	// back-propagation fail")
	SpecRejected bool
}

// Finding is a disagreement found on one abstract path.
type Finding struct {
	Method    string // top-level public operation of the instance
	Expanding bool   // the instance needs implicit expansion of an operand
	Rule      string
	Construct string
	What      string
	Detail    string
	Witness   string
	Pos       string
	Undecided bool
}

type OpEngine struct {
	P *core.Program
	A *spec.Anchors
	M *interp.Machine
	W *spec.World

	nodes      []*Node
	thresholds *[]int
	// concrete-size fallback of the shape engine (see RunInstance)
	concreteSizes     bool
	atomSize          map[string]int64
	ConcreteFallbacks int
	ProbeResults      bool // labelled instances: results are fed to Scale / Sum probes
	ProbeRuns         int
	NonFinite         bool              // labelled instances with infinite elements are included
	PathBudgetHits    int               // labelled instances whose path enumeration was cut at the budget
	leafAlias         map[string]string // exact-tie cases: elements of tensor key equal those of tensor value
	PiecewiseProofs   int               // comparisons decided by region-wise equality of indicator expressions
	LoopCuts          int               // paths abandoned by bounded loop unrolling
	bypass            *ssa.Function
	Findings          []Finding
	// statistics
	Paths       int
	ClosureRuns int
	ShapeChecks int
	VJPChecks   int
	FinChecks   int
	StateChecks int
	Funcs       map[string]bool
	Closures    map[string]bool

	deep         bool
	draws        []drawRec
	dataMode     bool
	noCompare    bool
	curLabel     string
	ElemChecks   int
	curDims      []sym.Poly
	baseline     int  // cells with id <= baseline existed before the call under analysis
	watch        bool // report stores to pre-existing cells
	curMethod    string
	curExpanding bool
	// gradFnCalls counts applications of backward rules (closures of package gradtrack with the chainGradFunc signature)
	gradFnCalls int
	// AllowStore exempts legitimate writers (set by drivers: the walk's context updates, SGD's pointer, counters)
	AllowStore func(c *interp.Cell, fn *ssa.Function) bool
	// Checked counts the obligations performed, by rule|construct|what
	Checked map[string]int
	// leaf value ranges for the A3 (finiteness) obligations of the current instance, by role
	LeafRng []spec.Ival
	// when set, Rand draws etc. are recorded
	shadowOff bool
}

func NewOpEngine(p *core.Program, a *spec.Anchors) *OpEngine {
	e := &OpEngine{P: p, A: a, Funcs: map[string]bool{}, Closures: map[string]bool{}, Checked: map[string]int{}}
	e.M = interp.NewMachine(p.Prog)
	e.M.Hooks = interp.Hooks{Enter: e.enter, Static: e.static, Invoke: e.invoke, External: e.external}
	sym.PositiveSym = func(name string) bool {
		for _, c := range e.M.Base {
			// c.P = k - atom <= 0 with k >= 1
			if c.Op != sym.LE {
				continue
			}
			if k := c.P.Coef(""); k >= 1 && c.P.Coef(name) == -1 && len(c.P.Monomials()) == 2 {
				return true
			}
		}
		return false
	}
	e.M.OnStore = func(c *interp.Cell, pos token.Pos, fn *ssa.Function) {
		if !e.watch || c.ID > e.baseline {
			return
		}
		fk := "Tensor.ResetGradContext (interface call)"
		if fn != nil {
			fk = core.FuncKey(fn)
		}
		e.did("C10.mutation", fk)
		if e.AllowStore != nil && e.AllowStore(c, fn) {
			return
		}
		e.find("C10.mutation", fk, "writes-existing-object", e.P.Pos(pos),
			fmt.Sprintf("writes memory that existed before the call (%s): operands, caller-owned slices and earlier results are immutable", c.Site))
	}
	return e
}

// pure generic helper packages of the standard library whose bodies are interpreted like module code
var enterStd = map[string]bool{"slices": true, "cmp": true, "maps": true}

func (e *OpEngine) enter(fn *ssa.Function) bool {
	if !core.InModule(fn) {
		if pp := core.PkgPathOf(fn); enterStd[pp] && fn.Blocks != nil {
			return true
		}
		return false
	}
	e.Funcs[core.FuncKey(fn)] = true
	if fn.Parent() != nil && core.PkgPathOf(fn) == core.PkgGrad && len(fn.Params) == 0 && fn.Signature.Results().Len() == 2 {
		e.gradFnCalls++
	}
	return true
}

func isAnyish(t types.Type) bool {
	switch u := t.(type) {
	case *types.Pointer:
		return isAnyish(u.Elem())
	case *types.Slice:
		return isAnyish(u.Elem())
	case *types.Named:
		if s, ok := u.Underlying().(*types.Signature); ok {
			return s.Results().Len() == 1 && isAnyish(s.Results().At(0).Type()) && s.Params().Len() == 0
		}
		if i, ok := u.Underlying().(*types.Interface); ok {
			return i.NumMethods() == 0
		}
		return false
	case *types.Alias:
		return isAnyish(types.Unalias(u))
	case *types.Interface:
		return u.NumMethods() == 0
	case *types.Signature:
		return u.Results().Len() == 1 && isAnyish(u.Results().At(0).Type()) && u.Params().Len() == 0
	}
	return false
}

func isFloat(t types.Type) bool {
	b, ok := t.Underlying().(*types.Basic)
	return ok && b.Info()&types.IsFloat != 0
}

// dataLayer reports whether fn only moves or computes element data (so the shape/graph analysis skips it).
func (e *OpEngine) dataLayer(fn *ssa.Function, args []interp.Value) bool {
	if e.dataMode || core.PkgPathOf(fn) != core.PkgCPU {
		return false
	}
	exported := fn.Parent() == nil && fn.Object() != nil && fn.Object().Exported()
	if exported {
		return false
	}
	sig := fn.Signature
	// only functions whose results can be summarised (nothing, floats, element data, booleans) are skipped
	for i := 0; i < sig.Results().Len(); i++ {
		rt := sig.Results().At(i).Type()
		if isFloat(rt) || isAnyish(rt) {
			continue
		}
		if b, ok := rt.Underlying().(*types.Basic); ok && b.Info()&types.IsBoolean != 0 {
			continue
		}
		return false
	}
	if sig.Recv() != nil && len(args) > 0 && sig.Params().Len() <= 1 {
		// accessors on a tensor whose data is fully known (single-element tensors): interpreted, not summarised
		if rp, ok := e.W.AsTensor(args[0]); ok {
			if _, known := interp.Load(rp.C.Fields[e.A.FData]).(interp.IfaceV); known && sig.Results().Len() == 1 && isAnyish(sig.Results().At(0).Type()) {
				return false
			}
		}
	}
	for i := 0; i < sig.Params().Len(); i++ {
		if isAnyish(sig.Params().At(i).Type()) {
			// enter when the data is structured (TensorOf analysis), skip when it is opaque tensor data
			if i < len(args) {
				off := 0
				if sig.Recv() != nil {
					off = 1
				}
				if off+i < len(args) {
					if _, isIface := args[off+i].(interp.IfaceV); isIface {
						return false
					}
				}
			}
			return true
		}
	}
	if sig.Results().Len() == 1 {
		rt := sig.Results().At(0).Type()
		if isAnyish(rt) && sig.Params().Len() > 0 {
			return true // dataAt-like accessors
		}
		if isFloat(rt) && sig.Recv() != nil {
			return true // whole-tensor folds
		}
	}
	return false
}

func (e *OpEngine) dataLayerResult(fn *ssa.Function) interp.Value {
	sig := fn.Signature
	mk := func(t types.Type) interp.Value {
		switch {
		case isFloat(t):
			return interp.FloatV{E: sym.SymE(e.M.FreshSym("data"))}
		case isAnyish(t):
			return interp.OpaqueV{Why: "element data"}
		}
		if b, ok := t.Underlying().(*types.Basic); ok && b.Info()&types.IsBoolean != 0 {
			return interp.BoolV{C: sym.RealEQ(sym.SymE(e.M.FreshSym("databool")), sym.Expr{})}
		}
		panic(interp.Unsupported{Msg: "data-layer function " + fn.String() + " returns " + t.String()})
	}
	switch sig.Results().Len() {
	case 0:
		return nil
	case 1:
		return mk(sig.Results().At(0).Type())
	}
	vs := make([]interp.Value, sig.Results().Len())
	for i := range vs {
		vs[i] = mk(sig.Results().At(i).Type())
	}
	return interp.TupleV{V: vs}
}

// publicOp reports whether fn is an exported operation of cputensor that yields a tensor.
func (e *OpEngine) publicOp(fn *ssa.Function) (name string, hasRecv bool, ok bool) {
	if core.PkgPathOf(fn) != core.PkgCPU || fn.Parent() != nil || fn.Object() == nil || !fn.Object().Exported() {
		return "", false, false
	}
	sig := fn.Signature
	if sig.Results().Len() == 0 {
		return "", false, false
	}
	if rt := sig.Results().At(0).Type(); !types.Identical(rt, e.A.TensorIface) && !types.Identical(rt, e.A.CPUPtr) {
		return "", false, false // (constructors may return the concrete tensor type)
	}
	if sig.Recv() != nil {
		if !types.Identical(sig.Recv().Type(), e.A.CPUPtr) || fn.Name() == "Gradient" {
			return "", false, false // Gradient is an accessor (nil when there is no gradient), not an operation
		}
		return fn.Name(), true, true
	}
	return fn.Name(), false, true
}

func (e *OpEngine) static(m *interp.Machine, fn *ssa.Function, args []interp.Value) (interp.Value, bool) {
	if fn == e.bypass {
		e.bypass = nil
		return nil, false
	}
	if fn.Blocks == nil {
		return nil, false
	}
	if e.dataLayer(fn, args) {
		e.Funcs[core.FuncKey(fn)+" (data layer: summarised)"] = true
		// a summarised filler leaves its receiver with (opaque) data, not with the nil it started from
		if fn.Signature.Recv() != nil && len(args) > 0 {
			if rp, ok := e.W.AsTensor(args[0]); ok {
				if interp.IsNil(interp.Load(rp.C.Fields[e.A.FData])) {
					interp.Store(rp.C.Fields[e.A.FData], interp.OpaqueV{Why: "element data written by " + fn.Name()})
				}
			}
		}
		// … and the `any` cells it is handed by address hold data afterwards
		for _, a := range args {
			if pv, ok := a.(interp.PtrV); ok && pv.C != nil && pv.C.Fields == nil && pv.C.Elems == nil {
				if cur := interp.Load(pv.C); cur == nil || interp.IsNil(cur) {
					if pv.C.T != nil && isAnyish(pv.C.T) {
						interp.Store(pv.C, interp.OpaqueV{Why: "element data written by " + fn.Name()})
					}
				}
			}
		}
		return e.dataLayerResult(fn), true
	}
	name, hasRecv, ok := e.publicOp(fn)
	if !ok || e.shadowOff {
		return nil, false
	}
	// IMPL
	e.bypass = fn
	res := m.Call(fn, args, nil)
	n := &Node{Method: name, Fn: fn, HasRecv: hasRecv}
	if hasRecv {
		rp, ok := args[0].(interp.PtrV)
		if !ok {
			return res, true
		}
		n.Recv = rp
		n.Args = e.snapshotArgs(args[1:])
	} else {
		n.Args = e.snapshotArgs(args)
	}
	implT, implErr := splitResult(res)
	// SPEC (same path: its preconditions are decided by, or refine, the path condition)
	var specRes interp.Value
	var have bool
	if hasRecv {
		specRes, have = e.W.Method(name, n.Recv, n.Args)
	} else {
		specRes, have = e.W.Constructor(name, n.Args)
	}
	if !have {
		e.Findings = append(e.Findings, Finding{Rule: "A4.shape", Construct: "cputensor." + opKey(name, hasRecv), What: "no-spec",
			Detail: "no specification rule for this public operation", Undecided: true, Pos: e.P.FuncPos(fn)})
		return res, true
	}
	specT, specErr := splitResult(specRes)
	e.ShapeChecks++
	key := "cputensor." + opKey(name, hasRecv)
	e.did("A4.pre", key)
	e.did("A4.shape", key)
	e.did("S1a.gctx", key)
	if implErr && !interp.IsNil(implT) {
		e.find("A4.pre", key, "error-with-result", e.P.FuncPos(fn), "returns an error together with a non-nil result ("+e.describeCall(n)+")")
	}
	switch {
	case implErr && specErr:
	case implErr && !specErr:
		e.find("A4.pre", key, "rejects-valid", e.P.FuncPos(fn),
			fmt.Sprintf("returns an error although the documented precondition holds (%s)", e.describeCall(n)))
	case !implErr && specErr:
		note := ""
		if len(e.W.ErrNotes) > 0 {
			note = e.W.ErrNotes[len(e.W.ErrNotes)-1]
		}
		e.find("A4.pre", key, "accepts-invalid", e.P.FuncPos(fn),
			fmt.Sprintf("accepts arguments that violate the documented precondition [%s] (%s)", note, e.describeCall(n)))
		if ip, ok := e.W.AsTensor(implT); ok {
			ii := e.W.InfoOf(ip)
			ii.Name, ii.Elem, ii.Rng, ii.Has = "Y", sym.LeafE("Y", spec.IdentIdx(len(e.W.Dims(ip)))), spec.Rng(-1e3, 1e3), true
			n.Result, n.OK, n.SpecRejected = ip, true, true
		}
	default:
		ip, ok1 := e.W.AsTensor(implT)
		sp, ok2 := e.W.AsTensor(specT)
		if !ok1 || !ok2 {
			e.find("A4.shape", key, "nil-result", e.P.FuncPos(fn), "returns neither a tensor nor an error")
			break
		}
		n.Result, n.OK = ip, true
		di, ds := e.W.Dims(ip), e.W.Dims(sp)
		if !e.sameDims(di, ds) {
			e.find("A4.shape", key, "result-shape", e.P.FuncPos(fn),
				fmt.Sprintf("result shape %s differs from the defined shape %s (%s)", polys(di), polys(ds), e.describeCall(n)))
		}
		// transfer the abstract content to the object the implementation built
		si := e.W.InfoOf(sp)
		ii := e.W.InfoOf(ip)
		ii.Elem, ii.Rng, ii.Has = si.Elem, si.Rng, true
		if e.dataMode && !e.noCompare && si.Has && name != "RandU" && name != "RandN" {
			e.compareData(key, e.P.FuncPos(fn), ip, si.Elem, e.curLabel+" / "+e.describeCall(n))
		}
		// S1a: no tensor escapes without a gradient context
		if _, ok := e.W.GctxOf(ip); !ok {
			e.find("S1a.gctx", key, "missing-context", e.P.FuncPos(fn), "returns a tensor whose gradient context is nil")
		}
	}
	e.nodes = append(e.nodes, n)
	return res, true
}

// snapshotArgs copies slice arguments at call time: callers may reuse the backing array afterwards
// (broadcastForMatMul rewrites its shape slice between the two Broadcast calls).
func (e *OpEngine) snapshotArgs(args []interp.Value) []interp.Value {
	out := make([]interp.Value, len(args))
	for i, a := range args {
		if s, ok := a.(interp.SliceV); ok && s.Arr != nil {
			et := s.Arr.T.(*types.Array).Elem()
			out[i] = e.M.SliceOf(et, interp.SliceElems(s), "snapshot")
			continue
		}
		out[i] = a
	}
	return out
}

func opKey(name string, hasRecv bool) string {
	if hasRecv {
		return "(*CPUTensor)." + name
	}
	return name
}

func splitResult(v interp.Value) (t interp.Value, isErr bool) {
	switch x := v.(type) {
	case interp.TupleV:
		if len(x.V) == 2 {
			if _, ok := x.V[1].(interp.ErrV); ok {
				return x.V[0], true
			}
			return x.V[0], false
		}
	}
	return v, false
}

// external models math.IsNaN / math.IsInf through the interval domain: a value whose interval is finite is
// neither; otherwise the test forks.
func (e *OpEngine) external(m *interp.Machine, fn *ssa.Function, args []interp.Value) (interp.Value, bool) {
	name := fn.String()
	if fn.Name() == "Rand" && fn.Signature.Recv() != nil && len(args) >= 1 {
		rt := fn.Signature.Recv().Type()
		if n, ok := rt.(*types.Named); ok && n.Obj().Pkg() != nil && n.Obj().Pkg().Path() == "gonum.org/v1/gonum/stat/distuv" {
			return e.distuvRand(n.Obj().Name(), args[0], rt)
		}
	}
	if name != "math.IsNaN" && name != "math.IsInf" {
		return nil, false
	}
	x, ok := args[0].(interp.FloatV)
	if !ok {
		return nil, false
	}
	leaf := func(n string) spec.Ival {
		for _, ti := range e.W.Info {
			if ti.Name == n {
				return ti.Rng
			}
		}
		return spec.Top()
	}
	symr := func(n string) spec.Ival {
		if sym.PositiveSym != nil && sym.PositiveSym(n) {
			return spec.Rng(1, 1e9)
		}
		return spec.Rng(-1e3, 1e3)
	}
	iv := spec.IvalOfExpr(x.E, leaf, symr)
	if name == "math.IsNaN" {
		if !iv.NaN {
			return interp.BoolC(false), true
		}
		return interp.BoolV{C: sym.RealGT(sym.FnE("isnan", x.E), sym.Expr{})}, true
	}
	if iv.IsFinite() {
		return interp.BoolC(false), true
	}
	return interp.BoolV{C: sym.RealGT(sym.FnE("isinf", x.E), sym.Expr{})}, true
}

func (e *OpEngine) invoke(m *interp.Machine, recv interp.Value, method *types.Func, args []interp.Value) (interp.Value, bool) {
	if !e.W.TensorMethod(method) {
		return nil, false
	}
	t, ok := e.W.AsTensor(recv)
	if !ok {
		return nil, false
	}
	if e.deep {
		// the real method (validators, data-layer summary, gradient-context attachment), shadowed by the summary
		if fn := e.M.Prog.LookupMethod(e.A.CPUPtr, method.Pkg(), method.Name()); fn != nil {
			if _, _, isOp := e.publicOp(fn); isOp {
				return m.Call(fn, append([]interp.Value{t}, args...), nil), true
			}
		}
	}
	return e.W.Method(method.Name(), t, args)
}

// did records that an obligation of the given rule was evaluated on the construct (whatever the outcome).
func (e *OpEngine) did(rule, construct string) { e.Checked[rule+"|"+construct]++ }

func (e *OpEngine) find(rule, construct, what, pos, detail string) {
	wit := ""
	if mdl, ok := sym.Model(e.M.PathConstraints(), -2, 6, nil); ok && len(mdl) > 0 {
		wit = sym.ModelString(mdl)
	}
	e.Findings = append(e.Findings, Finding{Method: e.curMethod, Expanding: e.curExpanding, Rule: rule, Construct: construct, What: what, Detail: detail + " — path: " + e.M.PathString(), Witness: wit, Pos: pos})
}

// expanding reports whether the tensor operands of a call differ in the dimensions that take part in
// implicit broadcasting (all of them for element-wise operations, the batch dimensions for MatMul/Dot).
func (e *OpEngine) expanding(method string, args []interp.Value) bool {
	var shapes [][]sym.Poly
	for _, a := range args {
		if t, ok := e.W.AsTensor(a); ok {
			shapes = append(shapes, e.W.Dims(t))
		}
	}
	if len(shapes) < 2 {
		return false
	}
	cut := 0
	switch method {
	case "MatMul":
		cut = 2
	case "Dot":
		cut = 1
	case "Add", "Sub", "Mul", "Div":
	default:
		return false
	}
	a, b := shapes[0], shapes[1]
	if len(a) < cut || len(b) < cut {
		return false
	}
	a, b = a[:len(a)-cut], b[:len(b)-cut]
	if len(a) != len(b) {
		return true
	}
	for i := range a {
		if !a[i].Equal(b[i]) {
			return true
		}
	}
	return false
}

func (e *OpEngine) undecided(rule, construct, what, pos, detail string) {
	e.Findings = append(e.Findings, Finding{Method: e.curMethod, Expanding: e.curExpanding, Rule: rule, Construct: construct, What: what, Detail: detail, Pos: pos, Undecided: true})
}

func (e *OpEngine) sameDims(a, b []sym.Poly) bool {
	if len(a) != len(b) {
		return false
	}
	for i := range a {
		if a[i].Equal(b[i]) {
			continue
		}
		if !e.M.Entailed(sym.IntCond(sym.CEq(a[i], b[i]))) {
			return false
		}
	}
	return true
}

func polys(ps []sym.Poly) string {
	s := make([]string, len(ps))
	for i, p := range ps {
		s[i] = p.String()
	}
	return "[" + strings.Join(s, ",") + "]"
}

func (e *OpEngine) describeCall(n *Node) string {
	var sb strings.Builder
	if n.HasRecv {
		fmt.Fprintf(&sb, "receiver %s", polys(e.W.Dims(n.Recv)))
	}
	for i, a := range n.Args {
		if t, ok := e.W.AsTensor(a); ok {
			fmt.Fprintf(&sb, " arg%d=tensor%s", i, polys(e.W.Dims(t)))
		} else {
			fmt.Fprintf(&sb, " arg%d=%s", i, interp.Describe(a))
		}
	}
	return sb.String()
}

/* ---------- instance plumbing ---------- */

// TensorArg describes one operand tensor of an instance.
type TensorArg struct {
	Dims    []sym.Poly
	Tracked bool
	Dirty   bool
	Rng     spec.Ival
}

func (e *OpEngine) mkTensor(name string, ta TensorArg) interp.PtrV {
	if e.concreteSizes {
		// concrete-size fallback: every size atom becomes 2 or 3 (the same atom always the same value)
		dims := make([]sym.Poly, len(ta.Dims))
		conc := make([]int, len(ta.Dims))
		ok := true
		for i, d := range ta.Dims {
			m := map[string]sym.Poly{}
			for _, a := range d.Atoms() {
				v, has := e.atomSize[a]
				if !has {
					v = 2 + int64(len(e.atomSize)%2)
					e.atomSize[a] = v
				}
				m[a] = sym.PInt(v)
			}
			dims[i] = d.Subst(m)
			c, isC := dims[i].Const()
			if !isC || c < 1 || c > 6 {
				ok = false
			}
			conc[i] = int(c)
		}
		if ok {
			ta.Dims = dims
			t := e.mkTensorPlain(name, ta)
			if e.dataMode {
				interp.Store(t.C.Fields[e.A.FData], e.labelledData(name, conc, nil))
			}
			return t
		}
	}
	return e.mkTensorPlain(name, ta)
}

func (e *OpEngine) mkTensorPlain(name string, ta TensorArg) interp.PtrV {
	g := e.W.NewGradContext(ta.Tracked, ta.Dirty, nil)
	if ta.Tracked {
		// give tracked operands a (harmless) back-edge list so that "no edges" on results is meaningful
		interp.Store(g.C.Fields[e.A.GBackEdges], interp.SliceV{})
	}
	rng := ta.Rng
	if rng == (spec.Ival{}) {
		rng = spec.Rng(-1e6, 1e6)
	}
	return e.W.LeafTensor(name, ta.Dims, rng, g)
}

// Begin prepares a fresh world for one abstract path.
func (e *OpEngine) Begin() {
	e.W = spec.NewWorld(e.P, e.A, e.M)
	e.nodes = nil
	e.bypass = nil
}

func sortedKeys(m map[string]bool) []string {
	out := make([]string, 0, len(m))
	for k := range m {
		out = append(out, k)
	}
	sort.Strings(out)
	return out
}
