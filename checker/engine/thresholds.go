package engine

import (
	"go/constant"
	"go/token"
	"go/types"
	"qverif/spec"
	"sort"
	"strings"

	"golang.org/x/tools/go/ssa"

	"qverif/core"
)

// SizeThresholds harvests the integer constants of the tensor implementation that are compared with, divide,
// or take the remainder of a non-constant integer (block sizes, unrolling factors, chunk limits).  The
// labelled-element enumeration adds sizes that straddle each of them, so that code which only changes
// behaviour beyond a fixed size is interpreted on both sides of that size.  (On a tree without such
// constants the list is empty and nothing is added.)
func (e *OpEngine) SizeThresholds() []int {
	if e.thresholds != nil {
		return *e.thresholds
	}
	set := map[int]bool{}
	for _, fn := range e.P.ModuleFunctions() {
		pk := core.PkgPathOf(fn)
		if !strings.HasPrefix(pk, core.PkgCPU) && !strings.HasPrefix(pk, core.PkgGrad) {
			continue
		}
		for _, b := range fn.Blocks {
			for _, in := range b.Instrs {
				switch x := in.(type) {
				case *ssa.BinOp:
					switch x.Op {
					case token.LSS, token.LEQ, token.GTR, token.GEQ, token.EQL, token.NEQ, token.REM, token.QUO:
					default:
						continue
					}
					for i, op := range []ssa.Value{x.X, x.Y} {
						c, ok := op.(*ssa.Const)
						other := x.Y
						if i == 1 {
							other = x.X
						}
						if _, oc := other.(*ssa.Const); !ok || oc || c.Value == nil || c.Value.Kind() != constant.Int {
							continue
						}
						if v, exact := constant.Int64Val(c.Value); exact && v >= 4 && v <= 40 {
							set[int(v)] = true
						}
					}
				case *ssa.MakeSlice:
					if c, ok := x.Len.(*ssa.Const); ok && c.Value != nil && c.Value.Kind() == constant.Int {
						if v, exact := constant.Int64Val(c.Value); exact && v >= 4 && v <= 40 {
							set[int(v)] = true
						}
					}
				}
			}
		}
	}
	out := []int{}
	for v := range set {
		out = append(out, v)
	}
	sort.Ints(out)
	if len(out) > 3 {
		out = out[:3]
	}
	e.thresholds = &out
	return out
}

// thresholdShapes gives, for every harvested constant c, shapes whose sizes lie just beyond c.
func (e *OpEngine) thresholdShapes(minRank int) [][]int {
	var out [][]int
	for _, c := range e.SizeThresholds() {
		if minRank <= 1 {
			out = append(out, []int{c + 1})
		}
		out = append(out, []int{2, c + 1}, []int{c + 1, 2})
	}
	return out
}

// TensorMethodsInvokedBy lists the Tensor interface methods invoked (interface-mode call sites, resolved by
// receiver type) from the functions of one package, plus the package-tensor constructors it calls mapped to
// their cputensor names.
func TensorMethodsInvokedBy(p *core.Program, a *spec.Anchors, pkg string) []string {
	set := map[string]bool{}
	for _, fn := range p.ModuleFunctions(pkg) {
		var visit func(f *ssa.Function)
		visit = func(f *ssa.Function) {
			for _, b := range f.Blocks {
				for _, in := range b.Instrs {
					if mc, ok := in.(*ssa.MakeClosure); ok {
						if inner, ok := mc.Fn.(*ssa.Function); ok {
							visit(inner)
						}
					}
					ci, ok := in.(ssa.CallInstruction)
					if !ok {
						continue
					}
					cc := ci.Common()
					if cc.IsInvoke() {
						if types.Identical(cc.Value.Type(), a.TensorIface) {
							set[cc.Method.Name()] = true
						}
						continue
					}
					if callee := cc.StaticCallee(); callee != nil && core.PkgPathOf(callee) == core.PkgTensor {
						set[callee.Name()] = true
					}
				}
			}
		}
		visit(fn)
	}
	var out []string
	for n := range set {
		out = append(out, n)
	}
	sort.Strings(out)
	return out
}
