package engine

import (
	"go/constant"
	"go/token"
	"go/types"
	"qverif/spec"
	"sort"
	"strings"

	"golang.org/x/tools/go/ssa"

	"qverif/core"
)

// SizeThresholds harvests the integer constants of the tensor implementation that are compared with, divide,
// or take the remainder of a non-constant integer (block sizes, unrolling factors, chunk limits).  The
// labelled-element enumeration adds sizes that straddle each of them, so that code which only changes
// behaviour beyond a fixed size is interpreted on both sides of that size.  (On a tree without such
// constants the list is empty and nothing is added.)
func (e *OpEngine) SizeThresholds() []int {
	if e.thresholds != nil {
		return *e.thresholds
	}
	set := map[int]bool{}
	for _, fn := range e.P.ModuleFunctions() {
		pk := core.PkgPathOf(fn)
		if !strings.HasPrefix(pk, core.PkgCPU) && !strings.HasPrefix(pk, core.PkgGrad) {
			continue
		}
		for _, b := range fn.Blocks {
			for _, in := range b.Instrs {
				switch x := in.(type) {
				case *ssa.BinOp:
					switch x.Op {
					case token.LSS, token.LEQ, token.GTR, token.GEQ, token.EQL, token.NEQ, token.REM, token.QUO:
					case token.ADD, token.SUB, token.MUL:
						// a stride (`p += 4`, `i*4`): an unrolled or blocked loop
					case token.AND, token.AND_NOT, token.SHL, token.SHR:
						// n &^ 3, n & 3, n >> 2: rounding to / remainder of a power-of-two block
						if c, ok := x.Y.(*ssa.Const); ok && c.Value != nil && c.Value.Kind() == constant.Int {
							if _, oc := x.X.(*ssa.Const); !oc {
								if v, exact := constant.Int64Val(c.Value); exact {
									blk := int64(0)
									switch x.Op {
									case token.AND, token.AND_NOT:
										if v >= 3 && (v+1)&v == 0 {
											blk = v + 1
										}
									default:
										if v >= 2 && v <= 13 {
											blk = 1 << uint(v)
										}
									}
									if blk >= 4 && blk <= 8192 {
										set[int(blk)] = true
									}
								}
							}
						}
						continue
					default:
						continue
					}
					for i, op := range []ssa.Value{x.X, x.Y} {
						c, ok := op.(*ssa.Const)
						other := x.Y
						if i == 1 {
							other = x.X
						}
						if _, oc := other.(*ssa.Const); !ok || oc || c.Value == nil || c.Value.Kind() != constant.Int {
							continue
						}
						if v, exact := constant.Int64Val(c.Value); exact && v >= 4 && v <= 8192 {
							set[int(v)] = true
						}
					}
				case *ssa.Call:
					// min(n, 4096) / max(n, 64): a size clamp
					if b, ok := x.Call.Value.(*ssa.Builtin); ok && (b.Name() == "min" || b.Name() == "max") {
						for _, a := range x.Call.Args {
							if c, ok := a.(*ssa.Const); ok && c.Value != nil && c.Value.Kind() == constant.Int {
								if v, exact := constant.Int64Val(c.Value); exact && v >= 4 && v <= 8192 {
									set[int(v)] = true
								}
							}
						}
					}
				case *ssa.MakeSlice:
					if c, ok := x.Len.(*ssa.Const); ok && c.Value != nil && c.Value.Kind() == constant.Int {
						if v, exact := constant.Int64Val(c.Value); exact && v >= 4 && v <= 8192 {
							set[int(v)] = true
						}
					}
				}
			}
		}
	}
	out := []int{}
	for v := range set {
		out = append(out, v)
	}
	sort.Ints(out)
	// at most three small (<= 40) and two large ones
	var small, large, huge []int
	for _, v := range out {
		if v <= 40 && len(small) < 3 {
			small = append(small, v)
		}
		if v > 40 && v <= 512 && len(large) < 2 {
			large = append(large, v)
		}
		if v > 512 && len(huge) < 1 {
			huge = append(huge, v)
		}
	}
	out = append(append(small, large...), huge...)
	e.thresholds = &out
	return out
}

func (e *OpEngine) smallThresholds() []int {
	var out []int
	for _, v := range e.SizeThresholds() {
		if v <= 40 {
			out = append(out, v)
		}
	}
	return out
}

// largeThresholdShapes: shapes beyond the larger constants (41..512), for operations whose element
// expressions stay linear in the operand elements (point-wise kernels, sums, extrema, contractions over a
// unit axis): the outer extent just beyond c with 1 or 2 inner elements, and - for batch counters - a batch
// of c+1 unit matrices.
func (e *OpEngine) largeThresholdShapes() [][]int {
	var out [][]int
	for _, c := range e.SizeThresholds() {
		if c <= 40 || c > 512 {
			continue
		}
		// around the constant and at its first multiple (block loops tend to be wrong exactly there), as flat
		// vectors and with a trailing unit / pair dimension
		out = append(out, []int{c}, []int{c + 1}, []int{c + 1, 1})
		if 2*c <= 700 {
			out = append(out, []int{2 * c})
		}
		if (c+2)*2 <= 700 {
			out = append(out, []int{c + 2, 2})
		}
	}
	return out
}

// thresholdShapes gives, for every harvested constant c, shapes whose sizes lie just beyond c.
func (e *OpEngine) thresholdShapes(minRank int) [][]int {
	var out [][]int
	for _, c := range e.smallThresholds() {
		if minRank <= 1 {
			out = append(out, []int{c + 1})
		}
		out = append(out, []int{2, c + 1}, []int{c + 1, 2})
	}
	return out
}

// TensorMethodsInvokedBy lists the Tensor interface methods invoked (interface-mode call sites, resolved by
// receiver type) from the functions of one package, plus the package-tensor constructors it calls mapped to
// their cputensor names.
func TensorMethodsInvokedBy(p *core.Program, a *spec.Anchors, pkg string, only ...string) []string {
	set := map[string]bool{}
	for _, fn := range p.ModuleFunctions(pkg) {
		if len(only) > 0 {
			keep := false
			for _, o := range only {
				if fn.Name() == o && fn.Parent() == nil {
					keep = true
				}
			}
			if !keep {
				continue
			}
		}
		var visit func(f *ssa.Function)
		visit = func(f *ssa.Function) {
			for _, b := range f.Blocks {
				for _, in := range b.Instrs {
					if mc, ok := in.(*ssa.MakeClosure); ok {
						if inner, ok := mc.Fn.(*ssa.Function); ok {
							visit(inner)
						}
					}
					ci, ok := in.(ssa.CallInstruction)
					if !ok {
						continue
					}
					cc := ci.Common()
					if cc.IsInvoke() {
						if types.Identical(cc.Value.Type(), a.TensorIface) {
							set[cc.Method.Name()] = true
						}
						continue
					}
					if callee := cc.StaticCallee(); callee != nil && core.PkgPathOf(callee) == core.PkgTensor {
						set[callee.Name()] = true
					}
				}
			}
		}
		visit(fn)
	}
	var out []string
	for n := range set {
		out = append(out, n)
	}
	sort.Strings(out)
	return out
}

// hugeThresholds: element-count constants between 513 and 8192 (parallel / blocked paths that only start at
// thousands of elements).  Tensors that large are built from TWO symbols alternating along the flat index, so
// that every result stays a small expression while each of the thousands of positions is still interpreted.
func (e *OpEngine) hugeThresholds() []int {
	var out []int
	for _, v := range e.SizeThresholds() {
		if v > 512 {
			out = append(out, v)
		}
	}
	return out
}
