package engine

import (
	"fmt"
	"go/types"

	"golang.org/x/tools/go/ssa"

	"qverif/core"
	"qverif/interp"
	"qverif/spec"
	"qverif/sym"
)

func (e *OpEngine) tensorsArg(ts ...interp.Value) interp.Value {
	return e.M.SliceOf(e.A.TensorIface, ts, "xs")
}

/* ---------- activations (C14) ---------- */

type actDef struct {
	name   string
	ctor   func(e *OpEngine, key, label string) (interp.Value, bool) // returns the activation object
	elem   func(x sym.Expr, r int, e *OpEngine) sym.Expr
	rng    spec.Ival
	finite bool
	rule   string
}

func (e *OpEngine) ctorNoErr(pkg, name string, args ...interp.Value) func(e *OpEngine, key, label string) (interp.Value, bool) {
	return func(e *OpEngine, key, label string) (interp.Value, bool) {
		fn := e.fn(pkg, name)
		if fn == nil {
			e.undecided("anchor", key, "missing", "", name+" not found")
			return nil, false
		}
		out, ok := e.call(key, label, fn, args)
		if !ok || len(out.Results) == 0 {
			return nil, false
		}
		if len(out.Results) == 2 && isErrVal(out.Results[1]) {
			e.find("A4.pre", key, "rejects-valid", e.P.FuncPos(fn), "constructor rejects a valid configuration [instance "+label+"]")
			return nil, false
		}
		// the caller still owns its configuration and may change or reuse it: the object keeps what it was built with
		for _, a := range args {
			e.poisonConfig(a)
		}
		return out.Results[0], true
	}
}

func (e *OpEngine) RunActivationChecks(maxRank int) {
	mT := e.typeOf(core.PkgActs, "LeakyReluConfig")
	sT := e.typeOf(core.PkgActs, "SoftmaxConfig")
	if mT == nil || sT == nil {
		e.undecided("anchor", "activations", "missing", "", "config types not found")
		return
	}
	xr := spec.Rng(-700, 700)
	defs := []actDef{
		{name: "Relu", ctor: e.ctorNoErr(core.PkgActs, "NewRelu"), rng: xr, finite: true, rule: "max(0,x)",
			elem: func(x sym.Expr, r int, e *OpEngine) sym.Expr { return sym.FnE("max", sym.Expr{}, x) }},
		{name: "Sigmoid", ctor: e.ctorNoErr(core.PkgActs, "NewSigmoid"), rng: xr, finite: true, rule: "1/(1+e^-x)",
			elem: func(x sym.Expr, r int, e *OpEngine) sym.Expr {
				return sym.PowInt(sym.Add(sym.NumI(1), sym.FnE("exp", sym.Neg(x))), -1)
			}},
		{name: "Tanh", ctor: e.ctorNoErr(core.PkgActs, "NewTanh"), rng: xr, finite: true, rule: "tanh x",
			elem: func(x sym.Expr, r int, e *OpEngine) sym.Expr { return sym.FnE("tanh", x) }},
	}
	leaky := func(m sym.Expr) func(x sym.Expr, r int, e *OpEngine) sym.Expr {
		return func(x sym.Expr, r int, e *OpEngine) sym.Expr {
			return sym.Add(sym.FnE("max", sym.Expr{}, x), sym.Mul(m, sym.FnE("min", sym.Expr{}, x)))
		}
	}
	for _, d := range defs {
		e.runActivation(d, maxRank, "", nil)
	}
	// LeakyRelu: symbolic slope, nil config (0.01), and a few constants incl. 0, negative and > 1
	e.runActivation(actDef{name: "LeakyRelu", rng: xr, finite: true, rule: "max(0,x)+m·min(0,x)", elem: leaky(sym.SymE("m")),
		ctor: func(e *OpEngine, key, label string) (interp.Value, bool) {
			conf := e.newStructPtr(mT, map[string]interp.Value{"M": interp.FloatV{E: sym.SymE("m")}})
			obj, ok := e.ctorNoErr(core.PkgActs, "NewLeakyRelu", conf)(e, key, label)
			// the caller reuses its config afterwards: the layer must keep the slope it was built with
			interp.Store(conf.C.Fields[0], interp.FloatV{E: sym.SymE("m_changed_later")})
			return obj, ok
		}}, maxRank, " M=m", nil)
	e.runActivation(actDef{name: "LeakyRelu", rng: xr, finite: true, rule: "max(0,x)+0.01·min(0,x)", elem: leaky(sym.NumF(0.01)),
		ctor: func(e *OpEngine, key, label string) (interp.Value, bool) {
			return e.ctorNoErr(core.PkgActs, "NewLeakyRelu", interp.NilV{})(e, key, label)
		}}, 1, " nil config", nil)
	for _, mv := range []float64{0, -0.5, 1.5, 1} {
		mv := mv
		e.runActivation(actDef{name: "LeakyRelu", rng: xr, finite: true, rule: fmt.Sprintf("max(0,x)+%v·min(0,x)", mv), elem: leaky(sym.NumF(mv)),
			ctor: func(e *OpEngine, key, label string) (interp.Value, bool) {
				conf := e.newStructPtr(mT, map[string]interp.Value{"M": interp.FloatC(mv)})
				return e.ctorNoErr(core.PkgActs, "NewLeakyRelu", conf)(e, key, label)
			}}, 1, fmt.Sprintf(" M=%v", mv), nil)
	}
	// Softmax: every dim < rank, nil config = dim 0; dim >= rank and negative dim rejected
	for dim := 0; dim <= maxRank; dim++ {
		dim := dim
		soft := actDef{name: "Softmax", rng: xr, finite: false, rule: fmt.Sprintf("e^x / Σ_dim%d e^x", dim),
			elem: func(x sym.Expr, r int, e *OpEngine) sym.Expr {
				v := sym.FreshVar()
				s := sym.Sigma(v, e.curDims[dim], sym.FnE("exp", x.SubstIdx(map[string]sym.Poly{spec.IxName(dim): sym.PAtom(v)})))
				return sym.Div(sym.FnE("exp", x), s)
			},
			ctor: func(e *OpEngine, key, label string) (interp.Value, bool) {
				conf := e.newStructPtr(sT, map[string]interp.Value{"Dim": intV(sym.PInt(int64(dim)))})
				obj, ok := e.ctorNoErr(core.PkgActs, "NewSoftmax", conf)(e, key, label)
				// the caller reuses its config afterwards (e.g. for a second layer): this layer keeps its own Dim
				interp.Store(conf.C.Fields[0], intV(sym.PInt(int64((dim+1)%2))))
				return obj, ok
			}}
		e.runActivation(soft, maxRank, fmt.Sprintf(" Dim=%d", dim), &dim)
	}
	e.runActivation(actDef{name: "Softmax", rng: xr, rule: "e^x / Σ_dim0 e^x (nil config)",
		elem: func(x sym.Expr, r int, e *OpEngine) sym.Expr {
			v := sym.FreshVar()
			s := sym.Sigma(v, e.curDims[0], sym.FnE("exp", x.SubstIdx(map[string]sym.Poly{spec.IxName(0): sym.PAtom(v)})))
			return sym.Div(sym.FnE("exp", x), s)
		},
		ctor: func(e *OpEngine, key, label string) (interp.Value, bool) {
			return e.ctorNoErr(core.PkgActs, "NewSoftmax", interp.NilV{})(e, key, label)
		}}, 2, " nil config", new(int))
	// negative Dim is rejected by the constructor
	{
		key := "activations.NewSoftmax"
		fn := e.fn(core.PkgActs, "NewSoftmax")
		for _, dv := range []sym.Poly{sym.PInt(-1), sym.PAtom("dimcfg")} {
			dv := dv
			label := "NewSoftmax Dim=" + dv.String()
			e.RunBody(key, label, 50, func() {
				conf := e.newStructPtr(sT, map[string]interp.Value{"Dim": intV(dv)})
				out, ok := e.call(key, label, fn, []interp.Value{conf})
				if !ok {
					return
				}
				neg := e.M.Entailed(sym.IntCond(sym.CLt(dv, sym.PInt(0))))
				nonneg := e.M.Entailed(sym.IntCond(sym.CGe(dv, sym.PInt(0))))
				e.did("A4.pre", key)
				gotErr := isErrVal(out.Results[1])
				if neg && !gotErr {
					e.find("A4.pre", key, "accepts-invalid", e.P.FuncPos(fn), "accepts a negative Dim [instance "+label+"]")
				}
				if nonneg && gotErr {
					e.find("A4.pre", key, "rejects-valid", e.P.FuncPos(fn), "rejects a non-negative Dim [instance "+label+"]")
				}
			})
		}
	}
}

func (e *OpEngine) runActivation(d actDef, maxRank int, suffix string, softDim *int) {
	fwd := e.fn(core.PkgActs, "(*"+d.name+").Forward")
	key := "activations.(*" + d.name + ").Forward"
	if fwd == nil {
		e.undecided("anchor", key, "missing", "", "Forward not found")
		return
	}
	pos := e.P.FuncPos(fwd)
	for r := 0; r <= maxRank; r++ {
		for _, dims := range shapesFor("a", r, 2) {
			dims := dims
			label := fmt.Sprintf("%s%s x=%s", d.name, suffix, shapeStr(dims))
			e.RunBody(key, label, 300, func() {
				e.M.Base = sizeBase(dims)
				e.curDims = dims
				obj, ok := d.ctor(e, key, label)
				if !ok {
					return
				}
				x := e.mkTensor("X", TensorArg{Dims: dims, Tracked: true, Rng: d.rng})
				out, ok := e.call(key, label, fwd, []interp.Value{obj, e.tensorsArg(e.W.Boxed(x))})
				if !ok {
					return
				}
				if softDim != nil && *softDim >= r {
					e.expectError(key, label, pos, out.Results, "input rank not greater than Dim")
					return
				}
				xe := sym.LeafE("X", spec.IdentIdx(r))
				t, ok := e.checkTensorResult(key, label, pos, out.Results, Expect{Dims: dims, Elem: d.elem(xe, r, e), HasElem: true, Finite: d.finite, RuleElem: d.rule})
				if ok && softDim != nil {
					// sums to one along dim: Σ_dim elem ≡ 1
					e.did("A2.sum-to-one", key)
					v := sym.FreshVar()
					el := e.W.InfoOf(t).Elem
					s := sym.Sigma(v, dims[*softDim], el.SubstIdx(map[string]sym.Poly{spec.IxName(*softDim): sym.PAtom(v)}))
					if !s.IsOne() {
						e.find("A2.sum-to-one", key, "sum", pos, fmt.Sprintf("the sum along Dim is %s, not 1 [instance %s]", clip(s.String()), label))
					}
					e.did("A3.sign", key)
					if rg := e.W.InfoOf(t).Rng; rg.Lo < 0 || rg.NaN {
						e.find("A3.sign", key, "negative", pos, fmt.Sprintf("result may be negative or NaN (%s) for |x| <= 700 [instance %s]", rg.String(), label))
					}
				}
			})
		}
	}
	// invalid input lists
	d1 := allAtoms("a", 2)
	for _, bad := range []struct {
		label string
		build func() interp.Value
	}{
		{"no input", func() interp.Value { return e.tensorsArg() }},
		{"two inputs", func() interp.Value {
			x := e.W.Boxed(e.mkTensor("X", TensorArg{Dims: d1}))
			return e.tensorsArg(x, x)
		}},
		{"nil input", func() interp.Value { return e.tensorsArg(interp.NilV{}) }},
		{"nil slice", func() interp.Value { return interp.SliceV{} }},
	} {
		bad := bad
		label := d.name + suffix + " " + bad.label
		e.RunBody(key, label, 50, func() {
			e.M.Base = sizeBase(d1)
			e.curDims = d1
			obj, ok := d.ctor(e, key, label)
			if !ok {
				return
			}
			out, ok := e.call(key, label, fwd, []interp.Value{obj, bad.build()})
			if !ok {
				return
			}
			e.expectError(key, label, pos, out.Results, bad.label)
		})
	}
}

/* ---------- FC layer (C16 forward, pointers, validation) ---------- */

func (e *OpEngine) fcTypes() (conf types.Type, ok bool) {
	conf = e.typeOf(core.PkgLayers, "FCConfig")
	return conf, conf != nil
}

// newFC builds a layer through the real constructor (default initializers) with symbolic widths.
func (e *OpEngine) newFC(key, label string, inputs, outputs sym.Poly) (interp.PtrV, bool) {
	confT, ok := e.fcTypes()
	ctor := e.fn(core.PkgLayers, "NewFC")
	if !ok || ctor == nil {
		e.undecided("anchor", key, "missing", "", "NewFC / FCConfig not found")
		return interp.PtrV{}, false
	}
	conf := e.newStructPtr(confT, map[string]interp.Value{"Inputs": intV(inputs), "Outputs": intV(outputs)})
	out, ok := e.call(key, label, ctor, []interp.Value{conf})
	if !ok {
		return interp.PtrV{}, false
	}
	e.poisonConfig(conf)
	if isErrVal(out.Results[1]) {
		e.find("A4.pre", "layers.NewFC", "rejects-valid", e.P.FuncPos(ctor), "NewFC rejects a valid configuration [instance "+label+"]")
		return interp.PtrV{}, false
	}
	p, ok := out.Results[0].(interp.PtrV)
	return p, ok
}

func (e *OpEngine) RunFCChecks() {
	fwd := e.fn(core.PkgLayers, "(*FC).Forward")
	wfn := e.fn(core.PkgLayers, "(*FC).Weights")
	key := "layers.(*FC).Forward"
	if fwd == nil || wfn == nil {
		e.undecided("anchor", key, "missing", "", "FC methods not found")
		return
	}
	pos := e.P.FuncPos(fwd)
	one := sym.PInt(1)
	type inst struct{ b, d, o sym.Poly }
	B, D, O := sym.PAtom("b"), sym.PAtom("d"), sym.PAtom("o")
	insts := []inst{{B, D, O}, {one, D, O}, {B, one, O}, {B, D, one}, {one, one, one}, {O, D, O}}
	for _, in := range insts {
		in := in
		label := fmt.Sprintf("FC x=[%s,%s] outputs=%s", in.b, in.d, in.o)
		e.RunBody(key, label, 400, func() {
			e.M.Base = sizeBase([]sym.Poly{in.b, in.d, in.o})
			fc, ok := e.newFC(key, label, in.d, in.o)
			if !ok {
				return
			}
			// live pointers: Weights() must address the very fields Forward reads
			out, ok := e.call("layers.(*FC).Weights", label, wfn, []interp.Value{fc})
			if !ok {
				return
			}
			ws, ok := out.Results[0].(interp.SliceV)
			e.did("S12.live-pointers", "layers.(*FC).Weights")
			if !ok || ws.Len != 2 {
				e.find("S12.live-pointers", "layers.(*FC).Weights", "count", e.P.FuncPos(wfn), "Weights() does not return the two parameters")
				return
			}
			st := fc.C.T.Underlying().(*types.Struct)
			fieldCell := map[string]*interp.Cell{}
			for i := 0; i < st.NumFields(); i++ {
				fieldCell[st.Field(i).Name()] = fc.C.Fields[i]
			}
			names := []string{"Weight", "Bias"}
			var ptrs []interp.PtrV
			for i, wv := range interp.SliceElems(ws) {
				sv := wv.(interp.StructV)
				ptr, isPtr := sv.F[0].(interp.PtrV)
				if !isPtr || ptr.C != fieldCell[names[i]] {
					e.find("S12.live-pointers", "layers.(*FC).Weights", "copy-of-"+names[i], e.P.FuncPos(wfn),
						fmt.Sprintf("Weights()[%d].Value does not point at the layer's %s field: updates through it would not reach Forward", i, names[i]))
					return
				}
				if tb, ok := sv.F[1].(interp.BoolV); !ok || !tb.Known || !tb.Val {
					e.find("S12.live-pointers", "layers.(*FC).Weights", "not-trainable", e.P.FuncPos(wfn), "parameter not marked trainable")
				}
				ptrs = append(ptrs, ptr)
			}
			x := e.mkTensor("X", TensorArg{Dims: []sym.Poly{in.b, in.d}, Tracked: true, Rng: spec.Rng(-10, 10)})
			// a Forward with the initial parameters first (anything cached now must not survive a replacement),
			// then two rounds of replacement through the SAME pointers, each followed by Forward
			if out, ok = e.call(key, label, fwd, []interp.Value{fc, e.tensorsArg(e.W.Boxed(x))}); !ok {
				return
			}
			for round := 1; round <= 2; round++ {
				wn, bn := fmt.Sprintf("W%d", round), fmt.Sprintf("Bv%d", round)
				for i, nm := range []string{wn, bn} {
					leaf := e.mkTensor(nm, TensorArg{Dims: []sym.Poly{in.o}, Tracked: true, Rng: spec.Rng(-10, 10)})
					interp.Store(ptrs[i].C, e.W.Boxed(leaf))
				}
				out, ok = e.call(key, label, fwd, []interp.Value{fc, e.tensorsArg(e.W.Boxed(x))})
				if !ok {
					return
				}
				v := sym.FreshVar()
				want := sym.Add(sym.Mul(sym.LeafE(wn, []sym.Poly{spec.Ix(1)}), sym.Sigma(v, in.d, sym.LeafE("X", []sym.Poly{spec.Ix(0), sym.PAtom(v)}))),
					sym.LeafE(bn, []sym.Poly{spec.Ix(1)}))
				e.checkTensorResult(key, fmt.Sprintf("%s after replacement %d", label, round), pos, out.Results, Expect{Dims: []sym.Poly{in.b, in.o}, Elem: want, HasElem: true, Finite: true,
					RuleElem: "y[b][o] = W[o]·Σ_d x[b][d] + B[o] with the CURRENT parameters"})
			}
		})
	}
	// default initialisation: shapes, tracking, and input validation
	label := "FC defaults"
	e.RunBody("layers.NewFC", label, 400, func() {
		e.M.Base = sizeBase([]sym.Poly{D, O})
		fc, ok := e.newFC("layers.NewFC", label, D, O)
		if !ok {
			return
		}
		st := fc.C.T.Underlying().(*types.Struct)
		for i := 0; i < st.NumFields(); i++ {
			nm := st.Field(i).Name()
			if nm != "Weight" && nm != "Bias" {
				continue
			}
			e.did("A1.shape", "layers.NewFC")
			t, ok := e.W.AsTensor(interp.Load(fc.C.Fields[i]))
			if !ok {
				e.find("A1.shape", "layers.NewFC", "nil-"+nm, "", "parameter "+nm+" is nil after NewFC")
				continue
			}
			if !e.sameDims(e.W.Dims(t), []sym.Poly{O}) {
				e.find("A1.shape", "layers.NewFC", "shape-"+nm, "", fmt.Sprintf("parameter %s has shape %s, expected [Outputs]", nm, polys(e.W.Dims(t))))
			}
			if gs, ok := e.readGctx(t); !ok || !gs.tracked {
				e.find("C18.tracked", "layers.NewFC", "untracked-"+nm, "", "parameter "+nm+" is not tracked")
			}
		}
	})
	for _, bad := range []struct {
		label string
		in, o sym.Poly
		nilc  bool
	}{{"nil config", D, O, true}, {"Inputs=0", sym.PInt(0), O, false}, {"Inputs<0", sym.PInt(-1), O, false}, {"Outputs=0", D, sym.PInt(0), false}, {"Outputs<0", D, sym.PInt(-2), false}} {
		bad := bad
		lbl := "NewFC " + bad.label
		e.RunBody("layers.NewFC", lbl, 100, func() {
			e.M.Base = sizeBase([]sym.Poly{D, O})
			confT, _ := e.fcTypes()
			ctor := e.fn(core.PkgLayers, "NewFC")
			var arg interp.Value = interp.NilV{}
			if !bad.nilc {
				arg = e.newStructPtr(confT, map[string]interp.Value{"Inputs": intV(bad.in), "Outputs": intV(bad.o)})
			}
			out, ok := e.call("layers.NewFC", lbl, ctor, []interp.Value{arg})
			if !ok {
				return
			}
			e.expectError("layers.NewFC", lbl, e.P.FuncPos(ctor), out.Results, bad.label)
		})
	}
	// an initializer that fails (a Uniform built with lower >= upper) or produces a wrong shape: NewFC must return
	// the error and NO layer
	if uT, fT := e.typeOf(core.PkgInits, "Uniform"), e.typeOf(core.PkgInits, "Full"); uT != nil && fT != nil {
		iface := e.typeOf(core.PkgLayers, "Initializer")
		for _, which := range []string{"Weight", "Bias"} {
			which := which
			lbl := "NewFC failing " + which + " initializer"
			e.RunBody("layers.NewFC", lbl, 100, func() {
				e.M.Base = sizeBase([]sym.Poly{D, O})
				confT, _ := e.fcTypes()
				ctor := e.fn(core.PkgLayers, "NewFC")
				badInit := e.newStructPtr(uT, map[string]interp.Value{"lower": interp.FloatC(1), "upper": interp.FloatC(0)})
				mo := &interp.MapObj{Vals: map[string]interp.Value{}}
				mo.Keys = append(mo.Keys, "s:"+which)
				mo.Vals["s:"+which] = interp.IfaceV{T: types.NewPointer(uT), V: badInit}
				_ = iface
				arg := e.newStructPtr(confT, map[string]interp.Value{"Inputs": intV(D), "Outputs": intV(O), "Initializers": interp.MapV{M: mo}})
				out, ok := e.call("layers.NewFC", lbl, ctor, []interp.Value{arg})
				if !ok {
					return
				}
				e.expectError("layers.NewFC", lbl, e.P.FuncPos(ctor), out.Results, "initializer fails")
			})
		}
	}
	for _, bad := range []struct {
		label string
		build func() interp.Value
	}{
		{"no input", func() interp.Value { return e.tensorsArg() }},
		{"nil input", func() interp.Value { return e.tensorsArg(interp.NilV{}) }},
		{"rank 1 input", func() interp.Value { return e.tensorsArg(e.W.Boxed(e.mkTensor("X", TensorArg{Dims: []sym.Poly{D}}))) }},
		{"rank 3 input", func() interp.Value {
			return e.tensorsArg(e.W.Boxed(e.mkTensor("X", TensorArg{Dims: []sym.Poly{B, D, D}})))
		}},
		{"two inputs", func() interp.Value {
			x := e.W.Boxed(e.mkTensor("X", TensorArg{Dims: []sym.Poly{B, D}}))
			return e.tensorsArg(x, x)
		}},
	} {
		bad := bad
		lbl := "FC.Forward " + bad.label
		e.RunBody(key, lbl, 200, func() {
			e.M.Base = sizeBase([]sym.Poly{B, D, O})
			fc, ok := e.newFC(key, lbl, D, O)
			if !ok {
				return
			}
			out, ok := e.call(key, lbl, fwd, []interp.Value{fc, bad.build()})
			if !ok {
				return
			}
			e.expectError(key, lbl, pos, out.Results, bad.label)
		})
	}
}

/* ---------- SGD (C17) ---------- */

func (e *OpEngine) RunSGDChecks(maxRank int) {
	confT := e.typeOf(core.PkgOptimizers, "SGDConfig")
	ctor := e.fn(core.PkgOptimizers, "NewSGD")
	upd := e.fn(core.PkgOptimizers, "(*SGD).Update")
	key := "optimizers.(*SGD).Update"
	if confT == nil || ctor == nil || upd == nil {
		e.undecided("anchor", key, "missing", "", "SGD not found")
		return
	}
	pos := e.P.FuncPos(upd)
	type lrCase struct {
		label string
		conf  func() interp.Value
		lr    sym.Expr
	}
	lrs := []lrCase{
		{"lr symbolic", func() interp.Value {
			return e.newStructPtr(confT, map[string]interp.Value{"LearningRate": interp.FloatV{E: sym.SymE("lr")}})
		}, sym.SymE("lr")},
		{"nil config", func() interp.Value { return interp.NilV{} }, sym.NumF(0.01)},
		{"lr=0", func() interp.Value {
			return e.newStructPtr(confT, map[string]interp.Value{"LearningRate": interp.FloatC(0)})
		}, sym.Expr{}},
		{"lr=-0.5", func() interp.Value {
			return e.newStructPtr(confT, map[string]interp.Value{"LearningRate": interp.FloatC(-0.5)})
		}, sym.NumF(-0.5)},
	}
	for _, lc := range lrs {
		lc := lc
		for r := 0; r <= maxRank; r++ {
			for _, dims := range shapesFor("a", r, 1) {
				dims := dims
				label := fmt.Sprintf("SGD %s w=%s", lc.label, shapeStr(dims))
				e.RunBody(key, label, 100, func() {
					e.M.Base = sizeBase(dims)
					scv := lc.conf()
					out, ok := e.call(key, label, ctor, []interp.Value{scv})
					if !ok {
						return
					}
					e.poisonConfig(scv)
					opt := out.Results[0]
					// every finite weight and gradient: overflow of w - lr·g itself is outside the property, but a guard
					// that rejects finite gradients is not
					w := e.mkTensor("W", TensorArg{Dims: dims, Tracked: true, Dirty: true, Rng: spec.FiniteAny()})
					g := e.mkTensor("G", TensorArg{Dims: dims, Rng: spec.FiniteAny()})
					wg, _ := e.W.GctxOf(w)
					interp.Store(wg.C.Fields[e.A.GGradient], e.W.Boxed(g))
					cell := e.M.NewStruct(types.NewStruct([]*types.Var{types.NewField(0, nil, "t", e.A.TensorIface, false)}, nil), "wptr")
					slot := interp.PtrV{C: cell.C.Fields[0]}
					interp.Store(slot.C, e.W.Boxed(w))
					e.baseline, e.watch = e.M.CellSeq(), true
					e.AllowStore = func(c *interp.Cell, fn *ssa.Function) bool { return c == slot.C }
					out, ok = e.call(key, label, upd, []interp.Value{opt, slot})
					e.watch, e.AllowStore = false, nil
					if !ok {
						return
					}
					e.did("A4.pre", key)
					if isErrVal(out.Results[0]) {
						e.find("A4.pre", key, "rejects-valid", pos, "Update fails on a tensor that has a gradient [instance "+label+"]")
						return
					}
					nv := interp.Load(slot.C)
					want := sym.Sub(sym.LeafE("W", spec.IdentIdx(r)), sym.Mul(lc.lr, sym.LeafE("G", spec.IdentIdx(r))))
					res := []interp.Value{nv, interp.NilV{}}
					nt, ok := e.checkTensorResult(key, label, pos, res, Expect{Dims: dims, Elem: want, HasElem: true, RuleElem: "w - lr·g"})
					if ok {
						e.did("C17.replaced", key)
						if nt.C == w.C {
							e.find("C17.replaced", key, "same-object", pos, "the tensor behind the pointer was modified in place instead of being replaced [instance "+label+"]")
						}
					}
					if !ok || r > 1 {
						return
					}
					// history: the same optimizer updates the same pointer again (a later training step: new weight
					// values, new gradient); the step must again be w - lr·g of the CURRENT tensor only
					w2 := e.mkTensor("W2", TensorArg{Dims: dims, Tracked: true, Dirty: true, Rng: spec.FiniteAny()})
					g2 := e.mkTensor("G2", TensorArg{Dims: dims, Rng: spec.FiniteAny()})
					wg2, _ := e.W.GctxOf(w2)
					interp.Store(wg2.C.Fields[e.A.GGradient], e.W.Boxed(g2))
					interp.Store(slot.C, e.W.Boxed(w2))
					label2 := label + ", second update through the same optimizer and pointer"
					out, ok = e.call(key, label2, upd, []interp.Value{opt, slot})
					if !ok {
						return
					}
					if isErrVal(out.Results[0]) {
						e.find("A4.pre", key, "rejects-valid", pos, "Update fails on a tensor that has a gradient [instance "+label2+"]")
						return
					}
					want2 := sym.Sub(sym.LeafE("W2", spec.IdentIdx(r)), sym.Mul(lc.lr, sym.LeafE("G2", spec.IdentIdx(r))))
					e.checkTensorResult(key, label2, pos, []interp.Value{interp.Load(slot.C), interp.NilV{}}, Expect{Dims: dims, Elem: want2, HasElem: true, RuleElem: "w - lr·g of the current tensor (no memory of earlier updates)"})
				})
			}
		}
	}
	// error cases: nothing is replaced
	d := allAtoms("a", 1)
	for _, bad := range []string{"nil pointer", "nil tensor", "no gradient"} {
		bad := bad
		label := "SGD " + bad
		e.RunBody(key, label, 50, func() {
			e.M.Base = sizeBase(d)
			out, ok := e.call(key, label, ctor, []interp.Value{interp.NilV{}})
			if !ok {
				return
			}
			opt := out.Results[0]
			cell := e.M.NewStruct(types.NewStruct([]*types.Var{types.NewField(0, nil, "t", e.A.TensorIface, false)}, nil), "wptr")
			slot := interp.PtrV{C: cell.C.Fields[0]}
			var arg interp.Value = slot
			var before interp.Value = interp.NilV{}
			switch bad {
			case "nil pointer":
				arg = interp.NilV{}
			case "nil tensor":
				interp.Store(slot.C, interp.NilV{})
			case "no gradient":
				w := e.mkTensor("W", TensorArg{Dims: d, Tracked: true})
				before = e.W.Boxed(w)
				interp.Store(slot.C, before)
			}
			e.baseline, e.watch = e.M.CellSeq(), true
			out, ok = e.call(key, label, upd, []interp.Value{opt, arg})
			e.watch = false
			if !ok {
				return
			}
			e.expectError(key, label, pos, out.Results, bad)
			e.did("S7.no-store-on-error", key)
			after := interp.Load(slot.C)
			same := interp.IsNil(before) == interp.IsNil(after)
			if bt, ok := e.W.AsTensor(before); ok {
				at, ok2 := e.W.AsTensor(after)
				same = ok2 && at.C == bt.C
			}
			if !same {
				e.find("S7.no-store-on-error", key, "replaced-on-error", pos, "the tensor behind the pointer changed although Update returned an error ("+bad+")")
			}
		})
	}
}

/* ---------- Accuracy (C19) ---------- */

func (e *OpEngine) RunAccuracyChecks() {
	ctor := e.fn(core.PkgMetrics, "NewAccuracy")
	acc := e.fn(core.PkgMetrics, "(*Accuracy).Accumulate")
	resf := e.fn(core.PkgMetrics, "(*Accuracy).Result")
	key := "metrics.(*Accuracy).Accumulate"
	if ctor == nil || acc == nil || resf == nil {
		e.undecided("anchor", key, "missing", "", "Accuracy not found")
		return
	}
	pos := e.P.FuncPos(acc)
	// the metric's state is observed without naming its fields: every scalar reachable by value from the object
	var stateOf func(c *interp.Cell) string
	stateOf = func(c *interp.Cell) string {
		if c == nil {
			return "nil"
		}
		if c.Fields != nil {
			s := "{"
			for _, f := range c.Fields {
				s += stateOf(f) + ";"
			}
			return s + "}"
		}
		if c.Elems != nil {
			s := "["
			for _, f := range c.Elems {
				s += stateOf(f) + ";"
			}
			return s + "]"
		}
		switch v := interp.Load(c).(type) {
		case interp.IntV:
			return v.P.String()
		case interp.FloatV:
			return v.E.Key()
		case nil:
			return "unset"
		default:
			return interp.Describe(v)
		}
	}
	snapshot := func(obj interp.PtrV) string { return stateOf(obj.C) }
	matched := func(pn, tn string, n sym.Poly) sym.Expr {
		v := sym.FreshVar()
		idx := []sym.Poly{sym.PAtom(v)}
		return sym.Sigma(v, n, sym.Ind(sym.AbsLE(sym.Sub(sym.LeafE(pn, idx), sym.LeafE(tn, idx)), sym.SymE(spec.Tol))))
	}
	N, M := sym.PAtom("n"), sym.PAtom("m")
	for _, sizes := range [][]sym.Poly{{N}, {sym.PInt(1)}, {N, M}, {N, sym.PInt(1), M}} {
		sizes := sizes
		label := fmt.Sprintf("Accuracy batches=%s", shapeStr(sizes))
		e.RunBody(key, label, 200, func() {
			e.M.Base = sizeBase(sizes)
			out, ok := e.call(key, label, ctor, nil)
			if !ok {
				return
			}
			obj := out.Results[0].(interp.PtrV)
			// Result before any batch is 0
			out, ok = e.call("metrics.(*Accuracy).Result", label, resf, []interp.Value{obj})
			if !ok {
				return
			}
			e.did("A2.formula", "metrics.(*Accuracy).Result")
			if f, isF := out.Results[0].(interp.FloatV); !isF || !f.E.IsZero() || !interp.IsNil(out.Results[1]) {
				e.find("A2.formula", "metrics.(*Accuracy).Result", "initial", e.P.FuncPos(resf), "Result before any accepted batch is not 0")
			}
			wantTotal := sym.PInt(0)
			var wantMatched []sym.Expr
			for i, n := range sizes {
				pn, tn := fmt.Sprintf("P%d", i), fmt.Sprintf("T%d", i)
				p := e.mkTensor(pn, TensorArg{Dims: []sym.Poly{n}})
				t := e.mkTensor(tn, TensorArg{Dims: []sym.Poly{n}})
				out, ok = e.call(key, label, acc, []interp.Value{obj, e.W.Boxed(p), e.W.Boxed(t)})
				if !ok {
					return
				}
				if isErrVal(out.Results[0]) {
					e.find("A4.pre", key, "rejects-valid", pos, "rejects a valid batch [instance "+label+"]")
					return
				}
				wantTotal = wantTotal.Add(n)
				wantMatched = append(wantMatched, matched(pn, tn, n))
				// an invalid call in between must leave the counts unchanged
				s0 := snapshot(obj)
				bad := e.mkTensor("Bad", TensorArg{Dims: []sym.Poly{n, n}})
				out, ok = e.call(key, label, acc, []interp.Value{obj, e.W.Boxed(bad), e.W.Boxed(t)})
				if !ok {
					return
				}
				e.expectError(key, label, pos, out.Results, "rank-2 prediction")
				e.did("S7.no-store-on-error", key)
				if snapshot(obj) != s0 {
					e.find("S7.no-store-on-error", key, "counts-changed-on-error", pos, "a rejected call changed the running counts [instance "+label+"]")
				}
			}
			e.did("A2.formula", key)
			// matched is a sum of truncations of the per-batch matched counts, one atom per batch
			wantC := sym.Expr{}
			for _, me := range wantMatched {
				wantC = sym.Add(wantC, me)
			}
			out, ok = e.call("metrics.(*Accuracy).Result", label, resf, []interp.Value{obj})
			if !ok {
				return
			}
			e.did("A2.formula", "metrics.(*Accuracy).Result")
			if f, isF := out.Results[0].(interp.FloatV); isF {
				want := sym.Div(wantC, sym.PolyE(wantTotal))
				got := f.E.SubstSym(e.internedAsExpr())
				if !e.sameExpr(got, want, nil) {
					if verdict, wit := e.numericCompare(got, want, nil); verdict == 1 {
						e.Findings = append(e.Findings, Finding{Method: e.curMethod, Rule: "A2.formula", Construct: "metrics.(*Accuracy).Result", What: "ratio", Pos: e.P.FuncPos(resf),
							Detail: fmt.Sprintf("Result = %s, expected matched/total = %s [instance %s]", clip(got.String()), clip(want.String()), label), Witness: wit})
					} else {
						e.undecided("A2.formula", "metrics.(*Accuracy).Result", "ratio", e.P.FuncPos(resf), fmt.Sprintf("normal forms differ, no separating point: Result = %s, expected %s [instance %s]", clip(got.String()), clip(want.String()), label))
					}
				}
			}
		})
	}
	// invalid inputs on a fresh metric
	d := []sym.Poly{N}
	mk := func(nm string, dd []sym.Poly) interp.Value { return e.W.Boxed(e.mkTensor(nm, TensorArg{Dims: dd})) }
	for _, bad := range []struct {
		label string
		build func() (interp.Value, interp.Value)
	}{
		{"nil prediction", func() (interp.Value, interp.Value) { return interp.NilV{}, mk("T", d) }},
		{"nil target", func() (interp.Value, interp.Value) { return mk("P", d), interp.NilV{} }},
		{"scalars", func() (interp.Value, interp.Value) { return mk("P", nil), mk("T", nil) }},
		{"rank 2", func() (interp.Value, interp.Value) { return mk("P", []sym.Poly{N, M}), mk("T", []sym.Poly{N, M}) }},
		{"rank mismatch", func() (interp.Value, interp.Value) { return mk("P", d), mk("T", []sym.Poly{N, M}) }},
		{"length mismatch", func() (interp.Value, interp.Value) { return mk("P", d), mk("T", []sym.Poly{M}) }},
	} {
		bad := bad
		label := "Accuracy " + bad.label
		e.RunBody(key, label, 50, func() {
			e.M.Base = sizeBase([]sym.Poly{N, M})
			out, ok := e.call(key, label, ctor, nil)
			if !ok {
				return
			}
			obj := out.Results[0].(interp.PtrV)
			fresh := snapshot(obj)
			p, t := bad.build()
			out, ok = e.call(key, label, acc, []interp.Value{obj, p, t})
			if !ok {
				return
			}
			if bad.label == "length mismatch" && e.M.Entailed(sym.IntCond(sym.CEq(N, M))) {
				return
			}
			e.expectError(key, label, pos, out.Results, bad.label)
			e.did("S7.no-store-on-error", key)
			if snapshot(obj) != fresh {
				e.find("S7.no-store-on-error", key, "counts-changed-on-error", pos, "a rejected call changed the running counts [instance "+label+"]")
			}
		})
	}
}

// internedAsExpr maps the integer atoms standing for float→int truncations back to their expressions
// (the matched counts are sums of 0/1 indicators, hence integral).
func (e *OpEngine) internedAsExpr() map[string]sym.Expr {
	out := map[string]sym.Expr{}
	for k, v := range e.M.Interned {
		out[k] = v
	}
	return out
}
