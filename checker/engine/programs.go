package engine

import (
	"fmt"
	"math/rand"
	"strings"

	"golang.org/x/tools/go/ssa"

	"qverif/core"
	"qverif/interp"
	"qverif/spec"
	"qverif/sym"
)

// A Program is a small straight-line tensor computation over leaves, used to analyse the back-propagation
// walk: the graph SHAPE is concrete (like a rank), every tensor value is symbolic.
type PStep struct {
	Op   string // Scale Exp Tanh Add Mul Sub
	A, B int    // operand value indices (leaves first, then results in order)
}

type Program struct {
	Leaves []bool // tracked?
	Steps  []PStep
	Roots  []int // values to back-propagate from, in order (default: last value)
	Name   string
}

func (p *Program) String() string {
	var sb strings.Builder
	if p.Name != "" {
		sb.WriteString(p.Name + ": ")
	}
	for i, t := range p.Leaves {
		fmt.Fprintf(&sb, "v%d=leaf(tracked=%v) ", i, t)
	}
	for i, s := range p.Steps {
		n := len(p.Leaves) + i
		switch s.Op {
		case "Add", "Mul", "Sub":
			fmt.Fprintf(&sb, "v%d=v%d.%s(v%d) ", n, s.A, s.Op, s.B)
		default:
			fmt.Fprintf(&sb, "v%d=v%d.%s ", n, s.A, s.Op)
		}
	}
	fmt.Fprintf(&sb, "roots=%v", p.Roots)
	return sb.String()
}

// WalkStats aggregates what the program-level analysis covered.
type WalkStats struct {
	Programs    int
	Reconverge  int // programs in which some value has fan-out >= 2 towards the root
	GradChecks  int
	StateChecks int
	ClosureRuns int
}

func (e *OpEngine) bpFunc() *ssa.Function { return e.P.Func(core.PkgTensor, "BackPropagate") }

// RunProgram interprets the program's forward calls through the real public methods, then the real
// BackPropagate, and compares every leaf's accumulated gradient with the symbolic derivative of the root.
func (e *OpEngine) RunProgram(p *Program, st *WalkStats) {
	bp := e.bpFunc()
	if bp == nil {
		e.undecided("anchor", "tensor.BackPropagate", "missing", "", "public BackPropagate not found")
		return
	}
	key := "gradtrack.BackPropagate"
	dims := []sym.Poly{sym.PAtom("d0")}
	body := func() {
		e.Begin()
		sym.ActiveFacts = nil
		e.M.Base = sizeBase(dims)
		e.LeafRng = nil
		nl := len(p.Leaves)
		vals := make([]interp.PtrV, 0, nl+len(p.Steps))
		for i, tr := range p.Leaves {
			vals = append(vals, e.mkTensor(fmt.Sprintf("X%d", i), TensorArg{Dims: dims, Tracked: tr, Rng: spec.Rng(-10, 10)}))
		}
		fail := false
		for si, s := range p.Steps {
			fn := e.method(s.Op)
			var args []interp.Value
			switch s.Op {
			case "Scale":
				args = []interp.Value{vals[s.A], interp.FloatV{E: sym.SymE(fmt.Sprintf("k%d", si))}}
			case "Exp", "Tanh", "Sin":
				args = []interp.Value{vals[s.A]}
			case "Pow0":
				// exponent 0: the result is constant, the operand's gradient is an all-zero tensor built by the rule's
				// zero helper — the only kind of upstream gradient that does not descend from the seed
				fn = e.method("Pow")
				args = []interp.Value{vals[s.A], interp.FloatV{E: sym.Expr{}}}
			case "ReshapeSame":
				// a shape operation that keeps the shape: the element expression is unchanged
				fn = e.method("Reshape")
				args = []interp.Value{vals[s.A], e.intsArg(dims)}
			case "BroadcastSame":
				// an explicit Broadcast to the operand's own shape: a graph node of its own (expansion factor 1)
				fn = e.method("Broadcast")
				args = []interp.Value{vals[s.A], e.intsArg(dims)}
			case "Flatten0":
				fn = e.method("Flatten")
				args = []interp.Value{vals[s.A], intV(sym.PInt(0))}
			case "ElMaxSelf":
				// the same tensor as both operands of an operation whose back edges target the operands directly
				fn = e.method("ElMax")
				args = []interp.Value{vals[s.A], e.W.Boxed(vals[s.A])}
			default:
				args = []interp.Value{vals[s.A], e.W.Boxed(vals[s.B])}
			}
			out := e.M.Run(func() interp.Value { return e.M.Call(fn, args, nil) })
			if out.Kind != interp.Returned {
				e.find("S6.panic", "cputensor."+opKey(s.Op, true), "panic:"+panicClass(out.Panic.Msg), e.P.Pos(out.Panic.Pos), "forward call panics in program "+p.String())
				fail = true
				break
			}
			rt := out.Results[0]
			if len(out.Results) == 2 {
				if _, isErr := out.Results[1].(interp.ErrV); isErr {
					fail = true
					break
				}
			}
			tp, ok := e.W.AsTensor(rt)
			if !ok {
				fail = true
				break
			}
			vals = append(vals, tp)
		}
		if fail {
			return
		}
		roots := p.Roots
		if len(roots) == 0 {
			roots = []int{len(vals) - 1}
		}
		// expected gradients: Σ over roots of ∂(root element)/∂leaf, for tracked leaves that the root depends on
		want := make([]sym.Expr, nl)
		reach := make([]bool, len(vals)) // value receives a gradient from some root
		for _, r := range roots {
			rs, _ := e.readGctx(vals[r])
			if !rs.tracked {
				continue
			}
			fr := e.W.InfoOf(vals[r]).Elem
			anc := e.trackedAncestors(p, vals, r)
			for i := range anc {
				reach[i] = reach[i] || anc[i]
			}
			for i := 0; i < nl; i++ {
				if !anc[i] {
					continue
				}
				d, ok := sym.Diff(fr, fmt.Sprintf("X%d", i))
				if !ok {
					e.undecided("C01.total", key, "diff", "", "cannot differentiate the composite forward expression")
					return
				}
				want[i] = sym.Add(want[i], d)
			}
		}
		// pre-state for the "nothing else is touched" clause
		// run the real BackPropagate for each root and count backward-rule applications
		for _, r := range roots {
			before := e.gradFnCalls
			bound := e.edgeBound(vals[r])
			out := e.M.Run(func() interp.Value { return e.M.Call(bp, []interp.Value{e.W.Boxed(vals[r])}, nil) })
			st.ClosureRuns += e.gradFnCalls - before
			switch out.Kind {
			case interp.Panicked:
				e.find("C01.total", key, "panic:"+panicClass(out.Panic.Msg), e.P.Pos(out.Panic.Pos), "back-propagation panics: "+out.Panic.Msg+" in program "+p.String())
				return
			case interp.Diverged:
				e.find("C01.bounded", key, "no-termination", e.P.FuncPos(bp), "back-propagation exceeds the step budget (unbounded or path-enumerating walk) in program "+p.String())
				return
			}
			if len(out.Results) == 1 {
				if ev, isErr := out.Results[0].(interp.ErrV); isErr {
					e.find("C01.total", key, "error", e.P.FuncPos(bp), "back-propagation of an accepted graph returns an error ("+ev.Msg+") in program "+p.String())
					return
				}
			}
			e.did("C01.bounded", key)
			if calls := e.gradFnCalls - before; calls > bound {
				e.find("C01.bounded", key, "rule-applications", e.P.FuncPos(bp),
					fmt.Sprintf("%d backward-rule applications for a graph with %d back edges to tracked tensors (+1 seed): rules are applied more than once per edge in program %s", calls, bound-1, p.String()))
			}
		}
		// gradients on leaves
		for i := 0; i < nl; i++ {
			gs, ok := e.readGctx(vals[i])
			if !ok {
				continue
			}
			st.GradChecks++
			e.did("C01.total", key)
			g, _ := e.W.GctxOf(vals[i])
			gv := interp.Load(g.C.Fields[e.A.GGradient])
			shouldHave := p.Leaves[i] && reach[i]
			if !shouldHave {
				if !interp.IsNil(gv) {
					e.find("C08.bp", key, "gradient-on-untracked-or-unrelated", e.P.FuncPos(bp),
						fmt.Sprintf("leaf v%d (tracked=%v, reachable=%v) received a gradient in program %s", i, p.Leaves[i], reach[i], p.String()))
				}
				continue
			}
			gt, ok := e.W.AsTensor(gv)
			if !ok {
				e.find("C01.total", key, "missing-gradient", e.P.FuncPos(bp), fmt.Sprintf("tracked leaf v%d has no gradient after back-propagation in program %s", i, p.String()))
				continue
			}
			if !e.sameDims(e.W.Dims(gt), dims) {
				e.find("C01.total", key, "shape", e.P.FuncPos(bp), fmt.Sprintf("gradient of leaf v%d has shape %s, expected %s in program %s", i, polys(e.W.Dims(gt)), polys(dims), p.String()))
				continue
			}
			got := e.W.InfoOf(gt).Elem
			if !e.sameExpr(got, want[i], dims) {
				verdict, wit := e.numericCompare(got, want[i], dims)
				if verdict == 1 {
					e.Findings = append(e.Findings, Finding{Rule: "C01.total", Construct: key, What: "value", Pos: e.P.FuncPos(bp),
						Detail:  fmt.Sprintf("leaf v%d ends with gradient %s but the total derivative is %s in program %s", i, clip(got.String()), clip(want[i].String()), p.String()),
						Witness: wit})
				} else {
					e.undecided("C01.total", key, "value", e.P.FuncPos(bp), fmt.Sprintf("normal forms differ, no separating point: got %s want %s in %s", clip(got.String()), clip(want[i].String()), p.String()))
				}
			}
			_ = gs
		}
		// gradients on tracked INTERMEDIATES (single-root programs): the property speaks of every tracked tensor
		// of the graph.  Reference: reverse accumulation over the program text with the textbook local
		// derivatives, on the forward element expressions.
		if len(roots) == 1 {
			F := make([]sym.Expr, len(vals))
			for i := range vals {
				F[i] = e.W.InfoOf(vals[i]).Elem
			}
			G := make([]sym.Expr, len(vals))
			if reach[roots[0]] {
				G[roots[0]] = sym.NumI(1)
			}
			okRef := true
			for i := len(vals) - 1; i >= nl; i-- {
				if !reach[i] || G[i].IsZero() {
					continue
				}
				s := p.Steps[i-nl]
				addTo := func(j int, x sym.Expr) {
					if reach[j] {
						G[j] = sym.Add(G[j], x)
					}
				}
				switch s.Op {
				case "Scale":
					addTo(s.A, sym.Mul(G[i], sym.SymE(fmt.Sprintf("k%d", i-nl))))
				case "Exp":
					addTo(s.A, sym.Mul(G[i], F[i]))
				case "Tanh":
					addTo(s.A, sym.Mul(G[i], sym.PowInt(sym.FnE("cosh", F[s.A]), -2)))
				case "Sin":
					addTo(s.A, sym.Mul(G[i], sym.FnE("cos", F[s.A])))
				case "Pow0":
					// zero contribution
				case "ReshapeSame", "Flatten0", "ElMaxSelf", "BroadcastSame":
					addTo(s.A, G[i])
				case "Add":
					addTo(s.A, G[i])
					addTo(s.B, G[i])
				case "Sub":
					addTo(s.A, G[i])
					addTo(s.B, sym.Neg(G[i]))
				case "Mul":
					addTo(s.A, sym.Mul(G[i], F[s.B]))
					addTo(s.B, sym.Mul(G[i], F[s.A]))
				default:
					okRef = false
				}
			}
			for i := nl; okRef && i < len(vals); i++ {
				gs, ok := e.readGctx(vals[i])
				if !ok || !gs.known || !gs.tracked || !reach[i] {
					continue
				}
				st.GradChecks++
				e.did("C01.total", key)
				g, _ := e.W.GctxOf(vals[i])
				gt, ok := e.W.AsTensor(interp.Load(g.C.Fields[e.A.GGradient]))
				if !ok {
					e.find("C01.total", key, "missing-gradient-intermediate", e.P.FuncPos(bp), fmt.Sprintf("tracked intermediate v%d on the path from the root has no gradient after back-propagation in program %s", i, p.String()))
					continue
				}
				if !e.sameDims(e.W.Dims(gt), dims) {
					e.find("C01.total", key, "shape", e.P.FuncPos(bp), fmt.Sprintf("gradient of intermediate v%d has shape %s, expected %s in program %s", i, polys(e.W.Dims(gt)), polys(dims), p.String()))
					continue
				}
				got := e.W.InfoOf(gt).Elem
				if !e.sameExpr(got, G[i], dims) {
					verdict, wit := e.numericCompare(got, G[i], dims)
					if verdict == 1 {
						e.Findings = append(e.Findings, Finding{Rule: "C01.total", Construct: key, What: "value-intermediate", Pos: e.P.FuncPos(bp),
							Detail:  fmt.Sprintf("intermediate v%d ends with gradient %s but the derivative of the root with respect to it is %s in program %s", i, clip(got.String()), clip(G[i].String()), p.String()),
							Witness: wit})
					} else {
						e.undecided("C01.total", key, "value-intermediate", e.P.FuncPos(bp), fmt.Sprintf("normal forms differ, no separating point: got %s want %s for v%d in %s", clip(got.String()), clip(G[i].String()), i, p.String()))
					}
				}
			}
		}
		// C08 clauses 4/5: exactly the tracked ancestors (and the root) are spent and carry a gradient
		for i := range vals {
			gs, ok := e.readGctx(vals[i])
			if !ok || !gs.known {
				continue
			}
			st.StateChecks++
			e.did("C08.bp", key)
			wasTracked := gs.tracked
			if reach[i] && wasTracked {
				if !gs.dirty {
					e.find("C08.bp", key, "not-spent", e.P.FuncPos(bp), fmt.Sprintf("v%d took part in back-propagation but is not marked spent in program %s", i, p.String()))
				}
				if gs.gradNil {
					e.find("C08.bp", key, "missing-gradient", e.P.FuncPos(bp), fmt.Sprintf("tracked v%d on the path from the root has no gradient in program %s", i, p.String()))
				}
			} else {
				if gs.dirty {
					e.find("C08.bp", key, "spent-outside-graph", e.P.FuncPos(bp), fmt.Sprintf("v%d is not a tracked ancestor of a root but was marked spent in program %s", i, p.String()))
				}
				if !gs.gradNil {
					e.find("C08.bp", key, "gradient-outside-graph", e.P.FuncPos(bp), fmt.Sprintf("v%d is not a tracked ancestor of a root but received a gradient in program %s", i, p.String()))
				}
			}
			// every gradient tensor is untracked
			if !gs.gradNil {
				g, _ := e.W.GctxOf(vals[i])
				if gt, ok := e.W.AsTensor(interp.Load(g.C.Fields[e.A.GGradient])); ok {
					if ggs, ok := e.readGctx(gt); ok && ggs.known && ggs.tracked {
						e.find("C08.bp", key, "tracked-gradient", e.P.FuncPos(bp), fmt.Sprintf("the gradient tensor of v%d is itself tracked in program %s", i, p.String()))
					}
				}
			}
		}
	}
	_, err := e.M.Explore(512, body)
	if err != nil {
		err = e.concreteFallback(err, func() error {
			_, err2 := e.M.Explore(512, body)
			return err2
		})
	}
	st.Programs++
	if err != nil {
		e.undecided("interp", key, "unsupported", "", fmt.Sprintf("%v in program %s", err, p.String()))
	}
}

// trackedAncestors marks the values that the walk from root r must reach: r itself if tracked, and every
// tracked value reachable through operands of tracked results.
func (e *OpEngine) trackedAncestors(p *Program, vals []interp.PtrV, r int) []bool {
	nl := len(p.Leaves)
	mark := make([]bool, len(vals))
	var visit func(i int)
	visit = func(i int) {
		gs, ok := e.readGctx(vals[i])
		if !ok || !gs.tracked || mark[i] {
			return
		}
		mark[i] = true
		if i >= nl {
			s := p.Steps[i-nl]
			visit(s.A)
			if s.Op == "Add" || s.Op == "Mul" || s.Op == "Sub" {
				visit(s.B)
			}
		}
	}
	visit(r)
	return mark
}

// edgeBound counts 1 (seed) + the back edges of tracked contexts reachable from t whose target is tracked.
func (e *OpEngine) edgeBound(t interp.PtrV) int {
	seen := map[*interp.Cell]bool{}
	n := 1
	var visit func(t interp.PtrV)
	visit = func(t interp.PtrV) {
		g, ok := e.W.GctxOf(t)
		if !ok || seen[g.C] {
			return
		}
		seen[g.C] = true
		gs, _ := e.readGctx(t)
		if !gs.tracked {
			return
		}
		for _, ed := range gs.edges {
			if ed.C == nil {
				continue
			}
			tp, ok := e.W.AsTensor(interp.Load(ed.C.Fields[e.A.ETarget]))
			if !ok {
				continue
			}
			ts, ok := e.readGctx(tp)
			if ok && ts.tracked {
				n++
				visit(tp)
			}
		}
	}
	visit(t)
	return n
}

/* ---------- program enumeration ---------- */

var unaryP = []string{"Scale", "Exp", "ElMaxSelf", "ReshapeSame"}
var binaryP = []string{"Add", "Mul"}

// EnumeratePrograms lists every program with exactly k steps over the given leaves (root = last value).
func EnumeratePrograms(leaves []bool, k int) []*Program {
	var out []*Program
	var rec func(steps []PStep)
	rec = func(steps []PStep) {
		if len(steps) == k {
			out = append(out, &Program{Leaves: leaves, Steps: append([]PStep{}, steps...)})
			return
		}
		n := len(leaves) + len(steps)
		for _, op := range unaryP {
			for a := 0; a < n; a++ {
				rec(append(steps, PStep{Op: op, A: a}))
			}
		}
		for _, op := range binaryP {
			for a := 0; a < n; a++ {
				for b := 0; b < n; b++ {
					rec(append(steps, PStep{Op: op, A: a, B: b}))
				}
			}
		}
	}
	rec(nil)
	return out
}

// TemplatePrograms are hand-picked shapes: diamonds, ladders of diamonds, wide fan-out, deep chains,
// shared leaves across several roots, untracked side inputs.
func TemplatePrograms() []*Program {
	T, U := true, false
	ps := []*Program{
		{Name: "diamond", Leaves: []bool{T}, Steps: []PStep{{"Scale", 0, 0}, {"Scale", 1, 0}, {"Scale", 1, 0}, {"Add", 2, 3}}},
		{Name: "diamond-mul", Leaves: []bool{T}, Steps: []PStep{{"Exp", 0, 0}, {"Scale", 1, 0}, {"Exp", 1, 0}, {"Mul", 2, 3}}},
		{Name: "double-diamond", Leaves: []bool{T}, Steps: []PStep{{"Scale", 0, 0}, {"Scale", 1, 0}, {"Scale", 1, 0}, {"Add", 2, 3}, {"Scale", 4, 0}, {"Exp", 4, 0}, {"Mul", 5, 6}}},
		{Name: "ladder3", Leaves: []bool{T}, Steps: []PStep{{"Add", 0, 0}, {"Mul", 1, 1}, {"Add", 2, 2}}},
		{Name: "fanout3", Leaves: []bool{T}, Steps: []PStep{{"Exp", 0, 0}, {"Scale", 1, 0}, {"Scale", 1, 0}, {"Scale", 1, 0}, {"Add", 2, 3}, {"Add", 5, 4}}},
		{Name: "skip-connection", Leaves: []bool{T}, Steps: []PStep{{"Exp", 0, 0}, {"Scale", 1, 0}, {"Mul", 2, 0}, {"Add", 3, 1}}},
		{Name: "uneven-depth", Leaves: []bool{T}, Steps: []PStep{{"Scale", 0, 0}, {"Exp", 1, 0}, {"Scale", 2, 0}, {"Exp", 3, 0}, {"Add", 4, 1}}},
		{Name: "uneven-depth-rev", Leaves: []bool{T}, Steps: []PStep{{"Scale", 0, 0}, {"Exp", 1, 0}, {"Scale", 2, 0}, {"Exp", 3, 0}, {"Add", 1, 4}}},
		{Name: "two-leaves-mixed", Leaves: []bool{T, U}, Steps: []PStep{{"Mul", 0, 1}, {"Exp", 2, 0}, {"Add", 3, 1}, {"Mul", 4, 2}}},
		{Name: "untracked-only", Leaves: []bool{U, U}, Steps: []PStep{{"Mul", 0, 1}, {"Exp", 2, 0}}},
		{Name: "dead-branch", Leaves: []bool{T, T}, Steps: []PStep{{"Exp", 1, 0}, {"Scale", 0, 0}, {"Mul", 3, 0}}},
		{Name: "shared-leaves-two-roots", Leaves: []bool{T, T}, Steps: []PStep{{"Mul", 0, 1}, {"Exp", 0, 0}, {"Add", 3, 1}}, Roots: []int{2, 4}},
		{Name: "shared-leaf-three-roots", Leaves: []bool{T}, Steps: []PStep{{"Exp", 0, 0}, {"Scale", 0, 0}, {"Mul", 0, 0}}, Roots: []int{1, 2, 3}},
		{Name: "deep-chain", Leaves: []bool{T}, Steps: []PStep{{"Scale", 0, 0}, {"Exp", 1, 0}, {"Scale", 2, 0}, {"Exp", 3, 0}, {"Scale", 4, 0}, {"Exp", 5, 0}}},
		{Name: "wide-reconverge", Leaves: []bool{T, T}, Steps: []PStep{{"Add", 0, 1}, {"Mul", 2, 0}, {"Mul", 2, 1}, {"Add", 3, 4}, {"Mul", 5, 2}}},
		{Name: "same-operand-twice", Leaves: []bool{T}, Steps: []PStep{{"Exp", 0, 0}, {"ElMaxSelf", 1, 0}, {"Scale", 2, 0}}},
		{Name: "same-operand-twice-fanout", Leaves: []bool{T}, Steps: []PStep{{"Scale", 0, 0}, {"ElMaxSelf", 1, 0}, {"Mul", 2, 1}, {"ElMaxSelf", 3, 0}}},
		{Name: "identity-reshape-of-intermediate", Leaves: []bool{T}, Steps: []PStep{{"Exp", 0, 0}, {"ReshapeSame", 1, 0}, {"Scale", 2, 0}}},
		{Name: "identity-broadcast-of-intermediate", Leaves: []bool{T}, Steps: []PStep{{"Exp", 0, 0}, {"BroadcastSame", 1, 0}, {"Scale", 2, 0}}},
		{Name: "identity-broadcast-as-root", Leaves: []bool{T}, Steps: []PStep{{"Scale", 0, 0}, {"BroadcastSame", 1, 0}}},
		{Name: "flatten-of-intermediate-fanout", Leaves: []bool{T}, Steps: []PStep{{"Scale", 0, 0}, {"Flatten0", 1, 0}, {"Mul", 2, 1}}},
		{Name: "zero-gradient-through-product", Leaves: []bool{T, T}, Steps: []PStep{{"Mul", 0, 1}, {"Pow0", 2, 0}}},
		{Name: "zero-gradient-joins-live-branch", Leaves: []bool{T, T}, Steps: []PStep{{"Mul", 0, 1}, {"Pow0", 2, 0}, {"Exp", 2, 0}, {"Add", 3, 4}}},
		{Name: "root-is-leaf", Leaves: []bool{T}, Steps: nil, Roots: []int{0}},
		{Name: "intermediate-root", Leaves: []bool{T}, Steps: []PStep{{"Exp", 0, 0}, {"Scale", 1, 0}}, Roots: []int{1}},
	}
	return ps
}

// RandomPrograms draws programs with lo..hi steps (seeded).
func RandomPrograms(seed int64, count, lo, hi int) []*Program {
	r := rand.New(rand.NewSource(seed))
	var out []*Program
	for i := 0; i < count; i++ {
		nl := 1 + r.Intn(2)
		leaves := make([]bool, nl)
		leaves[0] = true
		if nl == 2 {
			leaves[1] = r.Intn(3) > 0
		}
		k := lo + r.Intn(hi-lo+1)
		var steps []PStep
		for s := 0; s < k; s++ {
			n := nl + s
			// bias operands towards recent values to get depth and reconvergence
			pick := func() int {
				if r.Intn(2) == 0 && n > 1 {
					return n - 1 - r.Intn(minI(n, 3))
				}
				return r.Intn(n)
			}
			if r.Intn(2) == 0 {
				steps = append(steps, PStep{Op: unaryP[r.Intn(len(unaryP))], A: pick()})
			} else {
				steps = append(steps, PStep{Op: binaryP[r.Intn(len(binaryP))], A: pick(), B: pick()})
			}
		}
		out = append(out, &Program{Leaves: leaves, Steps: steps, Name: fmt.Sprintf("random#%d", i)})
	}
	return out
}

func minI(a, b int) int {
	if a < b {
		return a
	}
	return b
}
