package engine

import (
	"fmt"
	"go/types"
	"math"

	"golang.org/x/tools/go/ssa"

	"qverif/core"
	"qverif/interp"
	"qverif/sym"
)

// Entry points of package tensor: configuration handling in front of the cputensor constructors.

type confCase struct {
	label string
	valid bool
	build func(e *OpEngine, confT types.Type) interp.Value
}

func (e *OpEngine) confCases() []confCase {
	mk := func(dev int64, gt bool) func(e *OpEngine, confT types.Type) interp.Value {
		return func(e *OpEngine, confT types.Type) interp.Value {
			return e.newStructPtr(confT, map[string]interp.Value{"Device": intV(sym.PInt(dev)), "GradTrack": interp.BoolC(gt)})
		}
	}
	return []confCase{
		{"nil config", true, func(e *OpEngine, confT types.Type) interp.Value { return interp.NilV{} }},
		{"CPU untracked", true, mk(1, false)},
		{"CPU tracked", true, mk(1, true)},
		{"device unset, tracked", false, mk(0, true)},
		{"device unset", false, mk(0, false)},
		{"device 2", false, mk(2, false)},
		{"device -1", false, mk(-1, true)},
	}
}

// RunTensorEntryChecks interprets the public constructors of package tensor for every configuration case and
// symbolic dimension lists: an invalid configuration must give an error (never a panic), a valid one must
// defer to the cputensor constructor (whose precondition / shape agreement is checked by the wrapper).
func (e *OpEngine) RunTensorEntryChecks(maxLen int) {
	confT := e.typeOf(core.PkgTensor, "Config")
	if confT == nil {
		e.undecided("anchor", "tensor.Config", "missing", "", "Config type not found")
		return
	}
	type entry struct {
		name string
		args func(e *OpEngine, dims interp.Value) []interp.Value // arguments before the config
		dims bool
	}
	entries := []entry{
		{"Full", func(e *OpEngine, d interp.Value) []interp.Value {
			return []interp.Value{d, interp.FloatV{E: sym.SymE("value")}}
		}, true},
		{"Zeros", func(e *OpEngine, d interp.Value) []interp.Value { return []interp.Value{d} }, true},
		{"Ones", func(e *OpEngine, d interp.Value) []interp.Value { return []interp.Value{d} }, true},
		{"RandU", func(e *OpEngine, d interp.Value) []interp.Value {
			return []interp.Value{d, interp.FloatV{E: sym.SymE("lo")}, interp.FloatV{E: sym.SymE("hi")}}
		}, true},
		{"RandN", func(e *OpEngine, d interp.Value) []interp.Value {
			return []interp.Value{d, interp.FloatV{E: sym.SymE("mu")}, interp.FloatV{E: sym.SymE("sigma")}}
		}, true},
		{"Eye", func(e *OpEngine, d interp.Value) []interp.Value { return []interp.Value{intV(sym.PAtom("n"))} }, false},
		// NaN parameters are never ordered: they must be rejected like any other invalid parameter
		{"RandU", func(e *OpEngine, d interp.Value) []interp.Value {
			return []interp.Value{d, interp.FloatC(math.NaN()), interp.FloatV{E: sym.SymE("hi")}}
		}, true},
		{"RandU", func(e *OpEngine, d interp.Value) []interp.Value {
			return []interp.Value{d, interp.FloatV{E: sym.SymE("lo")}, interp.FloatC(math.NaN())}
		}, true},
		{"RandN", func(e *OpEngine, d interp.Value) []interp.Value {
			return []interp.Value{d, interp.FloatV{E: sym.SymE("mu")}, interp.FloatC(math.NaN())}
		}, true},
	}
	for _, en := range entries {
		fn := e.fn(core.PkgTensor, en.name)
		key := "tensor." + en.name
		if fn == nil {
			e.undecided("anchor", key, "missing", "", "entry point not found")
			continue
		}
		lens := []int{-1}
		if en.dims {
			lens = nil
			for l := -1; l <= maxLen; l++ { // -1 = nil slice
				lens = append(lens, l)
			}
		}
		for _, cc := range e.confCases() {
			for _, l := range lens {
				cc, l := cc, l
				label := fmt.Sprintf("%s %s dims[%d]", en.name, cc.label, l)
				e.RunBody(key, label, 4000, func() {
					var dimsV interp.Value = interp.SliceV{}
					if l >= 0 {
						dimsV = e.intsArg(allAtoms("s", l))
					}
					args := append(en.args(e, dimsV), cc.build(e, confT))
					e.nodes = nil
					out, ok := e.call(key, label, fn, args)
					if !ok {
						return
					}
					e.did("A4.pre", key)
					gotErr := isErrVal(out.Results[1])
					if iv, isI := out.Results[0].(interp.IfaceV); gotErr && isI && interp.IsNil(iv.V) {
						e.find("A4.pre", key, "typed-nil-result", e.P.FuncPos(fn), "on the error path the Tensor result is a non-nil interface holding a nil pointer: `t == nil` checks downstream miss it and the first method call panics ["+label+"]")
					}
					switch {
					case !cc.valid && !gotErr:
						e.find("A4.pre", key, "accepts-invalid-config", e.P.FuncPos(fn), "accepts a configuration with an unsupported device ["+label+"]")
					case cc.valid && len(e.nodes) == 0:
						e.find("A4.pre", key, "bypasses-constructor", e.P.FuncPos(fn), "a valid configuration does not reach the device constructor ["+label+"]")
					case cc.valid:
						n := e.nodes[len(e.nodes)-1]
						if n.OK == gotErr {
							e.find("A4.pre", key, "result-mismatch", e.P.FuncPos(fn), "the entry point's error does not follow the device constructor's ["+label+"]")
						}
						if n.OK {
							// tracking flag plumbing: result tracked iff config asks for it
							if t, ok := e.W.AsTensor(out.Results[0]); ok {
								gs, _ := e.readGctx(t)
								want := cc.label == "CPU tracked"
								e.did("S9b.plumbing", key)
								if gs.tracked != want {
									e.find("S9b.plumbing", key, "gradtrack-flag", e.P.FuncPos(fn), fmt.Sprintf("result tracked=%v for %s", gs.tracked, cc.label))
								}
							}
						}
					}
				})
			}
		}
	}
	e.runConcatEntry()
	e.runBackPropEntry()
	e.runTensorOfEntry(confT)
}

func (e *OpEngine) runConcatEntry() {
	fn := e.fn(core.PkgTensor, "Concat")
	key := "tensor.Concat"
	if fn == nil {
		e.undecided("anchor", key, "missing", "", "entry point not found")
		return
	}
	d := allAtoms("c", 2)
	mk := func(nm string) interp.Value { return e.W.Boxed(e.mkTensor(nm, TensorArg{Dims: d, Tracked: true})) }
	cases := []struct {
		label string
		valid bool
		build func() interp.Value
	}{
		{"nil list", false, func() interp.Value { return interp.SliceV{} }},
		{"empty list", false, func() interp.Value { return e.tensorsArg() }},
		{"one tensor", false, func() interp.Value { return e.tensorsArg(mk("A")) }},
		{"nil element first", false, func() interp.Value { return e.tensorsArg(interp.NilV{}, mk("B")) }},
		{"nil element last", false, func() interp.Value { return e.tensorsArg(mk("A"), interp.NilV{}) }},
		{"two nils", false, func() interp.Value { return e.tensorsArg(interp.NilV{}, interp.NilV{}) }},
		{"two tensors", true, func() interp.Value { return e.tensorsArg(mk("A"), mk("B")) }},
		{"three tensors", true, func() interp.Value { return e.tensorsArg(mk("A"), mk("B"), mk("C")) }},
	}
	for _, c := range cases {
		c := c
		label := "Concat " + c.label
		e.RunBody(key, label, 2000, func() {
			e.M.Base = sizeBase(d)
			out, ok := e.call(key, label, fn, []interp.Value{c.build(), intV(sym.PAtom("dim"))})
			if !ok {
				return
			}
			e.did("A4.pre", key)
			if !c.valid && !isErrVal(out.Results[1]) {
				e.find("A4.pre", key, "accepts-invalid", e.P.FuncPos(fn), "accepts an invalid tensor list ["+label+"]")
			}
		})
	}
}

func (e *OpEngine) runBackPropEntry() {
	fn := e.bpFunc()
	key := "tensor.BackPropagate"
	if fn == nil {
		return
	}
	d := allAtoms("a", 1)
	for _, c := range []struct {
		label string
		valid bool
		build func() interp.Value
	}{
		{"nil tensor", false, func() interp.Value { return interp.NilV{} }},
		{"untracked leaf", true, func() interp.Value { return e.W.Boxed(e.mkTensor("A", TensorArg{Dims: d})) }},
		{"tracked leaf", true, func() interp.Value { return e.W.Boxed(e.mkTensor("A", TensorArg{Dims: d, Tracked: true})) }},
		{"spent leaf", true, func() interp.Value { return e.W.Boxed(e.mkTensor("A", TensorArg{Dims: d, Tracked: true, Dirty: true})) }},
	} {
		c := c
		label := "BackPropagate " + c.label
		e.RunBody(key, label, 200, func() {
			e.M.Base = sizeBase(d)
			out, ok := e.call(key, label, fn, []interp.Value{c.build()})
			if !ok {
				return
			}
			e.did("A4.pre", key)
			gotErr := isErrVal(out.Results[0])
			if c.valid && gotErr {
				e.find("A4.pre", key, "rejects-valid", e.P.FuncPos(fn), "returns an error for a valid tensor ["+label+"]")
			}
			if !c.valid && !gotErr {
				e.find("A4.pre", key, "accepts-invalid", e.P.FuncPos(fn), "accepts a nil tensor ["+label+"]")
			}
		})
	}
}

// genericTensorOf finds the generic function tensor.TensorOf (its body is interpreted with the type
// parameter bound per instance).
func (e *OpEngine) genericTensorOf() *ssa.Function {
	sp := e.P.SSA[core.PkgTensor]
	if sp == nil {
		return nil
	}
	return sp.Func("TensorOf")
}

func (e *OpEngine) runTensorOfEntry(confT types.Type) {
	fn := e.genericTensorOf()
	key := "tensor.TensorOf"
	if fn == nil || fn.Blocks == nil {
		e.undecided("anchor", key, "missing", "", "generic TensorOf has no body to analyse")
		return
	}
	save := e.dataMode
	e.dataMode = true
	defer func() { e.dataMode = save }()
	for _, tc := range tensorOfCases() {
		for _, cc := range e.confCases() {
			tc, cc := tc, cc
			label := fmt.Sprintf("TensorOf %s %s", tc.label, cc.label)
			e.RunBody(key, label, 400, func() {
				data := e.nestedFloats(tc.tree, nil).(interp.IfaceV)
				e.M.TypeArgs = map[string]types.Type{}
				if tps := fn.TypeParams(); tps != nil && tps.Len() > 0 {
					e.M.TypeArgs[tps.At(0).Obj().Name()] = data.T
				}
				e.nodes = nil
				e.curLabel = label
				out, ok := e.call(key, label, fn, []interp.Value{data.V, cc.build(e, confT)})
				if !ok {
					return
				}
				e.did("A4.pre", key)
				gotErr := isErrVal(out.Results[1])
				if !cc.valid && !gotErr {
					e.find("A4.pre", key, "accepts-invalid-config", e.P.FuncPos(fn), "accepts a configuration with an unsupported device ["+label+"]")
				}
				if cc.valid && len(e.nodes) == 0 {
					e.find("A4.pre", key, "bypasses-constructor", e.P.FuncPos(fn), "a valid configuration does not reach the device constructor ["+label+"]")
				}
			})
		}
	}
	e.M.TypeArgs = nil
}
