package engine

import (
	"fmt"

	"golang.org/x/tools/go/ssa"

	"qverif/core"
	"qverif/interp"
	"qverif/spec"
	"qverif/sym"
)

// Bounds of the instance enumeration for one tier.
type Bounds struct {
	UnaryRank  int // max rank for unary operations
	BinaryRank int // max rank for binary operations
	IndexRank  int // max rank for Slice / Patch
	ConcatRank int
	ConcatOps  int
}

func QuickBounds() Bounds {
	return Bounds{UnaryRank: 3, BinaryRank: 2, IndexRank: 2, ConcatRank: 2, ConcatOps: 3}
}
func ThoroughBounds() Bounds {
	return Bounds{UnaryRank: 5, BinaryRank: 3, IndexRank: 3, ConcatRank: 3, ConcatOps: 3}
}

// patterns enumerates every assignment of {1, atom} to `rank` dimensions; atoms are prefix0, prefix1, ….
func patterns(prefix string, rank int) [][]sym.Poly {
	var out [][]sym.Poly
	for mask := 0; mask < 1<<rank; mask++ {
		d := make([]sym.Poly, rank)
		for k := 0; k < rank; k++ {
			if mask&(1<<k) != 0 {
				d[k] = sym.PInt(1)
			} else {
				d[k] = sym.PAtom(fmt.Sprintf("%s%d", prefix, k))
			}
		}
		out = append(out, d)
	}
	return out
}

func allAtoms(prefix string, rank int) []sym.Poly {
	d := make([]sym.Poly, rank)
	for k := range d {
		d[k] = sym.PAtom(fmt.Sprintf("%s%d", prefix, k))
	}
	return d
}

// sizeBase returns the constraints "every size atom >= 2" for the atoms of the given shapes.
func sizeBase(shapes ...[]sym.Poly) []sym.Constraint {
	seen := map[string]bool{}
	var cs []sym.Constraint
	for _, sh := range shapes {
		for _, p := range sh {
			for _, a := range p.Atoms() {
				if !seen[a] {
					seen[a] = true
					cs = append(cs, sym.CGe(sym.PAtom(a), sym.PInt(2)))
				}
			}
		}
	}
	return cs
}

func (e *OpEngine) method(name string) *ssa.Function {
	return e.P.Func(core.PkgCPU, "(*CPUTensor)."+name)
}

func intV(p sym.Poly) interp.Value { return interp.IntV{P: p} }

func (e *OpEngine) intsArg(ps []sym.Poly) interp.Value {
	vals := make([]interp.Value, len(ps))
	for i, p := range ps {
		vals[i] = intV(p)
	}
	return e.M.SliceOf(e.A.IntT, vals, "arg")
}

func (e *OpEngine) rangesArg(rs [][2]sym.Poly) interp.Value {
	vals := make([]interp.Value, len(rs))
	for i, r := range rs {
		f := make([]interp.Value, 2)
		f[e.A.RFrom] = intV(r[0])
		f[e.A.RTo] = intV(r[1])
		vals[i] = interp.StructV{F: f}
	}
	return e.M.SliceOf(e.A.Range, vals, "index")
}

func shapeStr(d []sym.Poly) string { return polys(d) }

var pointwiseUnary = []string{"Exp", "Log", "Sin", "Cos", "Tan", "Sinh", "Cosh", "Tanh"}
var reducers = []string{"SumAlong", "MaxAlong", "MinAlong", "AvgAlong", "VarAlong", "StdAlong", "MeanAlong"}
var comparisons = []string{"Eq", "Ne", "Gt", "Ge", "Lt", "Le"}

func unaryRange(name string) (spec.Ival, bool) {
	switch name {
	case "Exp":
		return spec.Rng(-100, 100), true
	case "Log":
		return spec.Rng(1e-3, 1e6), true
	case "Tan":
		return spec.Rng(-1, 1), false // cos may vanish: finiteness not decided by intervals
	}
	return spec.Rng(-20, 20), true
}

// shapesFor picks the dimension patterns for a rank: all patterns for small ranks, extremes beyond.
func shapesFor(prefix string, rank int, full int) [][]sym.Poly {
	if rank <= full {
		return patterns(prefix, rank)
	}
	ones := make([]sym.Poly, rank)
	for k := range ones {
		ones[k] = sym.PInt(1)
	}
	mixed2 := allAtoms(prefix, rank)
	mixed2[rank/2] = sym.PInt(1)
	return [][]sym.Poly{allAtoms(prefix, rank), ones, mixed2}
}

// Instances enumerates the forward-call instances of one public method (all of them when name == "").
func (e *OpEngine) Instances(name string, b Bounds) []*Call {
	var out []*Call
	add := func(c *Call) { out = append(out, c) }
	want := func(n string) bool { return name == "" || name == n }

	/* ----- unary point-wise ----- */
	for _, op := range pointwiseUnary {
		if !want(op) {
			continue
		}
		fn := e.method(op)
		rng, fin := unaryRange(op)
		for r := 0; r <= b.UnaryRank; r++ {
			for _, d := range shapesFor("a", r, 2) {
				d := d
				add(&Call{Fn: fn, Label: fmt.Sprintf("%s recv=%s", op, shapeStr(d)), CheckGrad: true, SkipFinite: !fin,
					Build: func(e *OpEngine) []interp.Value {
						e.M.Base = sizeBase(d)
						e.LeafRng = []spec.Ival{rng}
						return []interp.Value{e.mkTensor("A", TensorArg{Dims: d, Tracked: true, Rng: rng})}
					}})
			}
		}
	}
	/* ----- Scale / Pow ----- */
	for _, op := range []string{"Scale", "Pow"} {
		if !want(op) {
			continue
		}
		fn := e.method(op)
		type ex struct {
			sym   bool
			c     float64
			rng   spec.Ival
			nofin bool
		}
		var exps []ex
		if op == "Scale" {
			exps = []ex{{sym: true, rng: spec.Rng(-1e3, 1e3)}, {c: 0, rng: spec.Rng(-1e6, 1e6)}, {c: -1, rng: spec.Rng(-1e6, 1e6)}, {c: 2.5, rng: spec.Rng(-1e6, 1e6)}}
		} else {
			exps = []ex{
				{sym: true, rng: spec.Rng(1e-3, 1e3), nofin: true},
				{c: 0, rng: spec.Rng(0, 1e3)}, {c: 1, rng: spec.Rng(0, 1e3)}, {c: 2, rng: spec.Rng(0, 1e3)},
				{c: 0, rng: spec.Rng(-1e3, 1e3)}, {c: 1, rng: spec.Rng(-1e3, 1e3)}, {c: 2, rng: spec.Rng(-1e3, 1e3)},
				{c: 3, rng: spec.Rng(-1e2, 1e2)},
				{c: -1, rng: spec.Rng(1e-3, 1e3)}, {c: -2, rng: spec.Rng(1e-3, 1e3)}, {c: 0.5, rng: spec.Rng(1e-3, 1e3)},
			}
		}
		for _, x := range exps {
			x := x
			for r := 0; r <= b.UnaryRank; r++ {
				shapes := shapesFor("a", r, 1)
				for _, d := range shapes {
					d := d
					lbl := fmt.Sprintf("%s(%v) recv=%s base∈%s", op, x.c, shapeStr(d), x.rng.String())
					if x.sym {
						lbl = fmt.Sprintf("%s(c) recv=%s", op, shapeStr(d))
					}
					add(&Call{Fn: fn, Label: lbl, CheckGrad: true, SkipFinite: x.nofin,
						Build: func(e *OpEngine) []interp.Value {
							e.M.Base = sizeBase(d)
							e.LeafRng = []spec.Ival{x.rng}
							var c interp.Value
							if x.sym {
								c = interp.FloatV{E: sym.SymE("c")}
							} else {
								c = interp.FloatC(x.c)
							}
							return []interp.Value{e.mkTensor("A", TensorArg{Dims: d, Tracked: true, Rng: x.rng}), c}
						}})
				}
			}
		}
	}
	/* ----- operations with a dim argument ----- */
	dimOps := append([]string{"UnSqueeze", "Squeeze", "Flatten"}, reducers...)
	for _, op := range dimOps {
		if !want(op) {
			continue
		}
		fn := e.method(op)
		for r := 0; r <= b.UnaryRank; r++ {
			for _, d := range shapesFor("a", r, 3) {
				d := d
				// symbolic dim: precondition and result shape for every integer argument
				add(&Call{Fn: fn, Label: fmt.Sprintf("%s(dim) recv=%s", op, shapeStr(d)), CheckGrad: false,
					Build: func(e *OpEngine) []interp.Value {
						e.M.Base = sizeBase(d)
						e.LeafRng = nil
						return []interp.Value{e.mkTensor("A", TensorArg{Dims: d, Tracked: true}), intV(sym.PAtom("dim"))}
					}})
				// concrete valid dims: gradient obligations
				hi := r - 1
				if op == "UnSqueeze" {
					hi = r
				}
				for k := 0; k <= hi; k++ {
					k := k
					if op == "Squeeze" {
						if c, ok := d[k].Const(); !ok || c != 1 {
							continue
						}
					}
					rng := spec.Rng(-1e3, 1e3)
					skipFin := op == "StdAlong" // division by the fibre's std: differentiable only where std>0
					add(&Call{Fn: fn, Label: fmt.Sprintf("%s(%d) recv=%s", op, k, shapeStr(d)), CheckGrad: true, Dim: k, SkipFinite: skipFin,
						Build: func(e *OpEngine) []interp.Value {
							e.M.Base = sizeBase(d)
							e.LeafRng = []spec.Ival{rng}
							return []interp.Value{e.mkTensor("A", TensorArg{Dims: d, Tracked: true, Rng: rng}), intV(sym.PInt(int64(k)))}
						}})
				}
			}
		}
	}
	/* ----- Transpose ----- */
	if want("Transpose") {
		fn := e.method("Transpose")
		for r := 0; r <= b.UnaryRank; r++ {
			for _, d := range shapesFor("a", r, 3) {
				d := d
				add(&Call{Fn: fn, Label: "Transpose recv=" + shapeStr(d), CheckGrad: true,
					Build: func(e *OpEngine) []interp.Value {
						e.M.Base = sizeBase(d)
						e.LeafRng = []spec.Ival{spec.Rng(-1e3, 1e3)}
						return []interp.Value{e.mkTensor("A", TensorArg{Dims: d, Tracked: true})}
					}})
			}
		}
	}
	/* ----- Reshape ----- */
	if want("Reshape") {
		fn := e.method("Reshape")
		for r := 0; r <= b.UnaryRank; r++ {
			for _, d := range shapesFor("a", r, 2) {
				d := d
				// symbolic target shapes of every length up to rank+1
				for L := 0; L <= r+1 && L <= 3; L++ {
					L := L
					add(&Call{Fn: fn, Label: fmt.Sprintf("Reshape(s[%d]) recv=%s", L, shapeStr(d)), CheckGrad: false, MaxPaths: 6000,
						Build: func(e *OpEngine) []interp.Value {
							e.M.Base = sizeBase(d)
							e.LeafRng = nil
							return []interp.Value{e.mkTensor("A", TensorArg{Dims: d, Tracked: true}), e.intsArg(allAtoms("s", L))}
						}})
				}
				// concrete valid targets
				for _, tgt := range reshapeTargets(d) {
					tgt := tgt
					add(&Call{Fn: fn, Label: fmt.Sprintf("Reshape(%s) recv=%s", shapeStr(tgt), shapeStr(d)), CheckGrad: true,
						Build: func(e *OpEngine) []interp.Value {
							e.M.Base = sizeBase(d)
							e.LeafRng = []spec.Ival{spec.Rng(-1e3, 1e3)}
							return []interp.Value{e.mkTensor("A", TensorArg{Dims: d, Tracked: true}), e.intsArg(tgt)}
						}})
				}
			}
		}
	}
	/* ----- Broadcast ----- */
	if want("Broadcast") {
		fn := e.method("Broadcast")
		for r := 0; r <= b.UnaryRank; r++ {
			for _, d := range shapesFor("a", r, 2) {
				d := d
				for L := 0; L <= r+1 && L <= 4; L++ {
					L := L
					add(&Call{Fn: fn, Label: fmt.Sprintf("Broadcast(s[%d]) recv=%s", L, shapeStr(d)), CheckGrad: false, MaxPaths: 6000,
						Build: func(e *OpEngine) []interp.Value {
							e.M.Base = sizeBase(d)
							e.LeafRng = nil
							return []interp.Value{e.mkTensor("A", TensorArg{Dims: d, Tracked: true}), e.intsArg(allAtoms("s", L))}
						}})
				}
				for _, tgt := range broadcastTargets(d, 2) {
					tgt := tgt
					add(&Call{Fn: fn, Label: fmt.Sprintf("Broadcast(%s) recv=%s", shapeStr(tgt), shapeStr(d)), CheckGrad: true,
						Build: func(e *OpEngine) []interp.Value {
							e.M.Base = sizeBase(d, tgt)
							e.LeafRng = []spec.Ival{spec.Rng(-1e3, 1e3)}
							return []interp.Value{e.mkTensor("A", TensorArg{Dims: d, Tracked: true}), e.intsArg(tgt)}
						}})
				}
			}
		}
	}
	/* ----- Slice ----- */
	if want("Slice") {
		fn := e.method("Slice")
		for r := 0; r <= b.IndexRank; r++ {
			for _, d := range shapesFor("a", r, 2) {
				d := d
				for L := 0; L <= r+1; L++ {
					L := L
					add(&Call{Fn: fn, Label: fmt.Sprintf("Slice(index[%d]) recv=%s", L, shapeStr(d)), CheckGrad: true, MaxPaths: 20000,
						Build: func(e *OpEngine) []interp.Value {
							e.M.Base = sizeBase(d)
							e.LeafRng = []spec.Ival{spec.Rng(-1e3, 1e3)}
							return []interp.Value{e.mkTensor("A", TensorArg{Dims: d, Tracked: true}), e.rangesArg(symRanges(L))}
						}})
				}
			}
		}
	}
	/* ----- Patch ----- */
	if want("Patch") {
		fn := e.method("Patch")
		for r := 0; r <= b.IndexRank; r++ {
			for _, d := range shapesFor("a", r, 1) {
				d := d
				for _, du := range patchSources(d) {
					du := du
					for L := 0; L <= r+1; L++ {
						L := L
						add(&Call{Fn: fn, Label: fmt.Sprintf("Patch(index[%d], src=%s) recv=%s", L, shapeStr(du), shapeStr(d)), CheckGrad: true, MaxPaths: 40000,
							Build: func(e *OpEngine) []interp.Value {
								e.M.Base = sizeBase(d, du)
								e.LeafRng = []spec.Ival{spec.Rng(-1e3, 1e3), spec.Rng(-1e3, 1e3)}
								t := e.mkTensor("A", TensorArg{Dims: d, Tracked: true})
								u := e.mkTensor("B", TensorArg{Dims: du, Tracked: true})
								return []interp.Value{t, e.rangesArg(symRanges(L)), e.W.Boxed(u)}
							}})
					}
				}
			}
		}
		// nil / rank-mismatched source
		d := allAtoms("a", 1)
		add(&Call{Fn: fn, Label: "Patch(nil source)", Build: func(e *OpEngine) []interp.Value {
			e.M.Base = sizeBase(d)
			return []interp.Value{e.mkTensor("A", TensorArg{Dims: d}), e.rangesArg(nil), interp.NilV{}}
		}})
		add(&Call{Fn: fn, Label: "Patch(rank mismatch)", Build: func(e *OpEngine) []interp.Value {
			d2 := allAtoms("b", 2)
			e.M.Base = sizeBase(d, d2)
			return []interp.Value{e.mkTensor("A", TensorArg{Dims: d}), e.rangesArg(nil), e.W.Boxed(e.mkTensor("B", TensorArg{Dims: d2}))}
		}})
	}
	/* ----- binary same-shape: comparisons, ElMax, ElMin ----- */
	sameShape := append(append([]string{}, comparisons...), "ElMax", "ElMin")
	for _, op := range sameShape {
		if !want(op) {
			continue
		}
		fn := e.method(op)
		grad := op == "ElMax" || op == "ElMin"
		var cases []FactCase
		if grad {
			mkCase := func(nm string, s sym.Sign) FactCase {
				return FactCase{Name: nm, Facts: func(e *OpEngine) sym.Facts {
					// the sign of A[#]-B[#] at the same position, for every rank in use
					f := sym.Facts{}
					for r := 0; r <= 6; r++ {
						f[sym.Sub(sym.LeafE("A", spec.IdentIdx(r)), sym.LeafE("B", spec.IdentIdx(r))).Key()] = s
					}
					return f
				}}
			}
			cases = []FactCase{mkCase("a>b", sym.SignBigPos), mkCase("a<b", sym.SignBigNeg), mkCase("tie", sym.SignZero)}
		}
		for r := 0; r <= b.BinaryRank+1 && r <= b.UnaryRank; r++ {
			for _, d := range shapesFor("a", r, 2) {
				d := d
				// operand shapes: identical; differing in one size; differing in rank
				variants := [][]sym.Poly{d}
				if r > 0 {
					v := append([]sym.Poly{}, d...)
					v[r-1] = sym.PAtom("b9")
					variants = append(variants, v, d[:r-1])
				}
				variants = append(variants, append(append([]sym.Poly{}, d...), sym.PAtom("b8")))
				for vi, du := range variants {
					du := du
					add(&Call{Fn: fn, Label: fmt.Sprintf("%s recv=%s arg=%s", op, shapeStr(d), shapeStr(du)), CheckGrad: grad && vi == 0, Cases: cases,
						Build: func(e *OpEngine) []interp.Value {
							e.M.Base = sizeBase(d, du)
							e.LeafRng = []spec.Ival{spec.Rng(-1e3, 1e3), spec.Rng(-1e3, 1e3)}
							t := e.mkTensor("A", TensorArg{Dims: d, Tracked: true})
							u := e.mkTensor("B", TensorArg{Dims: du, Tracked: true})
							return []interp.Value{t, e.W.Boxed(u)}
						}})
				}
			}
		}
		add(&Call{Fn: fn, Label: op + "(nil)", Build: func(e *OpEngine) []interp.Value {
			d := allAtoms("a", 1)
			e.M.Base = sizeBase(d)
			return []interp.Value{e.mkTensor("A", TensorArg{Dims: d}), interp.NilV{}}
		}})
	}
	/* ----- binary broadcasting arithmetic ----- */
	for _, op := range []string{"Add", "Sub", "Mul", "Div"} {
		if !want(op) {
			continue
		}
		fn := e.method(op)
		rngA, rngB := spec.Rng(-1e3, 1e3), spec.Rng(-1e3, 1e3)
		if op == "Div" {
			rngB = spec.Rng(1e-3, 1e3)
		}
		for ra := 0; ra <= b.BinaryRank; ra++ {
			for rb := 0; rb <= b.BinaryRank; rb++ {
				for _, pair := range broadcastPairs(ra, rb) {
					da, db := pair[0], pair[1]
					add(&Call{Fn: fn, Label: fmt.Sprintf("%s recv=%s arg=%s", op, shapeStr(da), shapeStr(db)), CheckGrad: true,
						Build: func(e *OpEngine) []interp.Value {
							e.M.Base = sizeBase(da, db)
							e.LeafRng = []spec.Ival{rngA, rngB}
							t := e.mkTensor("A", TensorArg{Dims: da, Tracked: true, Rng: rngA})
							u := e.mkTensor("B", TensorArg{Dims: db, Tracked: true, Rng: rngB})
							return []interp.Value{t, e.W.Boxed(u)}
						}})
					// the same pair with constant (untracked) operands: values and shapes may not depend on tracking
					add(&Call{Fn: fn, Label: fmt.Sprintf("%s recv=%s arg=%s untracked", op, shapeStr(da), shapeStr(db)),
						Build: func(e *OpEngine) []interp.Value {
							e.M.Base = sizeBase(da, db)
							e.LeafRng = []spec.Ival{rngA, rngB}
							t := e.mkTensor("A", TensorArg{Dims: da, Rng: rngA})
							u := e.mkTensor("B", TensorArg{Dims: db, Rng: rngB})
							return []interp.Value{t, e.W.Boxed(u)}
						}})
				}
			}
		}
		add(&Call{Fn: fn, Label: op + "(nil)", Build: func(e *OpEngine) []interp.Value {
			d := allAtoms("a", 1)
			e.M.Base = sizeBase(d)
			return []interp.Value{e.mkTensor("A", TensorArg{Dims: d}), interp.NilV{}}
		}})
	}
	/* ----- Dot / MatMul ----- */
	for _, op := range []string{"Dot", "MatMul"} {
		if !want(op) {
			continue
		}
		fn := e.method(op)
		maxR := b.BinaryRank + 1
		for ra := 0; ra <= maxR; ra++ {
			for rb := 0; rb <= maxR; rb++ {
				for _, pair := range contractionPairs(op, ra, rb) {
					da, db := pair[0], pair[1]
					add(&Call{Fn: fn, Label: fmt.Sprintf("%s recv=%s arg=%s", op, shapeStr(da), shapeStr(db)), CheckGrad: true, MaxPaths: 8000,
						Build: func(e *OpEngine) []interp.Value {
							e.M.Base = sizeBase(da, db)
							e.LeafRng = []spec.Ival{spec.Rng(-1e3, 1e3), spec.Rng(-1e3, 1e3)}
							t := e.mkTensor("A", TensorArg{Dims: da, Tracked: true})
							u := e.mkTensor("B", TensorArg{Dims: db, Tracked: true})
							return []interp.Value{t, e.W.Boxed(u)}
						}})
				}
			}
		}
		add(&Call{Fn: fn, Label: op + "(nil)", Build: func(e *OpEngine) []interp.Value {
			d := allAtoms("a", 2)
			e.M.Base = sizeBase(d)
			return []interp.Value{e.mkTensor("A", TensorArg{Dims: d}), interp.NilV{}}
		}})
	}
	/* ----- Concat ----- */
	if want("Concat") {
		fn := e.P.Func(core.PkgCPU, "Concat")
		for r := 1; r <= b.ConcatRank; r++ {
			for nops := 2; nops <= b.ConcatOps; nops++ {
				for _, base := range shapesFor("c", r, 2) {
					// symbolic dim: precondition / shape
					mk := func(dimv func() interp.Value, label string, grad bool, k int, mismatch int) {
						add(&Call{Fn: fn, Label: label, CheckGrad: grad, Dim: k, MaxPaths: 8000,
							Build: func(e *OpEngine) []interp.Value {
								var shapes [][]sym.Poly
								vals := make([]interp.Value, nops)
								e.LeafRng = nil
								for i := 0; i < nops; i++ {
									d := append([]sym.Poly{}, base...)
									if k >= 0 && k < r {
										d[k] = sym.PAtom(fmt.Sprintf("w%d", i))
										if i == 1 {
											d[k] = sym.PInt(1)
										}
									}
									if mismatch == 1 && i == nops-1 {
										d[(k+1+r)%r] = sym.PAtom("zz")
									}
									if mismatch == 2 && i == nops-1 {
										d = append(d, sym.PAtom("zz"))
									}
									shapes = append(shapes, d)
									e.LeafRng = append(e.LeafRng, spec.Rng(-1e3, 1e3))
									vals[i] = e.W.Boxed(e.mkTensor(roleName(i), TensorArg{Dims: d, Tracked: true}))
								}
								e.M.Base = sizeBase(shapes...)
								return []interp.Value{e.M.SliceOf(e.A.TensorIface, vals, "ts"), dimv()}
							}})
					}
					mk(func() interp.Value { return intV(sym.PAtom("dim")) }, fmt.Sprintf("Concat(%d ops, dim) base=%s", nops, shapeStr(base)), false, 0, 0)
					for k := 0; k < r; k++ {
						k := k
						mk(func() interp.Value { return intV(sym.PInt(int64(k))) }, fmt.Sprintf("Concat(%d ops, %d) base=%s", nops, k, shapeStr(base)), true, k, 0)
						if r >= 2 {
							mk(func() interp.Value { return intV(sym.PInt(int64(k))) }, fmt.Sprintf("Concat(%d ops, %d) base=%s size-mismatch", nops, k, shapeStr(base)), false, k, 1)
						}
						mk(func() interp.Value { return intV(sym.PInt(int64(k))) }, fmt.Sprintf("Concat(%d ops, %d) base=%s rank-mismatch", nops, k, shapeStr(base)), false, k, 2)
					}
				}
			}
		}
	}
	/* ----- every subset of tracked operands (multi-operand operations, representative shapes) ----- */
	type multi struct {
		name   string
		shapes [][]sym.Poly
		build  func(e *OpEngine, ts []interp.PtrV) []interp.Value
		pkgFn  bool
		dim    int
		cases  bool
	}
	d2 := allAtoms("a", 2)
	binArgs := func(e *OpEngine, ts []interp.PtrV) []interp.Value { return []interp.Value{ts[0], e.W.Boxed(ts[1])} }
	var multis []multi
	for _, op := range []string{"Add", "Sub", "Mul", "Div", "ElMax", "ElMin", "Dot"} {
		multis = append(multis, multi{name: op, shapes: [][]sym.Poly{d2, d2}, build: binArgs, cases: op == "ElMax" || op == "ElMin"})
	}
	multis = append(multis,
		multi{name: "Add", shapes: [][]sym.Poly{d2, {sym.PAtom("a1")}}, build: binArgs},
		multi{name: "Mul", shapes: [][]sym.Poly{{sym.PInt(1)}, d2}, build: binArgs},
		multi{name: "MatMul", shapes: [][]sym.Poly{d2, {sym.PAtom("a1"), sym.PAtom("k")}}, build: binArgs},
		multi{name: "MatMul", shapes: [][]sym.Poly{{sym.PAtom("b"), sym.PAtom("a0"), sym.PAtom("a1")}, {sym.PAtom("a1"), sym.PAtom("k")}}, build: binArgs},
		multi{name: "Patch", shapes: [][]sym.Poly{d2, {sym.PInt(1), sym.PAtom("a1")}}, build: func(e *OpEngine, ts []interp.PtrV) []interp.Value {
			return []interp.Value{ts[0], e.rangesArg(symRanges(1)), e.W.Boxed(ts[1])}
		}},
	)
	for nops := 2; nops <= b.ConcatOps; nops++ {
		for k := 0; k < 2; k++ {
			var shapes [][]sym.Poly
			for i := 0; i < nops; i++ {
				d := allAtoms("c", 2)
				d[k] = sym.PAtom(fmt.Sprintf("w%d", i))
				shapes = append(shapes, d)
			}
			multis = append(multis, multi{name: "Concat", shapes: shapes, pkgFn: true, dim: k, build: func(e *OpEngine, ts []interp.PtrV) []interp.Value {
				vals := make([]interp.Value, len(ts))
				for i, t := range ts {
					vals[i] = e.W.Boxed(t)
				}
				return []interp.Value{e.M.SliceOf(e.A.TensorIface, vals, "ts"), intV(sym.PInt(int64(k)))}
			}})
		}
	}
	for _, mu := range multis {
		if !want(mu.name) {
			continue
		}
		var fn *ssa.Function
		if mu.pkgFn {
			fn = e.P.Func(core.PkgCPU, mu.name)
		} else {
			fn = e.method(mu.name)
		}
		n := len(mu.shapes)
		var cases []FactCase
		if mu.cases {
			mkCase := func(nm string, sg sym.Sign) FactCase {
				return FactCase{Name: nm, Facts: func(e *OpEngine) sym.Facts {
					f := sym.Facts{}
					for r := 0; r <= 6; r++ {
						f[sym.Sub(sym.LeafE("A", spec.IdentIdx(r)), sym.LeafE("B", spec.IdentIdx(r))).Key()] = sg
					}
					return f
				}}
			}
			cases = []FactCase{mkCase("a>b", sym.SignBigPos), mkCase("a<b", sym.SignBigNeg)}
		}
		for mask := 1; mask < (1<<n)-1; mask++ {
			lbl := mu.name + " tracked-subset{"
			for i := 0; i < n; i++ {
				if mask&(1<<i) != 0 {
					lbl += fmt.Sprintf("%d", i)
				}
			}
			lbl += "} shapes="
			for _, sh := range mu.shapes {
				lbl += shapeStr(sh)
			}
			add(&Call{Fn: fn, Label: lbl, CheckGrad: true, Dim: mu.dim, Cases: cases, MaxPaths: 8000,
				Build: func(e *OpEngine) []interp.Value {
					e.M.Base = sizeBase(mu.shapes...)
					e.LeafRng = nil
					ts := make([]interp.PtrV, n)
					for i := range ts {
						rng := spec.Rng(-1e3, 1e3)
						if mu.name == "Div" && i == 1 {
							rng = spec.Rng(1e-3, 1e3)
						}
						e.LeafRng = append(e.LeafRng, rng)
						ts[i] = e.mkTensor(roleName(i), TensorArg{Dims: mu.shapes[i], Tracked: mask&(1<<i) != 0, Rng: rng})
					}
					return mu.build(e, ts)
				}})
		}
	}
	return out
}

func symRanges(n int) [][2]sym.Poly {
	out := make([][2]sym.Poly, n)
	for i := range out {
		out[i] = [2]sym.Poly{sym.PAtom(fmt.Sprintf("f%d", i)), sym.PAtom(fmt.Sprintf("t%d", i))}
	}
	return out
}

// reshapeTargets lists element-count-preserving target shapes derived from d.
func reshapeTargets(d []sym.Poly) [][]sym.Poly {
	var out [][]sym.Poly
	out = append(out, append([]sym.Poly{}, d...))
	// flatten everything
	p := sym.PInt(1)
	for _, x := range d {
		p = p.Mul(x)
	}
	out = append(out, []sym.Poly{p})
	// insert a unit axis in front / at the end
	out = append(out, append([]sym.Poly{sym.PInt(1)}, d...))
	out = append(out, append(append([]sym.Poly{}, d...), sym.PInt(1)))
	// merge the first two axes
	if len(d) >= 2 {
		m := append([]sym.Poly{d[0].Mul(d[1])}, d[2:]...)
		out = append(out, m)
		// swap the first two sizes (same element count, different view)
		s := append([]sym.Poly{d[1], d[0]}, d[2:]...)
		out = append(out, s)
	}
	// drop unit axes
	var nz []sym.Poly
	for _, x := range d {
		if c, ok := x.Const(); !(ok && c == 1) {
			nz = append(nz, x)
		}
	}
	if len(nz) != len(d) {
		out = append(out, nz)
	}
	return out
}

// broadcastTargets lists valid broadcast targets of d: every subset of unit axes expanded, with 0..lead new
// leading axes (each new axis a fresh atom, or 1).
func broadcastTargets(d []sym.Poly, lead int) [][]sym.Poly {
	var units []int
	for k, x := range d {
		if c, ok := x.Const(); ok && c == 1 {
			units = append(units, k)
		}
	}
	var out [][]sym.Poly
	for mask := 0; mask < 1<<len(units); mask++ {
		base := append([]sym.Poly{}, d...)
		for i, k := range units {
			if mask&(1<<i) != 0 {
				base[k] = sym.PAtom(fmt.Sprintf("e%d", k))
			}
		}
		for l := 0; l <= lead; l++ {
			pre := make([]sym.Poly, l)
			for i := range pre {
				pre[i] = sym.PAtom(fmt.Sprintf("n%d", i))
			}
			out = append(out, append(append([]sym.Poly{}, pre...), base...))
			if l == 1 {
				out = append(out, append([]sym.Poly{sym.PInt(1)}, base...))
			}
		}
	}
	return out
}

// patchSources lists source shapes for a Patch target d: per axis the same size, 1, or a distinct atom.
func patchSources(d []sym.Poly) [][]sym.Poly {
	r := len(d)
	var out [][]sym.Poly
	n := 1
	for i := 0; i < r; i++ {
		n *= 3
	}
	for code := 0; code < n; code++ {
		du := make([]sym.Poly, r)
		c := code
		dup := false
		for k := 0; k < r; k++ {
			switch c % 3 {
			case 0:
				du[k] = d[k]
			case 1:
				du[k] = sym.PInt(1)
				if x, ok := d[k].Const(); ok && x == 1 {
					dup = true
				}
			case 2:
				du[k] = sym.PAtom(fmt.Sprintf("b%d", k))
			}
			c /= 3
		}
		if !dup {
			out = append(out, du)
		}
	}
	return out
}

// broadcastPairs lists operand shape pairs for a broadcasting binary operation: each axis of either operand is
// 1 or an atom; aligned axes share the atom, or use distinct atoms (the incompatible case).
func broadcastPairs(ra, rb int) [][2][]sym.Poly {
	R := ra
	if rb > R {
		R = rb
	}
	// per aligned position (from the right): codes for (a,b): 0:(x,x) 1:(x,1) 2:(1,x) 3:(1,1) 4:(x,y)
	var out [][2][]sym.Poly
	var rec func(pos int, da, db []sym.Poly, incompat int)
	rec = func(pos int, da, db []sym.Poly, incompat int) {
		if pos == R {
			a := append([]sym.Poly{}, da...)
			bb := append([]sym.Poly{}, db...)
			out = append(out, [2][]sym.Poly{a, bb})
			return
		}
		// pos counts from the left of the aligned frame
		ia := pos - (R - ra)
		ib := pos - (R - rb)
		x := sym.PAtom(fmt.Sprintf("x%d", pos))
		y := sym.PAtom(fmt.Sprintf("y%d", pos))
		one := sym.PInt(1)
		switch {
		case ia >= 0 && ib >= 0:
			rec(pos+1, append(da, x), append(db, x), incompat)
			rec(pos+1, append(da, x), append(db, one), incompat)
			rec(pos+1, append(da, one), append(db, x), incompat)
			rec(pos+1, append(da, one), append(db, one), incompat)
			if incompat == 0 {
				rec(pos+1, append(da, x), append(db, y), 1)
			}
		case ia >= 0:
			rec(pos+1, append(da, x), db, incompat)
			rec(pos+1, append(da, one), db, incompat)
		default:
			rec(pos+1, da, append(db, x), incompat)
			rec(pos+1, da, append(db, one), incompat)
		}
	}
	rec(0, nil, nil, 0)
	return out
}

// contractionPairs lists operand shape pairs for Dot / MatMul.
func contractionPairs(op string, ra, rb int) [][2][]sym.Poly {
	minR := 1
	if op == "MatMul" {
		minR = 2
	}
	var out [][2][]sym.Poly
	if ra < minR || rb < minR {
		// rank too small: one representative
		out = append(out, [2][]sym.Poly{allAtoms("p", ra), allAtoms("q", rb)})
		return out
	}
	nba, nbb := ra-minR, rb-minR
	for _, bp := range broadcastPairs(nba, nbb) {
		n := sym.PAtom("n")
		m := sym.PAtom("m")
		k := sym.PAtom("k")
		one := sym.PInt(1)
		if op == "Dot" {
			for _, last := range [][2]sym.Poly{{n, n}, {one, one}, {n, sym.PAtom("n2")}} {
				a := append(append([]sym.Poly{}, bp[0]...), last[0])
				b := append(append([]sym.Poly{}, bp[1]...), last[1])
				out = append(out, [2][]sym.Poly{a, b})
			}
			continue
		}
		for _, mm := range [][4]sym.Poly{{m, n, n, k}, {one, n, n, one}, {m, one, one, k}, {m, n, sym.PAtom("n2"), k}} {
			a := append(append([]sym.Poly{}, bp[0]...), mm[0], mm[1])
			b := append(append([]sym.Poly{}, bp[1]...), mm[2], mm[3])
			out = append(out, [2][]sym.Poly{a, b})
		}
	}
	return out
}

/* ---------- tracking-flag instances (C08) ---------- */

type flagCombo struct{ tracked, dirty bool }

var flagCombos = []flagCombo{{true, false}, {false, false}, {true, true}, {false, true}}

// FlagInstances enumerates, for every public operation on one representative shape, every combination of
// (tracked, spent) flags of its tensor operands.  Gradient obligations are off: only the state rules run.
func (e *OpEngine) FlagInstances() []*Call {
	var out []*Call
	d2 := allAtoms("a", 2)
	unit := []sym.Poly{sym.PAtom("a0"), sym.PInt(1)}
	type mk func(e *OpEngine, ts []interp.PtrV) []interp.Value
	type opdef struct {
		name   string
		nT     int
		shapes [][]sym.Poly
		args   mk
		pkgFn  bool
	}
	un := func(extra func(e *OpEngine) []interp.Value) mk {
		return func(e *OpEngine, ts []interp.PtrV) []interp.Value {
			a := []interp.Value{ts[0]}
			if extra != nil {
				a = append(a, extra(e)...)
			}
			return a
		}
	}
	bin := func(e *OpEngine, ts []interp.PtrV) []interp.Value { return []interp.Value{ts[0], e.W.Boxed(ts[1])} }
	var defs []opdef
	for _, n := range pointwiseUnary {
		defs = append(defs, opdef{name: n, nT: 1, shapes: [][]sym.Poly{d2}, args: un(nil)})
	}
	defs = append(defs,
		opdef{name: "Scale", nT: 1, shapes: [][]sym.Poly{d2}, args: un(func(e *OpEngine) []interp.Value { return []interp.Value{interp.FloatC(2)} })},
		opdef{name: "Pow", nT: 1, shapes: [][]sym.Poly{d2}, args: un(func(e *OpEngine) []interp.Value { return []interp.Value{interp.FloatC(2)} })},
		opdef{name: "Transpose", nT: 1, shapes: [][]sym.Poly{d2}, args: un(nil)},
		opdef{name: "UnSqueeze", nT: 1, shapes: [][]sym.Poly{d2}, args: un(func(e *OpEngine) []interp.Value { return []interp.Value{intV(sym.PInt(1))} })},
		opdef{name: "Squeeze", nT: 1, shapes: [][]sym.Poly{unit}, args: un(func(e *OpEngine) []interp.Value { return []interp.Value{intV(sym.PInt(1))} })},
		opdef{name: "Flatten", nT: 1, shapes: [][]sym.Poly{d2}, args: un(func(e *OpEngine) []interp.Value { return []interp.Value{intV(sym.PInt(0))} })},
		opdef{name: "Reshape", nT: 1, shapes: [][]sym.Poly{d2}, args: un(func(e *OpEngine) []interp.Value {
			return []interp.Value{e.intsArg([]sym.Poly{sym.PAtom("a0").Mul(sym.PAtom("a1"))})}
		})},
		opdef{name: "Broadcast", nT: 1, shapes: [][]sym.Poly{unit}, args: un(func(e *OpEngine) []interp.Value {
			return []interp.Value{e.intsArg([]sym.Poly{sym.PAtom("n0"), sym.PAtom("a0"), sym.PAtom("e1")})}
		})},
		opdef{name: "Slice", nT: 1, shapes: [][]sym.Poly{d2}, args: un(func(e *OpEngine) []interp.Value { return []interp.Value{e.rangesArg(nil)} })},
	)
	for _, n := range reducers {
		defs = append(defs, opdef{name: n, nT: 1, shapes: [][]sym.Poly{d2}, args: un(func(e *OpEngine) []interp.Value { return []interp.Value{intV(sym.PInt(1))} })})
	}
	for _, n := range append(append([]string{}, comparisons...), "ElMax", "ElMin", "Add", "Sub", "Mul", "Div", "Dot") {
		defs = append(defs, opdef{name: n, nT: 2, shapes: [][]sym.Poly{d2, d2}, args: bin})
	}
	defs = append(defs,
		opdef{name: "Add", nT: 2, shapes: [][]sym.Poly{d2, {sym.PAtom("a1")}}, args: bin}, // implicit expansion
		opdef{name: "MatMul", nT: 2, shapes: [][]sym.Poly{d2, {sym.PAtom("a1"), sym.PAtom("k")}}, args: bin},
		opdef{name: "MatMul", nT: 2, shapes: [][]sym.Poly{{sym.PAtom("b"), sym.PAtom("a0"), sym.PAtom("a1")}, {sym.PAtom("a1"), sym.PAtom("k")}}, args: bin},
		opdef{name: "Patch", nT: 2, shapes: [][]sym.Poly{d2, d2}, args: func(e *OpEngine, ts []interp.PtrV) []interp.Value {
			return []interp.Value{ts[0], e.rangesArg(nil), e.W.Boxed(ts[1])}
		}},
		opdef{name: "Concat", nT: 2, pkgFn: true, shapes: [][]sym.Poly{d2, d2}, args: func(e *OpEngine, ts []interp.PtrV) []interp.Value {
			return []interp.Value{e.M.SliceOf(e.A.TensorIface, []interp.Value{e.W.Boxed(ts[0]), e.W.Boxed(ts[1])}, "ts"), intV(sym.PInt(0))}
		}},
		opdef{name: "Concat", nT: 3, pkgFn: true, shapes: [][]sym.Poly{d2, d2, d2}, args: func(e *OpEngine, ts []interp.PtrV) []interp.Value {
			return []interp.Value{e.M.SliceOf(e.A.TensorIface, []interp.Value{e.W.Boxed(ts[0]), e.W.Boxed(ts[1]), e.W.Boxed(ts[2])}, "ts"), intV(sym.PInt(1))}
		}},
	)
	for _, d := range defs {
		var fn *ssa.Function
		if d.pkgFn {
			fn = e.P.Func(core.PkgCPU, d.name)
		} else {
			fn = e.method(d.name)
		}
		n := 1
		for i := 0; i < d.nT; i++ {
			n *= len(flagCombos)
		}
		for code := 0; code < n; code++ {
			flags := make([]flagCombo, d.nT)
			c := code
			lbl := d.name
			for i := range flags {
				flags[i] = flagCombos[c%len(flagCombos)]
				c /= len(flagCombos)
				lbl += fmt.Sprintf(" op%d(tracked=%v,spent=%v)", i, flags[i].tracked, flags[i].dirty)
			}
			add := &Call{Fn: fn, Label: lbl, CheckGrad: false,
				Build: func(e *OpEngine) []interp.Value {
					e.M.Base = sizeBase(d.shapes...)
					e.LeafRng = nil
					ts := make([]interp.PtrV, d.nT)
					for i := range ts {
						ts[i] = e.mkTensor(roleName(i), TensorArg{Dims: d.shapes[i], Tracked: flags[i].tracked, Dirty: flags[i].dirty})
					}
					return d.args(e, ts)
				}}
			out = append(out, add)
		}
	}
	return out
}

// ResetInstances: ResetGradContext(b) on tensors in every state.
func (e *OpEngine) RunResetChecks() {
	fn := e.method("ResetGradContext")
	key := "cputensor.(*CPUTensor).ResetGradContext"
	if fn == nil {
		e.undecided("anchor", key, "missing", "", "ResetGradContext not found")
		return
	}
	d := allAtoms("a", 1)
	for _, fc := range flagCombos {
		for _, withGrad := range []bool{false, true} {
			for _, want := range []bool{false, true} {
				_, err := e.M.Explore(16, func() {
					e.Begin()
					e.M.Base = sizeBase(d)
					t := e.mkTensor("A", TensorArg{Dims: d, Tracked: fc.tracked, Dirty: fc.dirty})
					oldG, _ := e.W.GctxOf(t)
					if withGrad {
						gt := e.mkTensor("G", TensorArg{Dims: d})
						interp.Store(oldG.C.Fields[e.A.GGradient], e.W.Boxed(gt))
					}
					out := e.M.Run(func() interp.Value { return e.M.Call(fn, []interp.Value{t, interp.BoolC(want)}, nil) })
					e.did("C08.reset", key)
					if out.Kind != interp.Returned {
						e.find("C08.reset", key, "panic", e.P.FuncPos(fn), "ResetGradContext panics: "+out.Panic.Msg)
						return
					}
					gs, ok := e.readGctx(t)
					if !ok || !gs.known {
						e.find("C08.reset", key, "no-context", e.P.FuncPos(fn), "no readable context after ResetGradContext")
						return
					}
					if gs.tracked != want || gs.dirty || !gs.gradNil || len(gs.edges) != 0 {
						e.find("C08.reset", key, "not-a-fresh-leaf", e.P.FuncPos(fn),
							fmt.Sprintf("after ResetGradContext(%v) on a tensor (tracked=%v spent=%v gradient=%v) the context is tracked=%v spent=%v gradient-nil=%v edges=%d, expected a fresh leaf",
								want, fc.tracked, fc.dirty, withGrad, gs.tracked, gs.dirty, gs.gradNil, len(gs.edges)))
					}
					if ng, ok := e.W.GctxOf(t); ok && ng.C == oldG.C && (fc.dirty || withGrad) {
						// reusing the old context object is fine only if it was fully reset (checked above)
						_ = ng
					}
				})
				if err != nil {
					e.undecided("interp", key, "unsupported", "", err.Error())
				}
			}
		}
	}
}

// RunAccessorTotality: the accessors and predicates that are not tensor-producing operations (Gradient,
// GradContext, NElems, Shape, Equals) return without panicking in every tracking state and for nil /
// mismatched arguments.
func (e *OpEngine) RunAccessorTotality() {
	d := allAtoms("a", 2)
	for _, name := range []string{"Gradient", "GradContext", "NElems", "Shape"} {
		fn := e.method(name)
		key := "cputensor.(*CPUTensor)." + name
		if fn == nil {
			e.undecided("anchor", key, "missing", "", name+" not found")
			continue
		}
		for _, fc := range flagCombos {
			for _, withGrad := range []bool{false, true} {
				fc, withGrad := fc, withGrad
				label := fmt.Sprintf("%s tracked=%v spent=%v gradient=%v", name, fc.tracked, fc.dirty, withGrad)
				e.RunBody(key, label, 16, func() {
					e.M.Base = sizeBase(d)
					t := e.mkTensor("A", TensorArg{Dims: d, Tracked: fc.tracked, Dirty: fc.dirty})
					if withGrad {
						g, _ := e.W.GctxOf(t)
						interp.Store(g.C.Fields[e.A.GGradient], e.W.Boxed(e.mkTensor("G", TensorArg{Dims: d})))
					}
					e.call(key, label, fn, []interp.Value{t})
				})
			}
		}
	}
	if fn := e.method("Equals"); fn != nil {
		key := "cputensor.(*CPUTensor).Equals"
		for _, c := range []struct {
			label string
			arg   func() interp.Value
			valid bool
		}{
			{"nil argument", func() interp.Value { return interp.NilV{} }, false},
			{"rank mismatch", func() interp.Value { return e.W.Boxed(e.mkTensor("B", TensorArg{Dims: d[:1]})) }, false},
			{"size mismatch", func() interp.Value {
				return e.W.Boxed(e.mkTensor("B", TensorArg{Dims: []sym.Poly{d[0], sym.PAtom("other")}}))
			}, false},
		} {
			c := c
			label := "Equals " + c.label
			e.RunBody(key, label, 64, func() {
				e.M.Base = append(sizeBase(d), sym.CGe(sym.PAtom("other"), sym.PInt(2)))
				t := e.mkTensor("A", TensorArg{Dims: d})
				out, ok := e.call(key, label, fn, []interp.Value{t, c.arg()})
				if !ok || len(out.Results) != 2 {
					return
				}
				if c.label == "size mismatch" && e.M.Entailed(sym.IntCond(sym.CEq(sym.PAtom("other"), d[1]))) {
					return
				}
				e.did("A4.pre", key)
				if !isErrVal(out.Results[1]) {
					e.find("A4.pre", key, "accepts-invalid", e.P.FuncPos(fn), "Equals accepts an invalid argument ("+c.label+")")
				}
			})
		}
	}
}
