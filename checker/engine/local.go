package engine

import (
	"fmt"
	"hash/fnv"
	"math"
	"os"
	"sort"
	"strings"

	"golang.org/x/tools/go/ssa"

	"qverif/core"
	"qverif/interp"
	"qverif/spec"
	"qverif/sym"
)

// Call is one top-level forward call instance.
type Call struct {
	Fn        *ssa.Function
	Label     string
	Build     func(e *OpEngine) []interp.Value
	CheckGrad bool
	MaxPaths  int
	// Facts, when non-nil, gives the order cases under which the gradient obligations are evaluated
	// (role-leaf expressions → sign); each case re-runs the whole instance.
	Cases []FactCase
	// Dim is the concrete dim argument for reducers/concat (set by the builder when it is concrete).
	Dim int
	// SkipFinite disables the A3 obligation for this instance.
	SkipFinite bool
	// OnReturn, when set, receives the top-level outcome of each path (for entry-point level specs).
	OnReturn func(e *OpEngine, out interp.Outcome)
}

type FactCase struct {
	Name  string
	Facts func(e *OpEngine) sym.Facts
}

// RunInstance explores every abstract path of the call and performs all obligations on each.
func (e *OpEngine) RunInstance(c *Call) {
	cases := c.Cases
	if len(cases) == 0 {
		cases = []FactCase{{Name: ""}}
	}
	for _, fc := range cases {
		maxPaths := c.MaxPaths
		if maxPaths == 0 {
			maxPaths = 3000
		}
		key := core.FuncKey(c.Fn)
		_, err := e.M.Explore(maxPaths, func() {
			e.Begin()
			sym.ActiveFacts = nil
			args := c.Build(e)
			e.curMethod = c.Fn.Name()
			e.curExpanding = e.expanding(c.Fn.Name(), args)
			if fc.Facts != nil {
				sym.ActiveFacts = fc.Facts(e)
			}
			defer func() { sym.ActiveFacts = nil }()
			e.baseline, e.watch = e.M.CellSeq(), true
			out := e.M.Run(func() interp.Value { return e.M.Call(c.Fn, args, nil) })
			e.watch = false
			e.Paths++
			e.did("S6.panic", key)
			switch out.Kind {
			case interp.Panicked:
				e.find("S6.panic", key, "panic:"+panicClass(out.Panic.Msg), e.P.Pos(out.Panic.Pos),
					fmt.Sprintf("public call panics in %s: %s [instance %s]", shortFn(out.Panic.Fn), out.Panic.Msg, c.Label))
				return
			case interp.Diverged:
				e.find("S6.hang", key, "no-termination", e.P.FuncPos(c.Fn), "step budget exhausted: possible non-termination [instance "+c.Label+"]")
				return
			}
			if c.OnReturn != nil {
				c.OnReturn(e, out)
			}
			for _, n := range e.nodes {
				if n.OK {
					e.checkNode(n, c, fc.Name)
				}
			}
		})
		if err != nil {
			// the shape engine summarises element data and keeps sizes symbolic; code that touches the data outside
			// the recognised data layer, or loops over a size, cannot be followed that way.  Decide the instance on
			// concrete sizes instead (every size atom 2 or 3; labelled elements when the data is needed).
			err = e.concreteFallback(err, func() error {
				_, err2 := e.M.Explore(maxPaths, func() {
					e.Begin()
					sym.ActiveFacts = nil
					args := c.Build(e)
					e.curMethod = c.Fn.Name()
					e.curExpanding = e.expanding(c.Fn.Name(), args)
					e.curLabel = c.Label + " (concrete sizes)"
					if fc.Facts != nil {
						sym.ActiveFacts = fc.Facts(e)
					}
					defer func() { sym.ActiveFacts = nil }()
					e.baseline, e.watch = e.M.CellSeq(), true
					out := e.M.Run(func() interp.Value { return e.M.Call(c.Fn, args, nil) })
					e.watch = false
					e.Paths++
					switch out.Kind {
					case interp.Panicked:
						e.find("S6.panic", key, "panic:"+panicClass(out.Panic.Msg), e.P.Pos(out.Panic.Pos),
							fmt.Sprintf("public call panics in %s: %s [instance %s, concrete sizes]", shortFn(out.Panic.Fn), out.Panic.Msg, c.Label))
						return
					case interp.Diverged:
						e.find("S6.hang", key, "no-termination", e.P.FuncPos(c.Fn), "step budget exhausted: possible non-termination [instance "+c.Label+", concrete sizes]")
						return
					}
					if c.OnReturn != nil {
						c.OnReturn(e, out)
					}
					for _, n := range e.nodes {
						if n.OK {
							e.checkNode(n, c, fc.Name)
						}
					}
				})
				return err2
			})
		}
		if err != nil {
			e.undecided("interp", key, "unsupported", e.P.FuncPos(c.Fn), fmt.Sprintf("%v [instance %s]", err, c.Label))
		}
	}
}

// concreteFallback re-runs an instance whose symbolic interpretation failed with err: first with the sizes pinned
// (data layer still summarised), then - if element data is what stopped it - with labelled elements and the whole
// implementation interpreted.  It returns nil when an attempt got through, the original error otherwise.
func (e *OpEngine) concreteFallback(err error, run func() error) error {
	if e.concreteSizes || !fallbackWorthy(err) {
		return err
	}
	// pinned sizes alone often suffice (a size-dependent fast path becomes infeasible); labelled data only if
	// element data still stops the interpretation
	cur := err
	for _, withData := range []bool{false, true} {
		if withData && !needsData(cur) {
			break
		}
		e.concreteSizes, e.atomSize = true, map[string]int64{}
		e.M.PinAtoms = e.atomSize
		saveDM, saveNC := e.dataMode, e.noCompare
		e.dataMode, e.noCompare = withData, true
		before := len(e.Findings)
		err2 := run()
		e.concreteSizes, e.atomSize, e.dataMode, e.noCompare = false, nil, saveDM, saveNC
		e.M.PinAtoms = nil
		if err2 == nil {
			e.ConcreteFallbacks++
			return nil
		}
		if os.Getenv("QVERIF_DEBUG") != "" {
			fmt.Fprintf(os.Stderr, "DBG fallback(withData=%v) failed: %v\n", withData, err2)
		}
		// this attempt could not follow the code either: drop what it added
		e.Findings = e.Findings[:before]
		cur = err2
	}
	return err
}

// needsData: the failure was about element data (labelled data must be built); otherwise pinning the sizes is
// enough and the data layer stays summarised.
func needsData(err error) bool {
	msg := err.Error()
	return strings.Contains(msg, "opaque") || strings.Contains(msg, "data-layer function")
}

// fallbackWorthy: the interpretation stopped at element data the shape engine had summarised.
func fallbackWorthy(err error) bool {
	msg := err.Error()
	return strings.Contains(msg, "opaque data") || strings.Contains(msg, "data-layer function") || strings.Contains(msg, "opaque") ||
		strings.Contains(msg, "used as a length or index over a wide range") || strings.Contains(msg, "loop whose bound is a symbolic integer")
}

func shortFn(s string) string { return strings.ReplaceAll(s, core.ModPath+"/", "") }

func panicClass(msg string) string {
	switch {
	case strings.Contains(msg, "index out of range"):
		return "index-out-of-range"
	case strings.Contains(msg, "slice bounds"):
		return "slice-bounds"
	case strings.Contains(msg, "nil pointer"), strings.Contains(msg, "nil interface"), strings.Contains(msg, "nil function"), strings.Contains(msg, "index of nil"):
		return "nil-dereference"
	case strings.Contains(msg, "interface conversion"):
		return "type-assertion"
	case strings.Contains(msg, "explicit panic"):
		return "explicit"
	case strings.Contains(msg, "makeslice"):
		return "makeslice"
	case strings.Contains(msg, "divide by zero"):
		return "divide-by-zero"
	case strings.Contains(msg, "nil map"):
		return "nil-map"
	}
	return "other"
}

// operands lists the tensor operands of a node by role.
func (e *OpEngine) operands(n *Node) []interp.PtrV {
	var ops []interp.PtrV
	if n.HasRecv {
		ops = append(ops, n.Recv)
	}
	for _, a := range n.Args {
		if t, ok := e.W.AsTensor(a); ok {
			ops = append(ops, t)
			continue
		}
		if s, ok := a.(interp.SliceV); ok && s.Len > 0 {
			for _, v := range interp.SliceElems(s) {
				if t, ok := e.W.AsTensor(v); ok {
					ops = append(ops, t)
				}
			}
		}
	}
	return ops
}

func (e *OpEngine) roleOf(target interp.PtrV, ops []interp.PtrV, depth int) int {
	for i, o := range ops {
		if o.C == target.C {
			return i
		}
	}
	if depth > 3 {
		return -1
	}
	for _, nb := range e.nodes {
		if nb.OK && nb.Result.C == target.C && nb.HasRecv && nb.Method == "Broadcast" {
			return e.roleOf(nb.Recv, ops, depth+1)
		}
	}
	return -1
}

var comparisonOps = map[string]bool{"Eq": true, "Ne": true, "Gt": true, "Ge": true, "Lt": true, "Le": true}
var leafOps = map[string]bool{"Full": true, "Zeros": true, "Ones": true, "Eye": true, "RandU": true, "RandN": true, "TensorOf": true}

func roleName(i int) string { return string(rune('A' + i)) }

type gstate struct {
	tracked, dirty bool
	known          bool
	edges          []interp.PtrV
	gradNil        bool
}

func (e *OpEngine) readGctx(t interp.PtrV) (gstate, bool) {
	g, ok := e.W.GctxOf(t)
	if !ok {
		return gstate{}, false
	}
	var s gstate
	tb, ok1 := interp.Load(g.C.Fields[e.A.GTracked]).(interp.BoolV)
	db, ok2 := interp.Load(g.C.Fields[e.A.GDirty]).(interp.BoolV)
	if ok1 && ok2 && tb.Known && db.Known {
		s.tracked, s.dirty, s.known = tb.Val, db.Val, true
	}
	s.gradNil = interp.IsNil(interp.Load(g.C.Fields[e.A.GGradient]))
	if es, ok := interp.Load(g.C.Fields[e.A.GBackEdges]).(interp.SliceV); ok {
		for _, v := range interp.SliceElems(es) {
			if p, ok := v.(interp.PtrV); ok {
				s.edges = append(s.edges, p)
			} else {
				s.edges = append(s.edges, interp.PtrV{})
			}
		}
	}
	return s, true
}

func (e *OpEngine) checkNode(n *Node, c *Call, caseName string) {
	key := "cputensor." + opKey(n.Method, n.HasRecv)
	pos := e.P.FuncPos(n.Fn)
	gs, ok := e.readGctx(n.Result)
	if !ok {
		return // already reported by S1a
	}
	ops := e.operands(n)
	if leafOps[n.Method] {
		return
	}
	// expected tracking state (C08 clause 1 and 2)
	anyDirty, anyTracked := false, false
	for _, o := range ops {
		os, ok := e.readGctx(o)
		if !ok || !os.known {
			e.undecided("C08.state", key, "operand-context", pos, "operand without a readable gradient context")
			return
		}
		anyDirty = anyDirty || os.dirty
		anyTracked = anyTracked || os.tracked
	}
	e.StateChecks++
	e.did("C08.state", key)
	e.did("S1c.edges", key)
	expTracked := !anyDirty && anyTracked && !comparisonOps[n.Method]
	expDirty := anyDirty && !comparisonOps[n.Method]
	flags := fmt.Sprintf("operands tracked=%v dirty=%v", anyTracked, anyDirty)
	if !gs.known {
		e.undecided("C08.state", key, "state", pos, "tracking flags of the result are not constants")
		return
	}
	if gs.tracked != expTracked {
		e.find("C08.state", key, fmt.Sprintf("tracked=%v-want-%v", gs.tracked, expTracked), pos,
			fmt.Sprintf("result tracked=%v but the rule 'tracked iff some operand tracked and none spent' gives %v (%s) [instance %s]", gs.tracked, expTracked, flags, c.Label))
	}
	if gs.dirty != expDirty {
		e.find("C08.state", key, fmt.Sprintf("spent=%v-want-%v", gs.dirty, expDirty), pos,
			fmt.Sprintf("result spent=%v but expected %v (%s) [instance %s]", gs.dirty, expDirty, flags, c.Label))
	}
	if !gs.gradNil {
		e.find("C08.state", key, "gradient-preset", pos, "a freshly computed result already carries a gradient")
	}
	if !expTracked {
		if len(gs.edges) != 0 && gs.tracked == expTracked {
			e.find("C08.state", key, "edges-on-untracked", pos, fmt.Sprintf("untracked/spent result carries %d back edges (%s)", len(gs.edges), flags))
		}
		return
	}
	if !gs.tracked {
		return
	}
	// edge targets must be exactly the operands (through public Broadcast for implicit expansion)
	roles := make([]int, len(gs.edges))
	covered := map[int]int{}
	targets := make([]interp.PtrV, len(ops))
	for i, ed := range gs.edges {
		if ed.C == nil {
			e.find("S1c.edges", key, "nil-edge", pos, "nil back edge")
			return
		}
		tv := interp.Load(ed.C.Fields[e.A.ETarget])
		tp, ok := e.W.AsTensor(tv)
		if !ok {
			e.find("S1c.edges", key, "edge-target", pos, "back edge without a tensor target")
			return
		}
		r := e.roleOf(tp, ops, 0)
		roles[i] = r
		if r < 0 {
			e.find("S1c.edges", key, "edge-target", pos, fmt.Sprintf("back edge %d targets a tensor that is not an operand of the operation [instance %s]", i, c.Label))
			return
		}
		covered[r]++
		targets[r] = tp
	}
	for r, o := range ops {
		os, _ := e.readGctx(o)
		need := os.tracked && !os.dirty
		if covered[r] > 1 || (need && covered[r] != 1) {
			e.find("S1c.edges", key, fmt.Sprintf("operand%d-edges=%d", r, covered[r]), pos,
				fmt.Sprintf("tracked operand %d has %d back edges, expected exactly 1 (an untracked operand may have none) [instance %s]", r, covered[r], c.Label))
			return
		}
	}
	for r := range ops {
		if targets[r].C == nil {
			targets[r] = ops[r]
		}
	}
	// C07 clause 3 / S1e: an operand whose shape differs from what the kernel consumed must have been expanded
	// through the public Broadcast (roleOf only follows public Broadcast nodes, so reaching here proves it).
	if !c.CheckGrad {
		return
	}
	e.checkGradients(n, c, caseName, key, pos, ops, targets, gs, roles)
}

func (e *OpEngine) checkGradients(n *Node, c *Call, caseName, key, pos string, ops, targets []interp.PtrV, gs gstate, roles []int) {
	w := e.W
	// rebind the local operands to leaves
	for r, t := range targets {
		ti := w.InfoOf(t)
		rng := spec.Rng(-1e6, 1e6)
		if r < len(e.LeafRng) {
			rng = e.LeafRng[r]
		}
		nm := roleName(r)
		ti.Name, ti.Elem, ti.Rng, ti.Has = nm, sym.LeafE(nm, spec.IdentIdx(len(w.Dims(t)))), rng, true
	}
	// recompute the forward element over the local leaves
	largs := make([]interp.Value, len(n.Args))
	ri := 0
	if n.HasRecv {
		ri = 1
	}
	for i, a := range n.Args {
		if _, ok := w.AsTensor(a); ok {
			largs[i] = w.Boxed(targets[ri])
			ri++
			continue
		}
		if s, ok := a.(interp.SliceV); ok && s.Len > 0 {
			if _, isT := w.AsTensor(interp.SliceElems(s)[0]); isT {
				vals := make([]interp.Value, s.Len)
				for j := range vals {
					vals[j] = w.Boxed(targets[ri])
					ri++
				}
				largs[i] = e.M.SliceOf(e.A.TensorIface, vals, "local-operands")
				continue
			}
		}
		largs[i] = a
	}
	var sres interp.Value
	var have bool
	if n.HasRecv {
		sres, have = w.Method(n.Method, targets[0], largs)
	} else {
		sres, have = w.Constructor(n.Method, largs)
	}
	if !have {
		return
	}
	st, serr := splitResult(sres)
	if serr && !n.SpecRejected {
		e.find("S1b.operands", key, "constructor-operands", pos,
			"the tensors handed to the gradient constructor are not a valid instance of the operation [instance "+c.Label+"]")
		return
	}
	if !serr {
		sp, _ := w.AsTensor(st)
		yi := w.InfoOf(n.Result)
		si := w.InfoOf(sp)
		yi.Elem, yi.Rng, yi.Has = si.Elem, si.Rng, true
	}
	dy := w.Dims(n.Result)
	G := w.LeafTensor("G", dy, spec.Rng(-1e3, 1e3), nil)
	yg, _ := w.GctxOf(n.Result)
	interp.Store(yg.C.Fields[e.A.GGradient], w.Boxed(G))

	op := &spec.LocalOp{Method: n.Method, Operands: targets, Args: largs, Result: n.Result, G: G, Dim: c.Dim}
	if d, ok := dimArg(n); ok {
		op.Dim = d
	}
	for i, ed := range gs.edges {
		role := roles[i]
		fnv, ok := interp.Load(ed.C.Fields[e.A.EGradFn]).(interp.ClosureV)
		if !ok {
			e.find("S1c.edges", key, "nil-gradfn", pos, "back edge without a gradient function")
			continue
		}
		// keyed by OPERATION and operand role, not by the function the closure happens to be written in
		ckey := fmt.Sprintf("%s.%s→operand%d", core.PkgGrad[len(core.ModPath)+1:], n.Method, role)
		_ = closureKey
		cpos := e.P.FuncPos(fnv.Fn)
		e.Closures[core.FuncKey(fnv.Fn)] = true
		e.ClosureRuns++
		e.did("A1.backward", ckey)
		out := e.M.Run(func() interp.Value { return e.M.CallValue(fnv, nil) })
		label := c.Label
		if caseName != "" {
			label += " case " + caseName
		}
		switch out.Kind {
		case interp.Panicked:
			e.find("A1.backward", ckey, "panic:"+panicClass(out.Panic.Msg), e.P.Pos(out.Panic.Pos), fmt.Sprintf("backward rule panics: %s [instance %s]", out.Panic.Msg, label))
			continue
		case interp.Diverged:
			e.find("A1.backward", ckey, "no-termination", cpos, "backward rule does not terminate within the step budget [instance "+label+"]")
			continue
		}
		if len(out.Results) != 2 {
			e.undecided("A1.backward", ckey, "signature", cpos, "unexpected result arity")
			continue
		}
		if ev, isErr := out.Results[1].(interp.ErrV); isErr {
			e.find("A1.backward", ckey, "error", cpos,
				fmt.Sprintf("an accepted forward call makes back-propagation fail: %s [instance %s]", ev.Msg, label))
			continue
		}
		gt, ok := w.AsTensor(out.Results[0])
		if !ok {
			e.find("A1.backward", ckey, "nil-gradient", cpos, "backward rule returns no tensor [instance "+label+"]")
			continue
		}
		dt := w.Dims(targets[role])
		dg := w.Dims(gt)
		if !e.sameDims(dg, dt) {
			e.find("A1.backward", ckey, "shape", cpos,
				fmt.Sprintf("gradient shape %s differs from the operand's shape %s [instance %s]", polys(dg), polys(dt), label))
			continue
		}
		if n.SpecRejected {
			continue // no defined value for a call outside the specification; only "does not fail, right shape"
		}
		// value
		e.VJPChecks++
		e.did("A2.vjp", ckey)
		want, ok, rule := w.VJP(op, role)
		if !ok {
			e.undecided("A2.vjp", ckey, "no-rule", cpos, rule)
			continue
		}
		got := w.InfoOf(gt).Elem
		if !w.InfoOf(gt).Has {
			e.undecided("A2.vjp", ckey, "opaque", cpos, "gradient element semantics unknown")
			continue
		}
		if n.Method == "ElMax" || n.Method == "ElMin" {
			if caseName == "tie" {
				// at a tie any convex weight is acceptable: got must be c·g with 0 <= c <= 1
				if okTie(unitCanon(got, dt), unitCanon(w.InfoOf(G).Elem, dt)) {
					continue
				}
				e.find("A2.vjp", ckey, "tie-weight", cpos, fmt.Sprintf("at a tie the rule gives %s, not a weight in [0,1] times g [instance %s]", got.String(), label))
				continue
			}
		}
		got, want = unitCanon(got, dt), unitCanon(want, dt)
		if eqs := e.M.SymEqualities(); len(eqs) > 0 {
			got, want = got.SubstSym(eqs), want.SubstSym(eqs)
		}
		if !e.sameExpr(got, want, dt) {
			verdict, wit := e.numericCompare(got, want, dt)
			switch verdict {
			case 1:
				e.Findings = append(e.Findings, Finding{Method: e.curMethod, Expanding: e.curExpanding, Rule: "A2.vjp", Construct: ckey, What: valueSignature(got, want), Pos: cpos,
					Detail:  fmt.Sprintf("backward rule computes %s but the vector-Jacobian product (%s) is %s [instance %s; path %s]", clip(got.String()), rule, clip(want.String()), label, e.M.PathString()),
					Witness: wit})
			default:
				e.undecided("A2.vjp", ckey, "value", cpos, fmt.Sprintf("normal forms differ but no separating point was found: got %s want %s [instance %s]", clip(got.String()), clip(want.String()), label))
			}
			continue
		}
		// A3: finite where differentiable
		if !c.SkipFinite && len(e.LeafRng) > 0 {
			e.FinChecks++
			e.did("A3.finite", ckey)
			rg := w.InfoOf(gt).Rng
			if !rg.IsFinite() {
				e.find("A3.finite", ckey, "non-finite", cpos,
					fmt.Sprintf("gradient may be non-finite (%s) although the operation is differentiable on the operand range %s [instance %s]", rg.String(), rngs(e.LeafRng), label))
			}
		}
	}
}

// unitCanon fixes the index of every unit axis to 0 (its only value).
func unitCanon(x sym.Expr, dims []sym.Poly) sym.Expr {
	m := map[string]sym.Poly{}
	for k, d := range dims {
		if c, ok := d.Const(); ok && c == 1 {
			m[spec.IxName(k)] = sym.PInt(0)
		}
	}
	return x.SubstIdx(m)
}

// valueSignature classifies a value disagreement so that known findings do not mask different ones:
// "value:scaled-by-inverse-size" when the rule's result is the defined one divided by dimension sizes only.
func valueSignature(got, want sym.Expr) string {
	if want.IsZero() || got.IsZero() {
		return "value"
	}
	q := sym.Div(got, want)
	if sym.OnlyInverseSizes(q) {
		return "value:scaled-by-inverse-size"
	}
	return "value"
}

func rngs(rs []spec.Ival) string {
	s := make([]string, len(rs))
	for i, r := range rs {
		s[i] = roleName(i) + "∈" + r.String()
	}
	return strings.Join(s, " ")
}

func clip(s string) string {
	if len(s) > 300 {
		return s[:300] + "…"
	}
	return s
}

func closureKey(fn *ssa.Function, role int) string {
	parent := fn
	for parent.Parent() != nil {
		parent = parent.Parent()
	}
	return fmt.Sprintf("%s→operand%d", core.FuncKey(parent), role)
}

func dimArg(n *Node) (int, bool) {
	switch n.Method {
	case "SumAlong", "MaxAlong", "MinAlong", "AvgAlong", "VarAlong", "StdAlong", "MeanAlong", "UnSqueeze", "Squeeze", "Flatten":
		if iv, ok := n.Args[0].(interp.IntV); ok {
			if c, ok := iv.P.Const(); ok {
				return int(c), true
			}
		}
	case "Concat":
		if iv, ok := n.Args[1].(interp.IntV); ok {
			if c, ok := iv.P.Const(); ok {
				return int(c), true
			}
		}
	}
	return 0, false
}

func okTie(got sym.Expr, g sym.Expr) bool {
	if got.IsZero() {
		return true
	}
	q := sym.Div(got, g)
	r, ok := q.Const()
	if !ok {
		return false
	}
	f, _ := r.Float64()
	return f >= 0 && f <= 1
}

/* ---------- numeric separation of two extracted formulas (never a reason to pass) ---------- */

func leafHash(name string, idx []int64) uint64 {
	h := fnv.New64a()
	h.Write([]byte(name))
	for _, i := range idx {
		fmt.Fprintf(h, ",%d", i)
	}
	return h.Sum64()
}

func leafVal(name string, idx []int64) float64 {
	return 0.5 + float64(leafHash(name, idx)%10007)/10007.0*1.5
}

var edgeVals = []float64{0, 1, 1e-11, 1 - 1e-11, 0.25, 3, -0.5, -4, 1e-13, 1 - 1e-13, 0.75, 2, 1e12, -3e15, 700, -700, 1e-300, 5e5}

// leafValEdge draws from special points (zeros, ones, values around the clipping bounds, negatives);
// points at which either formula is non-finite are skipped by the caller.
func leafValEdge(salt int) func(name string, idx []int64) float64 {
	return func(name string, idx []int64) float64 {
		return edgeVals[leafHash(fmt.Sprintf("%s#%d", name, salt), idx)%uint64(len(edgeVals))]
	}
}

// numericCompare returns 1 when a point separating the formulas is found (definite disagreement),
// 0 when none was found (undecided).  It evaluates the two EXTRACTED FORMULAS, never repository code.
// sameExpr: equal normal forms, or equal in every region of the index space cut out by the integer
// conditions of their indicator functions (piecewise results of Concat / Slice / Patch compositions).
// pinned substitutes the size atoms fixed by the concrete-size fallback.
func (e *OpEngine) pinned(x sym.Expr) sym.Expr {
	if !e.concreteSizes || len(e.atomSize) == 0 {
		return x
	}
	m := map[string]sym.Poly{}
	for a, v := range e.atomSize {
		m[a] = sym.PInt(v)
	}
	return x.SubstIdx(m)
}

func (e *OpEngine) sameExpr(got, want sym.Expr, dims []sym.Poly) bool {
	if got.Key() == want.Key() {
		return true
	}
	if e.concreteSizes {
		got, want = e.pinned(got), e.pinned(want)
		if got.Key() == want.Key() {
			return true
		}
	}
	// constants that are the same float64 (run-time `1 - eps` vs the folded constant)
	if got.RoundConsts().Key() == want.RoundConsts().Key() {
		return true
	}
	ctx := append([]sym.Constraint{}, e.M.PathConstraints()...)
	for i, d := range dims {
		ix := sym.PAtom(spec.IxName(i))
		ctx = append(ctx, sym.CGe(ix, sym.PInt(0)), sym.CLt(ix, d))
	}
	if sym.PiecewiseEqual(got, want, ctx) {
		e.PiecewiseProofs++
		return true
	}
	return false
}

func (e *OpEngine) numericCompare(got, want sym.Expr, dims []sym.Poly) (int, string) {
	got, want = e.pinned(got), e.pinned(want)
	cs := e.M.PathConstraints()
	// special points: zeros/ones/negatives, plus every constant of either formula and its neighbours
	edges := append([]float64{}, edgeVals...)
	seen := map[float64]bool{}
	for _, v := range edges {
		seen[v] = true
	}
	harvest := append(got.Constants(), want.Constants()...)
	// … and the constants the path condition compares with (a guard `x <= -650` is only met by points beyond it)
	var condConsts []float64
	for _, c := range e.M.RealConds() {
		for _, v := range c.E.Constants() {
			if v != 0 && !math.IsNaN(v) && !math.IsInf(v, 0) {
				condConsts = append(condConsts, v)
			}
		}
	}
	harvest = append(harvest, condConsts...)
	for _, c := range harvest {
		for _, v := range []float64{c, -c, c * (1 + 1e-3), c * (1 - 1e-3), 1 - c, c + 1, c - 1, 2 * c} {
			if !seen[v] && !math.IsNaN(v) && !math.IsInf(v, 0) && len(edges) < 96 {
				seen[v] = true
				edges = append(edges, v)
			}
		}
	}
	symTrials := []float64{1.25, -0.5, 0, 2.5, -3, 0.01}
	for trial := 0; trial < 46; trial++ {
		lo, hi := int64(1), int64(3+trial%3)
		// vary the model: prefer a different lower bound per atom and trial, fall back to any model
		bounds := map[string][2]int64{}
		ai := 0
		seenAtom := map[string]bool{}
		for _, c := range cs {
			for _, a := range c.P.Atoms() {
				if !seenAtom[a] {
					seenAtom[a] = true
					pref := 1 + int64((trial+ai*3)%4)
					bounds[a] = [2]int64{pref, pref + 4}
					ai++
				}
			}
		}
		mdl, ok := sym.Model(cs, lo, hi, bounds)
		if !ok {
			mdl, ok = sym.Model(cs, lo, hi, nil)
		}
		if !ok {
			mdl, ok = sym.Model(cs, -2, 6, nil)
			if !ok {
				continue
			}
		}
		env := &sym.EvalEnv{Ints: map[string]int64{}, Syms: map[string]float64{spec.Tol: 1e-9}, Leaf: leafVal}
		// symbols the path condition fixes (after `if lo == 0`) take that value
		for n, v := range e.M.SymEqualities() {
			if r, ok := v.Const(); ok {
				env.Syms[n], _ = r.Float64()
			}
		}
		symDefault := symTrials[trial%len(symTrials)]
		edge := trial >= 6
		if edge {
			salt := trial
			env.Leaf = func(name string, idx []int64) float64 {
				return edges[leafHash(fmt.Sprintf("%s#%d", name, salt), idx)%uint64(len(edges))]
			}
		}
		if trial%7 == 3 {
			// tie point: every tensor has the same element at the same position, so that thin conditions INSIDE the
			// formulas ([|p-t| <= τ] under a sum) hold somewhere in the sample
			inner := env.Leaf
			env.Leaf = func(name string, idx []int64) float64 { return inner("·", idx) }
		}
		if trial%7 == 5 {
			// near-tie point: same position, elements of different tensors differ by less than the tolerance
			inner := env.Leaf
			order := map[string]int{}
			env.Leaf = func(name string, idx []int64) float64 {
				k, ok := order[name]
				if !ok {
					k = len(order)
					order[name] = k
				}
				return inner("·", idx) + float64(k)*0.3e-9
			}
		}
		for k, v := range mdl {
			env.Ints[k] = v
		}
		sizes := make([]int64, len(dims))
		okSizes := true
		for i, d := range dims {
			v, ok := d.Eval(env.Ints)
			if !ok {
				for _, a := range d.Atoms() {
					if _, has := env.Ints[a]; !has {
						env.Ints[a] = 2 + int64(trial%2)
					}
				}
				v, ok = d.Eval(env.Ints)
			}
			if !ok || v <= 0 {
				okSizes = false
				break
			}
			sizes[i] = v
		}
		if !okSizes {
			continue
		}
		pos := make([]int64, len(dims))
		for iter := 0; iter < 40; iter++ {
			for i := range pos {
				env.Ints[spec.IxName(i)] = pos[i]
			}
			a, err1 := evalWithDefaults(got, env, symDefault)
			b, err2 := evalWithDefaults(want, env, symDefault)
			finA := !math.IsNaN(a) && !math.IsInf(a, 0)
			finB := !math.IsNaN(b) && !math.IsInf(b, 0)
			if edge && !finB {
				// the definition overflows here.  For a plain monotone formula (one term, e.g. exp(x), x^3) that IS
				// the defined float64 result, and finite code output is a difference (a saturated exponential);
				// for compound formulas an overflow of the real-number form proves nothing
				if math.IsInf(b, 0) && finA && err1 == nil && sym.SingleTermNoInverse(want) && e.realCondsHold(env) {
					return 1, fmt.Sprintf("at %s index %v%s: code formula gives %.6g, the definition overflows to %v", sym.ModelString(mdl), pos, symsString(env), a, b)
				}
				// … and where a plain scalar function is undefined (NaN: a fractional power of a negative base, the
				// logarithm of a negative number) a finite code output is a different function
				if math.IsNaN(b) && finA && err1 == nil && err2 == nil && sym.SingleTermNoInverse(want) && sym.SingleTermNoInverse(got) && e.realCondsHold(env) {
					return 1, fmt.Sprintf("at %s index %v%s: code formula gives %.6g where the defined scalar function is NaN", sym.ModelString(mdl), pos, symsString(env), a)
				}
				err2 = fmt.Errorf("definition non-finite at an edge point")
			}
			if err1 == nil && err2 == nil && e.realCondsHold(env) {
				if (finB && !finA) || !closeEnough(a, b) {
					return 1, fmt.Sprintf("at %s index %v%s: code formula gives %.6g, definition gives %.6g", sym.ModelString(mdl), pos, symsString(env), a, b)
				}
				// flush to zero: the code's result on this path is the CONSTANT 0 where the defined value - a plain
				// one-term function such as exp(x) - is a normal (not even subnormal) non-zero float64; a quotient
				// of such values (Softmax on a row of large negative scores) turns into 0/0
				if gc, isC := sym.ClosedConst(got); isC && gc == 0 && finB && math.Abs(b) >= 2.3e-308 && math.Abs(b) < 1e-7 && sym.SingleTermNoInverse(want) {
					return 1, fmt.Sprintf("at %s index %v%s: the code returns the constant 0 where the defined value is the normal non-zero number %.6g (flushed to zero: ratios of such values become 0/0)", sym.ModelString(mdl), pos, symsString(env), b)
				}
			}
			k := len(pos) - 1
			for k >= 0 {
				pos[k]++
				if pos[k] < sizes[k] {
					break
				}
				pos[k] = 0
				k--
			}
			if k < 0 {
				break
			}
		}
	}
	if v, w := e.uniformAndNonFinitePoints(got, want, cs, condConsts); v == 1 {
		return 1, w
	}
	// directed points: the path runs under a thin condition (|a-b| <= τ with a tiny τ, or an exact equality)
	// that random points never satisfy; solve it for one element that occurs linearly, all others 0
	type thin struct {
		x      sym.Expr // expression to be steered
		tau    sym.Expr // … to half of this value (zero Expr: to 0)
		hasTau bool
		c      *sym.Cond
	}
	var thins []thin
	for _, c := range e.M.RealConds() {
		switch c.Kind {
		case sym.CAbsLE:
			thins = append(thins, thin{c.E, c.Tau, true, c})
		case sym.CRealEQ:
			thins = append(thins, thin{c.E, sym.Expr{}, false, c})
			for _, x := range sym.AbsArgs(c.E) {
				thins = append(thins, thin{x, sym.Expr{}, false, c}) // abs(x) == 0
			}
		case sym.CRealGE, sym.CRealGT:
			// τ - abs(x) >= 0 with a small positive constant τ
			tau := 0.0
			for _, v := range c.E.Constants() {
				if v > 0 && v < 1e-6 && (tau == 0 || v < tau) {
					tau = v
				}
			}
			if tau > 0 {
				for _, x := range sym.AbsArgs(c.E) {
					thins = append(thins, thin{x, sym.NumF(tau), true, c})
				}
			}
		}
	}
	for _, th := range thins {
		c := th.c
		name, idxP, k, ok := sym.LinearLeaf(th.x)
		if !ok {
			continue
		}
		mdl, ok := sym.Model(cs, 1, 4, nil)
		if !ok {
			continue
		}
		env := &sym.EvalEnv{Ints: map[string]int64{}, Syms: map[string]float64{spec.Tol: 1e-9}}
		for kk, v := range mdl {
			env.Ints[kk] = v
		}
		idx := make([]int64, len(idxP))
		okIdx := true
		for i, p := range idxP {
			v, ok := p.Eval(env.Ints)
			if !ok {
				okIdx = false
			}
			idx[i] = v
		}
		if !okIdx {
			continue
		}
		same := func(n string, ix []int64) bool {
			if n != name || len(ix) != len(idx) {
				return false
			}
			for i := range ix {
				if ix[i] != idx[i] {
					return false
				}
			}
			return true
		}
		for _, base := range []float64{0, 1.5, -1.5} {
			base := base
			vL := 0.0
			env.Leaf = func(n string, ix []int64) float64 {
				if same(n, ix) {
					return vL
				}
				return base
			}
			rest, err := evalWithDefaults(th.x, env, 1.25)
			if err != nil {
				continue
			}
			target := 0.0
			if th.hasTau {
				tv, err := evalWithDefaults(th.tau, env, 1.25)
				if err != nil {
					continue
				}
				target = tv / 2
			}
			vL = (target - rest) / k
			if !e.realCondsHold(env) {
				continue
			}
			a, err1 := evalWithDefaults(got, env, 1.25)
			b, err2 := evalWithDefaults(want, env, 1.25)
			if err1 != nil || err2 != nil || math.IsNaN(a) || math.IsNaN(b) || math.IsInf(a, 0) || math.IsInf(b, 0) {
				continue
			}
			// relative comparison: the two sides are of the size of the tolerance here
			if d := math.Abs(a - b); d > 1e-6*math.Max(math.Abs(a), math.Abs(b)) && (a == 0 || b == 0 || d > 1e-3*math.Max(math.Abs(a), math.Abs(b))) {
				return 1, fmt.Sprintf("at %s with %s%v = %.6g and every other element %g (on the path condition %s): code formula gives %.6g, definition gives %.6g", sym.ModelString(mdl), name, idx, vL, base, c.String(), a, b)
			}
		}
	}
	// small lattice: with few distinct elements in play, every assignment from a handful of values (zero,
	// positive, negative, small) is tried - this finds points on thin or oddly shaped path conditions
	// (max(x,y) == 0, x > y ∧ y == 0, …) that random points miss
	{
		es := []sym.Expr{got, want}
		for _, c := range e.M.RealConds() {
			es = append(es, c.Exprs()...)
		}
		leaves := sym.LeafAtoms(es...)
		if mdl, ok := sym.Model(cs, 1, 4, nil); ok && len(leaves) > 0 && len(leaves) <= 5 {
			env := &sym.EvalEnv{Ints: map[string]int64{}, Syms: map[string]float64{spec.Tol: 1e-9}}
			for kk, v := range mdl {
				env.Ints[kk] = v
			}
			for n, v := range e.M.SymEqualities() {
				if r, ok := v.Const(); ok {
					env.Syms[n], _ = r.Float64()
				}
			}
			keys := make([]string, len(leaves))
			okKeys := true
			for i, l := range leaves {
				ix := make([]int64, len(l.Idx))
				for j, p := range l.Idx {
					v, ok := p.Eval(env.Ints)
					if !ok {
						okKeys = false
					}
					ix[j] = v
				}
				keys[i] = fmt.Sprintf("%s%v", l.Name, ix)
			}
			if okKeys {
				lattice := []float64{0, -1.5, 1.5, 0.5, -0.5}
				assign := map[string]float64{}
				env.Leaf = func(n string, ix []int64) float64 {
					if v, ok := assign[fmt.Sprintf("%s%v", n, ix)]; ok {
						return v
					}
					return 0.25
				}
				total := 1
				for range keys {
					total *= len(lattice)
				}
				for code := 0; code < total; code++ {
					c := code
					for _, k := range keys {
						assign[k] = lattice[c%len(lattice)]
						c /= len(lattice)
					}
					if !e.realCondsHold(env) {
						if os.Getenv("QVERIF_DEBUG") != "" {
							for _, rc := range e.M.RealConds() {
								v, err := rc.Eval(env)
								fmt.Fprintf(os.Stderr, "DBG assign=%v cond=%s -> %v %v\n", assign, rc.String(), v, err)
							}
						}
						continue
					}
					a, err1 := evalWithDefaults(got, env, 1.25)
					b, err2 := evalWithDefaults(want, env, 1.25)
					if err1 != nil || err2 != nil || math.IsNaN(b) || math.IsInf(b, 0) {
						continue
					}
					if math.IsNaN(a) || math.IsInf(a, 0) || !closeEnough(a, b) {
						return 1, fmt.Sprintf("at %s with elements %v: code formula gives %.6g, definition gives %.6g", sym.ModelString(mdl), assign, a, b)
					}
				}
			}
		}
	}
	return 0, ""
}

func symsString(env *sym.EvalEnv) string {
	s := ""
	for k, v := range env.Syms {
		if k == spec.Tol {
			continue
		}
		s += fmt.Sprintf(" %s=%g", k, v)
	}
	return s
}

func (e *OpEngine) realCondsHold(env *sym.EvalEnv) bool {
	for _, c := range e.M.RealConds() {
		v, err := c.Eval(env)
		if err != nil || !v {
			return false
		}
	}
	return true
}

func evalWithDefaults(x sym.Expr, env *sym.EvalEnv, symDefault float64) (float64, error) {
	for i := 0; i < 12; i++ {
		v, err := x.Eval(env)
		if err == nil {
			return v, nil
		}
		msg := err.Error()
		const p1, p2 = "unbound symbol ", "unbound"
		if strings.HasPrefix(msg, p1) {
			env.Syms[strings.TrimPrefix(msg, p1)] = symDefault + 0.5*float64(len(env.Syms)%3)
			continue
		}
		if strings.HasPrefix(msg, p2) {
			return 0, err
		}
		return 0, err
	}
	return 0, fmt.Errorf("too many unbound symbols")
}

func closeEnough(a, b float64) bool {
	if math.IsNaN(a) || math.IsNaN(b) {
		return math.IsNaN(a) && math.IsNaN(b)
	}
	if math.IsInf(a, 0) || math.IsInf(b, 0) {
		return a == b
	}
	d := math.Abs(a - b)
	return d <= 1e-7*(1+math.Abs(a)+math.Abs(b))
}


// uniformAndNonFinitePoints is tried when no ordinary sample point separates two different normal forms.
// (1) Uniform points: every element takes the same value, drawn from the constants of the path condition and their
// neighbours - a guard on the operand's magnitude is met by all elements at once.
// (2) Non-finite points: elements drawn from {0, finite, ±Inf}.  Both formulas are evaluated with float64 arithmetic
// (0·Inf = NaN, Inf-Inf = NaN); a path that drops a term (a "skip the zero entries" fast path) agrees with the
// definition on every finite point and differs in class (finite / +Inf / -Inf / NaN) only here.  Formulas or path
// conditions that test for NaN/Inf themselves are not evaluated this way (their predicates are opaque atoms).
func (e *OpEngine) uniformAndNonFinitePoints(got, want sym.Expr, cs []sym.Constraint, condConsts []float64) (int, string) {
	mdl, ok := sym.Model(cs, 1, 4, nil)
	if !ok {
		return 0, ""
	}
	mkEnv := func() *sym.EvalEnv {
		env := &sym.EvalEnv{Ints: map[string]int64{}, Syms: map[string]float64{spec.Tol: 1e-9}}
		for k, v := range mdl {
			env.Ints[k] = v
		}
		for n, v := range e.M.SymEqualities() {
			if r, ok := v.Const(); ok {
				env.Syms[n], _ = r.Float64()
			}
		}
		for k := 0; k < 8; k++ { // position-dependent formulas are evaluated at the first position
			if _, has := env.Ints[spec.IxName(k)]; !has {
				env.Ints[spec.IxName(k)] = 0
			}
		}
		return env
	}
	var uni []float64
	for _, c := range condConsts {
		uni = append(uni, c, -c, c-1, c+1, -c-1, -c+1, c*1.001, -c*1.001)
	}
	if len(uni) > 64 {
		uni = uni[:64]
	}
	for _, v := range uni {
		v := v
		env := mkEnv()
		env.Leaf = func(string, []int64) float64 { return v }
		a, err1 := evalWithDefaults(got, env, 1.25)
		b, err2 := evalWithDefaults(want, env, 1.25)
		if err1 != nil || err2 != nil || !e.realCondsHold(env) {
			continue
		}
		finA := !math.IsNaN(a) && !math.IsInf(a, 0)
		finB := !math.IsNaN(b) && !math.IsInf(b, 0)
		if finA && finB && !closeEnough(a, b) {
			return 1, fmt.Sprintf("at %s, every element = %g%s: code formula gives %.6g, definition gives %.6g", sym.ModelString(mdl), v, symsString(env), a, b)
		}
		if gc, isC := sym.ClosedConst(got); isC && gc == 0 && finB && math.Abs(b) >= 2.3e-308 && math.Abs(b) < 1e-7 && sym.SingleTermNoInverse(want) {
			return 1, fmt.Sprintf("at %s, every element = %g%s: the code returns the constant 0 where the defined value is the normal non-zero number %.6g (flushed to zero: ratios of such values become 0/0)", sym.ModelString(mdl), v, symsString(env), b)
		}
	}
	opaque := func(s string) bool { return strings.Contains(s, "isnan(") || strings.Contains(s, "isinf(") }
	if opaque(got.String()) || opaque(want.String()) {
		return 0, ""
	}
	for _, c := range e.M.RealConds() {
		if opaque(c.String()) {
			return 0, ""
		}
	}
	nf := []float64{0, 1.5, math.Inf(1), -2, 0, math.Inf(-1), 0.5, 1}
	class := func(x float64) string {
		switch {
		case math.IsNaN(x):
			return "NaN"
		case math.IsInf(x, 1):
			return "+Inf"
		case math.IsInf(x, -1):
			return "-Inf"
		}
		return "finite"
	}
	for salt := 0; salt < 64; salt++ {
		salt := salt
		env := mkEnv()
		used := map[string]float64{}
		env.Leaf = func(name string, idx []int64) float64 {
			v := nf[leafHash(fmt.Sprintf("%s#nf%d", name, salt), idx)%uint64(len(nf))]
			used[fmt.Sprintf("%s%v", name, idx)] = v
			return v
		}
		a, err1 := evalWithDefaults(got, env, 1.25)
		b, err2 := evalWithDefaults(want, env, 1.25)
		if err1 != nil || err2 != nil || !e.realCondsHold(env) {
			continue
		}
		if class(a) != class(b) {
			var pts []string
			for k, v := range used {
				if math.IsInf(v, 0) || v == 0 {
					pts = append(pts, fmt.Sprintf("%s=%g", k, v))
				}
			}
			sort.Strings(pts)
			if len(pts) > 8 {
				pts = pts[:8]
			}
			return 1, fmt.Sprintf("at %s with %s%s: in float64 arithmetic the code formula gives %s (%.6g), the definition gives %s (0·Inf and Inf-Inf are NaN, a term dropped on this path changes the class of the result)", sym.ModelString(mdl), strings.Join(pts, " "), symsString(env), class(a), a, class(b))
		}
	}
	return 0, ""
}
