package main

import (
	"fmt"
	"os"
	"time"

	"qverif/core"
)

func main() {
	t0 := time.Now()
	p, err := core.Load("/repo")
	if err != nil {
		fmt.Println("load error:", err)
		os.Exit(2)
	}
	fmt.Println("pkgs", len(p.Pkgs), "funcs", len(p.AllFunctions()), "modfuncs", len(p.ModuleFunctions()), time.Since(t0))
	g := p.VTA()
	fmt.Println("vta nodes", len(g.Nodes), time.Since(t0))
}
