package main

import (
	"encoding/json"
	"flag"
	"fmt"
	"os"
	"qverif/interp"
	"runtime/pprof"
	"sort"
	"strconv"
	"strings"
	"time"

	"qverif/checks"
	"qverif/core"
	"qverif/engine"
	"qverif/spec"
)

func main() {
	if len(os.Args) < 2 {
		fmt.Println("usage: qverif check -prop Cxx [-tier quick|thorough] | qverif ops [-m Method]")
		os.Exit(2)
	}
	switch os.Args[1] {
	case "ops":
		opsCmd(os.Args[2:])
	case "data":
		dataCmd(os.Args[2:])
	case "walk":
		walkCmd(os.Args[2:])
	case "check":
		if pf := os.Getenv("QVERIF_CPUPROFILE"); pf != "" {
			f, err := os.Create(pf)
			if err == nil {
				pprof.StartCPUProfile(f)
				go func() {
					time.Sleep(90 * time.Second)
					pprof.StopCPUProfile()
					f.Close()
				}()
			}
		}
		os.Exit(checkCmd(os.Args[2:]))
	case "replay":
		os.Exit(replayCmd(os.Args[2:]))
	case "list":
		for _, id := range checks.IDs() {
			fmt.Println(id, checks.Lookup(id).Desc)
		}
	default:
		fmt.Println("unknown command")
		os.Exit(2)
	}
}

// replayCmd re-analyses /repo for the property of a recorded violation and reports whether the same
// construct is still violated (exit 1) or not (exit 0).
func replayCmd(args []string) int {
	if len(args) < 1 {
		fmt.Println("usage: qverif replay <replay.json>")
		return 2
	}
	b, err := os.ReadFile(args[0])
	if err != nil {
		fmt.Println(err)
		return 2
	}
	var rec struct {
		Property string `json:"property"`
		Key      string `json:"key"`
		Detail   string `json:"detail"`
	}
	if err := json.Unmarshal(b, &rec); err != nil {
		fmt.Println(err)
		return 2
	}
	fmt.Printf("replaying %s: %s\n  recorded: %s\n", rec.Property, rec.Key, rec.Detail)
	tmp, _ := os.MkdirTemp("", "qverif-replay")
	defer os.RemoveAll(tmp)
	code := checkCmd([]string{"-prop", rec.Property, "-verif", tmp})
	ev, _ := os.ReadFile(tmp + "/evidence/" + rec.Property + ".json")
	still := strings.Contains(string(ev), strconv.Quote(rec.Key)[1:len(strconv.Quote(rec.Key))-1]) && code == 1
	_ = still
	// the evidence lists every non-discharged obligation with its key
	var evd struct {
		Coverage struct {
			Samples []json.RawMessage `json:"samples"`
		} `json:"coverage"`
	}
	_ = json.Unmarshal(ev, &evd)
	found := false
	for _, s := range evd.Coverage.Samples {
		var o struct {
			Rule, Construct, What, Status string
		}
		if json.Unmarshal(s, &o) == nil && o.Status == "VIOLATED" {
			k := o.Rule + "|" + o.Construct
			if o.What != "" {
				k += "|" + o.What
			}
			if k == rec.Key {
				found = true
			}
		}
	}
	if found {
		fmt.Println("REPLAY: the recorded violation is still present")
		return 1
	}
	fmt.Println("REPLAY: the recorded violation is no longer reported")
	return 0
}

func checkCmd(args []string) int {
	fs := flag.NewFlagSet("check", flag.ExitOnError)
	prop := fs.String("prop", "", "property id")
	tier := fs.String("tier", "", "quick|thorough")
	repo := fs.String("repo", "/repo", "repository root")
	verif := fs.String("verif", "/verif", "verif root (evidence, known findings)")
	fs.Parse(args)
	if *tier == "" {
		*tier = os.Getenv("VERIF_TIER")
	}
	if *tier != "thorough" {
		*tier = "quick"
	}
	var seed int64
	if s := os.Getenv("VERIF_SEED"); s != "" {
		seed, _ = strconv.ParseInt(s, 10, 64)
	}
	pc := checks.Lookup(*prop)
	if pc == nil {
		fmt.Printf("UNDECIDED property=%s no check registered\n", *prop)
		return 2
	}
	start := time.Now()
	limit := 10 * time.Minute
	if *tier == "thorough" {
		limit = 3 * time.Hour
	}
	// the interpreter stops exploring at three quarters of the limit, so that what was decided until then is filed
	interp.SoftDeadline = start.Add(limit * 3 / 4)
	go func() {
		time.Sleep(limit)
		fmt.Printf("UNDECIDED property=%s wall-clock limit %v exceeded (analysis did not finish)\n", *prop, limit)
		os.Exit(2)
	}()
	rep := core.NewReport(*prop, *tier)
	known, kerr := core.LoadKnownFindings(*verif + "/known_findings.jsonl")
	if kerr != nil {
		fmt.Println("known findings:", kerr)
		return 2
	}
	p, err := core.Load(*repo)
	if err != nil {
		return rep.Finish(*verif, known, seed, start, err)
	}
	if len(p.Pkgs) < 13 {
		return rep.Finish(*verif, known, seed, start, fmt.Errorf("only %d packages loaded, expected >= 13", len(p.Pkgs)))
	}
	a, err := spec.ResolveAnchors(p)
	if err != nil {
		return rep.Finish(*verif, known, seed, start, fmt.Errorf("anchor resolution: %w", err))
	}
	ctx := &checks.Ctx{P: p, A: a, R: rep, Tier: *tier, Seed: seed}
	func() {
		defer func() {
			if r := recover(); r != nil {
				rep.Undecide("checker", "internal", "panic", "", fmt.Sprint("checker panicked: ", r))
			}
		}()
		pc.Run(ctx)
	}()
	return rep.Finish(*verif, known, seed, start, nil)
}

func opsCmd(args []string) {
	fs := flag.NewFlagSet("ops", flag.ExitOnError)
	m := fs.String("m", "", "method")
	repo := fs.String("repo", "/repo", "repo")
	thorough := fs.Bool("thorough", false, "")
	verbose := fs.Bool("v", false, "")
	fs.Parse(args)
	t0 := time.Now()
	p, err := core.Load(*repo)
	if err != nil {
		fmt.Println("load error:", err)
		os.Exit(2)
	}
	a, err := spec.ResolveAnchors(p)
	if err != nil {
		fmt.Println("anchors:", err)
		os.Exit(2)
	}
	e := engine.NewOpEngine(p, a)
	b := engine.QuickBounds()
	if *thorough {
		b = engine.ThoroughBounds()
	}
	calls := e.Instances(*m, b)
	fmt.Println("instances", len(calls), "load", time.Since(t0))
	for _, c := range calls {
		nb := len(e.Findings)
		t1 := time.Now()
		p0 := e.Paths
		e.RunInstance(c)
		if *verbose {
			fmt.Printf("  %-60s paths=%d findings=%d %v\n", c.Label, e.Paths-p0, len(e.Findings)-nb, time.Since(t1))
		}
	}
	seen := map[string]int{}
	var keys []string
	first := map[string]engine.Finding{}
	for _, f := range e.Findings {
		k := f.Rule + "|" + f.Construct + "|" + f.What
		if f.Undecided {
			k = "UNDECIDED " + k
		}
		if seen[k] == 0 {
			keys = append(keys, k)
			first[k] = f
		}
		seen[k]++
	}
	sort.Strings(keys)
	for _, k := range keys {
		f := first[k]
		fmt.Printf("%s  x%d\n    %s %s\n    witness: %s\n", k, seen[k], f.Pos, f.Detail, f.Witness)
	}
	fmt.Printf("paths=%d closures=%d shape=%d vjp=%d fin=%d state=%d funcs=%d wall=%v\n", e.Paths, e.ClosureRuns, e.ShapeChecks, e.VJPChecks, e.FinChecks, e.StateChecks, len(e.Funcs), time.Since(t0))
}

func walkCmd(args []string) {
	fs := flag.NewFlagSet("walk", flag.ExitOnError)
	repo := fs.String("repo", "/repo", "repo")
	k := fs.Int("k", 2, "exhaustive steps")
	fs.Parse(args)
	t0 := time.Now()
	p, err := core.Load(*repo)
	if err != nil {
		fmt.Println("load error:", err)
		os.Exit(2)
	}
	a, err := spec.ResolveAnchors(p)
	if err != nil {
		fmt.Println("anchors:", err)
		os.Exit(2)
	}
	e := engine.NewOpEngine(p, a)
	st := &engine.WalkStats{}
	progs := engine.TemplatePrograms()
	for kk := 1; kk <= *k; kk++ {
		progs = append(progs, engine.EnumeratePrograms([]bool{true}, kk)...)
		progs = append(progs, engine.EnumeratePrograms([]bool{true, false}, kk)...)
	}
	progs = append(progs, engine.RandomPrograms(1, 50, 4, 7)...)
	for _, pr := range progs {
		e.RunProgram(pr, st)
	}
	seen := map[string]int{}
	for _, f := range e.Findings {
		k := f.Rule + "|" + f.Construct + "|" + f.What
		if f.Undecided {
			k = "UNDECIDED " + k
		}
		if seen[k] == 0 {
			fmt.Printf("%s\n    %s %s\n    witness: %s\n", k, f.Pos, f.Detail, f.Witness)
		}
		seen[k]++
	}
	fmt.Println(seen)
	fmt.Printf("programs=%d gradchecks=%d statechecks=%d closures=%d wall=%v\n", st.Programs, st.GradChecks, st.StateChecks, st.ClosureRuns, time.Since(t0))
}

func dataCmd(args []string) {
	fs := flag.NewFlagSet("data", flag.ExitOnError)
	repo := fs.String("repo", "/repo", "repo")
	m := fs.String("m", "", "method")
	thorough := fs.Bool("thorough", false, "")
	verbose := fs.Bool("v", false, "")
	fs.Parse(args)
	t0 := time.Now()
	p, err := core.Load(*repo)
	if err != nil {
		fmt.Println("load error:", err)
		os.Exit(2)
	}
	a, err := spec.ResolveAnchors(p)
	if err != nil {
		fmt.Println("anchors:", err)
		os.Exit(2)
	}
	e := engine.NewOpEngine(p, a)
	e.SetDataMode(true)
	b := engine.QuickDataBounds()
	if *thorough {
		b = engine.ThoroughDataBounds()
	}
	calls := e.DataInstances(func(n string) bool { return *m == "" || *m == n }, b)
	fmt.Println("instances", len(calls))
	for _, c := range calls {
		nb := len(e.Findings)
		t1 := time.Now()
		e.RunDataInstance(c)
		if *verbose || time.Since(t1) > 2*time.Second {
			fmt.Printf("  %-60s findings=%d %v\n", c.Label, len(e.Findings)-nb, time.Since(t1))
		}
	}
	seen := map[string]int{}
	for _, f := range e.Findings {
		k := f.Rule + "|" + f.Construct + "|" + f.What
		if f.Undecided {
			k = "UNDECIDED " + k
		}
		if seen[k] == 0 {
			fmt.Printf("%s\n    %s %s\n    witness: %s\n", k, f.Pos, f.Detail, f.Witness)
		}
		seen[k]++
	}
	fmt.Println(seen)
	fmt.Printf("paths=%d elements=%d wall=%v\n", e.Paths, e.ElemChecks, time.Since(t0))
}
