package main

import (
	"flag"
	"fmt"
	"os"
	"sort"
	"time"

	"qverif/core"
	"qverif/engine"
	"qverif/spec"
)

func main() {
	if len(os.Args) < 2 {
		fmt.Println("usage: qverif ops|check ...")
		os.Exit(2)
	}
	switch os.Args[1] {
	case "ops":
		opsCmd(os.Args[2:])
	default:
		fmt.Println("unknown command")
		os.Exit(2)
	}
}

func opsCmd(args []string) {
	fs := flag.NewFlagSet("ops", flag.ExitOnError)
	m := fs.String("m", "", "method")
	repo := fs.String("repo", "/repo", "repo")
	thorough := fs.Bool("thorough", false, "")
	verbose := fs.Bool("v", false, "")
	fs.Parse(args)
	t0 := time.Now()
	p, err := core.Load(*repo)
	if err != nil {
		fmt.Println("load error:", err)
		os.Exit(2)
	}
	a, err := spec.ResolveAnchors(p)
	if err != nil {
		fmt.Println("anchors:", err)
		os.Exit(2)
	}
	e := engine.NewOpEngine(p, a)
	b := engine.QuickBounds()
	if *thorough {
		b = engine.ThoroughBounds()
	}
	calls := e.Instances(*m, b)
	fmt.Println("instances", len(calls), "load", time.Since(t0))
	for _, c := range calls {
		nb := len(e.Findings)
		t1 := time.Now()
		p0 := e.Paths
		e.RunInstance(c)
		if *verbose {
			fmt.Printf("  %-60s paths=%d findings=%d %v\n", c.Label, e.Paths-p0, len(e.Findings)-nb, time.Since(t1))
		}
	}
	seen := map[string]int{}
	var keys []string
	first := map[string]engine.Finding{}
	for _, f := range e.Findings {
		k := f.Rule + "|" + f.Construct + "|" + f.What
		if f.Undecided {
			k = "UNDECIDED " + k
		}
		if seen[k] == 0 {
			keys = append(keys, k)
			first[k] = f
		}
		seen[k]++
	}
	sort.Strings(keys)
	for _, k := range keys {
		f := first[k]
		fmt.Printf("%s  x%d\n    %s %s\n    witness: %s\n", k, seen[k], f.Pos, f.Detail, f.Witness)
	}
	fmt.Printf("paths=%d closures=%d shape=%d vjp=%d fin=%d state=%d funcs=%d wall=%v\n", e.Paths, e.ClosureRuns, e.ShapeChecks, e.VJPChecks, e.FinChecks, e.StateChecks, len(e.Funcs), time.Since(t0))
}
