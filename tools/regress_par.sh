#!/bin/bash
# regress_par.sh [pattern] [jobs] — like regress.sh, but on private scratch worktrees (tools/try_mutant_wt.sh), several at a time.
cd /verif
pat=${1:-.}; jobs=${2:-5}
one() {
  d=$1; n=$(basename $d)
  p=$(python3 -c "import json;print(json.load(open('$d/meta.json'))['property'])")
  exp=$(python3 -c "import json;m=json.load(open('$d/meta.json'))['detected_by'];print('MISSED' if m.upper().startswith('MISSED') or m.upper().startswith('NOT DETECTED') else ('UNDECIDED' if m.startswith('UNDECIDED') else 'CAUGHT'))")
  out=$(timeout 1800 /verif/tools/try_mutant_wt.sh /verif/$d/patch.diff $p 2>&1)
  code=$(echo "$out" | sed -n "s/^== $p exit=\([0-9]*\).*/\1/p")
  case "$code" in 1) got=CAUGHT;; 2) got=UNDECIDED;; 0) got=MISSED;; *) got="ERROR($code)";; esac
  flag=""; [ "$got" != "$exp" ] && flag="   <<< expected $exp"
  echo "$n $p $got$flag"
}
benign() {
  d=$1; wt=$(mktemp -d /tmp/wt_ben_XXXXXX); rmdir $wt
  git -C /repo worktree add -q --detach $wt HEAD || exit 9
  sc=$(mktemp -d /tmp/verif_scratch_XXXXXX); cp /verif/known_findings.jsonl $sc/
  ( cd $wt && git apply /verif/$d/patch.diff ) || echo "benign $(basename $d): patch does not apply"
  bad=""
  for p in C01 C02 C03 C04 C05 C06 C07 C08 C09 C10 C11 C12 C13 C14 C15 C16 C17 C18 C19 C20; do
    ${QVERIF:-/verif/bin/qverif} check -prop $p -repo $wt -verif $sc >/dev/null 2>&1 || bad="$bad $p"
  done
  git -C /repo worktree remove --force $wt >/dev/null 2>&1; rm -rf $sc
  if [ -z "$bad" ]; then echo "benign $(basename $d): all 20 checks exit 0"; else echo "benign $(basename $d): FALSE ALARM in$bad"; fi
}
export -f one benign
ls -d seeded/*/ | grep -E "$pat" | xargs -P $jobs -I{} bash -c 'one {}'
if [ "$pat" = "." ] || [ "$pat" = "benign" ]; then
  ls -d benign/*/ | xargs -P $jobs -I{} bash -c 'benign {}'
fi
