#!/usr/bin/env python3
"""Regenerates /verif/MANIFEST.json from the table below (kept next to the checker so they stay in sync)."""
import json, os
ROOT = os.path.dirname(os.path.dirname(os.path.abspath(__file__)))
props = [json.loads(l) for l in open(os.path.join(ROOT, 'properties.jsonl'))]
ids = [p['id'] for p in props]

TRUST = ("Trusted base: go/packages+go/types+go/ssa (x/tools v0.29.0, vendored) as a faithful reading of /repo's source; "
         "the specification tables of DESIGN.md Appendix A/B (typing rules, element semantics, VJP table) encoded in checker/spec; "
         "the checker's own algebra (polynomial normaliser, Fourier-Motzkin refutation). No repository code is executed.")

AI = "abstract interpretation of go/ssa"
SHAPE = ("Shape engine: the real public method (validators, dims helpers, gradient-context attachment) is interpreted with every dimension 1 or a symbolic size, "
         "symbolic integer arguments and forking on undetermined branches (own Fourier-Motzkin refutation); error-ness and result shape are compared with the specification, disagreements come with an integer witness. ")
DATA = ("Labelled-element engine: shapes concrete and small (sizes 1..3; ranks to 3 plus selected rank-4/5 shapes; thorough: rank 4), every operand element a distinct symbol, the WHOLE implementation "
        "including the nested-[]any data layer interpreted; each result element must have the specification's normal form at that position. Universal in element values, bounded in shapes. ")
claimed = {
 'C01': dict(
   text=("Structural rules on the back-propagation walk for ALL graphs (S2a: every recursion is guarded by state written inside the cycle - visited mark / pending counter; S2b: gradients are accumulated by Add or first-assigned under a nil test; "
         "S2c: tracked-test and spent-mark dominate every application of a backward rule; S2d; S1d late gradient reads) plus abstract interpretation of the REAL BackPropagate on enumerated DAG templates (all programs of <=2 (thorough 3) point-wise steps over 1-2 leaves, "
         "hand-picked diamonds/ladders/fan-outs/multi-root/same-operand-twice templates, seeded random deeper ones): every leaf's accumulated gradient must equal the symbolic derivative of the root's composite expression and the number of rule applications must not exceed the edge count."),
   note=TRUST + " Value equality is established per enumerated template, the structural rules for all graphs; reverse-topological order of an arbitrary walk is not proven beyond the templates.",
   technique="call-graph/dominance rules on the walk + " + AI + " of BackPropagate on enumerated DAG templates vs symbolic differentiation",
   ref="4/C01, 3.1 S2"),
 'C02': dict(
   text=("Abstract interpretation of the real public method (validators, dims helpers, gradient-context constructor) and of every backward closure it wires, "
         "per operation and per symbolic-shape instance and for every subset of tracked operands: no error/panic path, gradient shape == operand shape for all sizes (FM-decided), element expression equal "
         "(normal form) to the operation's vector-Jacobian product, interval-finite on the differentiable range incl. Pow(0|1|2) at base 0. Universal over dimension "
         "sizes; ranks/argument forms enumerated to the tier bound. A necessary-and-more condition of C02, not a proof about floating point."),
   note=TRUST + " Element positions produced by the data layer are not decided here (C03-C06).",
   technique=AI + " (symbolic shapes + element expressions + intervals) against a VJP table",
   ref="4/C02, 3.2"),
 'C03': dict(text=SHAPE + DATA + "Comparison kernels are evaluated under the five order classes of a-b (far/within-tolerance above, tie, within-tolerance/far below); implicit expansion is shown to go through the public Broadcast on both operands before the kernel.",
   note=TRUST + " Shapes beyond the enumerated bound and floating-point rounding are not decided.",
   technique=AI + ": symbolic-shape guard/shape contracts + labelled-element interpretation of kernels and the broadcast generator", ref="4/C03"),
 'C04': dict(text=SHAPE + DATA + "Covers MatMul (batch broadcasting, inner kernel index roles), Dot and Transpose incl. rank>=3 batches with unit and unequal leading dimensions.",
   note=TRUST + " Shapes beyond the enumerated bound are not decided.",
   technique=AI + ": symbolic-shape contracts + labelled-element interpretation of the contraction kernels and generators", ref="4/C04"),
 'C05': dict(text=SHAPE + DATA + "Covers the seven *Along reducers for every dim and the whole-tensor statistics (unbiased variance, 0 for one element).",
   note=TRUST + " Numerical stability (algebraically equal rewrites such as a one-pass variance) is NOT decided - seeded change C05-3 is a documented miss.",
   technique=AI + ": symbolic-shape contracts + labelled-element interpretation of folds and the reduced-dimension generator", ref="4/C05"),
 'C06': dict(text=SHAPE + DATA + "Covers At, Slice (every mix of omitted/{0,0}/explicit ranges), Patch (every source size and offset), Concat (2-3 operands, every dim), Reshape/Flatten/(Un)Squeeze/Broadcast, Full/Zeros/Ones/Eye, TensorOf on rectangular and ragged nested data of depth 0..4, NElems/Shape.",
   note=TRUST + " Shapes beyond the enumerated bound are not decided.",
   technique=AI + ": symbolic-shape contracts + labelled-element interpretation of copiers, generators and constructors", ref="4/C06"),
 'C07': dict(
   text=("Same engine on Broadcast: for every source/target pattern (new leading axes, expanded unit axes, both, factor 1) the closure's element expression must equal "
         "the SUM of the upstream gradient over the expanded copies, with the source's shape; plus the routing rule that every implicit expansion in Add/Sub/Mul/Div/Dot/MatMul "
         "reaches the operand through a tensor produced by the public Broadcast (any gradient failure of an implicitly expanding instance is reported here). Today's tree averages instead of summing (known finding D2, pinned by TestBroadcast)."),
   note=TRUST,
   technique=AI + ": reducer kind and axes of the Broadcast backward closure; provenance routing of implicit expansions",
   ref="4/C07"),
 'C08': dict(
   text=("For every public operation and every combination of (tracked, spent) flags of its operands the attached context is interpreted and compared with the rule; S1a/S1c edge structure; the real BackPropagate interpreted on DAG templates (exactly the root and its tracked ancestors end spent with a gradient, gradients untracked, nothing else touched, untracked root changes nothing); ResetGradContext in every prior state; "
         "S3 field-write ownership and gctx read inventory (tracking cannot change forward values)."),
   note=TRUST + " Provisos (a),(b) of the quantifier are caller preconditions and are not checked.",
   technique=AI + " of the gradient-context constructors and the walk over all flag combinations; field-write ownership dataflow", ref="4/C08"),
 'C09': dict(
   text=("Every public entry point is interpreted with symbolic/unconstrained integer arguments, nil values and every configuration case: Tensor methods (error iff precondition, defined shape, no reachable panic: index/slice bounds, nil dereference, failed assertion, explicit panic), package tensor constructors, TensorOf on ragged data, Concat/BackPropagate on nil lists/tensors, component constructors and Forward/Compute/Accumulate/Update/Init with invalid inputs."),
   note=TRUST + " Termination beyond the interpreter's step budget and integer overflow are not decided.",
   technique=AI + ": guard contracts (error iff precondition) and panic reachability on symbolic arguments", ref="4/C09"),
 'C10': dict(
   text=("S4 write provenance over every Store/MapUpdate/copy/append of the library (each write targets memory allocated by the same call, obligations on parameters discharged at every caller); S5 retention of caller slices (no store, escaping capture or return of a caller's slice header; returned slices fresh); S3 ownership of tensor/context fields; plus a store observer in every interpreted run that flags any write to a cell existing before the call. A sound effect argument for all programs and histories."),
   note=TRUST + " S4/S5 assume out-of-module callees (fmt, math, gonum) neither write through nor retain their arguments.",
   technique="points-to / provenance and taint dataflow over go/ssa (write provenance, caller-slice retention, field ownership)", ref="4/C10, 3.4"),
 'C12': dict(
   text=("The real Compute methods are interpreted over abstract tensors; the scalar's element expression must have the normal form of the definition (MSE, BCE, CE with both clips and eps = 1e-12), shape rank 0 for every batch/class size, interval-finite and non-negative over [-1e6,1e6]; tracked and untracked inputs; invalid inputs rejected; the tensor implementation never reads a gradient context (values cannot depend on tracking)."),
   note=TRUST + " Floating-point rounding is not decided.",
   technique=AI + " of the loss compositions against the defining formulas (normal forms + intervals)", ref="4/C12"),
 'C14': dict(
   text=("Forward of each activation interpreted over abstract tensors against its definition: Relu, LeakyRelu (symbolic slope, default 0.01, 0, negative, >1), Sigmoid, Tanh, Softmax for EVERY dim < rank with the sum along dim normalising to exactly 1 and a non-negative interval; ranks 0..3 (thorough 5); invalid inputs and dims rejected."),
   note=TRUST + " Overflow beyond |x|<=700 and rounding are not decided.",
   technique=AI + " of the activation compositions against the defining formulas", ref="4/C14"),
 'C16': dict(
   text=("FC.Forward interpreted with W and B replaced (twice, after a first Forward) through the pointers returned by Weights(): y[b][o] = W[o]*sum_d x[b][d] + B[o] with the CURRENT parameters, shape [batch, Outputs], for symbolic and unit sizes; Weights() returns pointers to the layer's own fields; defaults, validation. Gradient clause: compositional (C01, C02, C07) - the weight gradient inherits known finding D2."),
   note=TRUST,
   technique=AI + " of FC.forward against the affine formula; pointer identity of Weights()", ref="4/C16"),
 'C17': dict(
   text=("SGD.Update interpreted: the tensor behind the pointer becomes w - lr*g (lr symbolic, default 0.01, 0, negative; every finite w and g), same shape, ranks 0..3 (thorough 5); the only store goes through the given pointer (store observer: previous tensor and gradient untouched); nil pointer / nil tensor / missing gradient give an error and replace nothing."),
   note=TRUST,
   technique=AI + " of Update + store observation", ref="4/C17"),
 'C18': dict(
   text=("Each initializer's constructor and Init interpreted with symbolic configs: tensor built by the matching constructor with exactly the requested shape, tracked, parameters of the defined normal form (He/Xavier formulas, defaults); RandU/RandN interpreted completely on small shapes: one distinct fresh draw per element from Uniform{Min:l,Max:u}/Normal{Mu,Sigma}; no explicit Src, no private generator."),
   note=TRUST + " gonum's distributions are trusted; convergence of sample moments and independence are statistical and NOT decided.",
   technique=AI + " of initializers (parameter plumbing, scale formulas, per-element draws) + RNG-source rule", ref="4/C18"),
 'C19': dict(
   text=("Accuracy interpreted over sequences of batches with symbolic sizes: total = sum of sizes, correct = sum over batches of the equality mask, Result = correct/total (0 before any batch) - additive updates make it partition-independent; rejected calls, also interleaved, leave both counters unchanged."),
   note=TRUST + " A one-ulp rounding of k/n*n (seeded change C19-2) is a documented miss.",
   technique=AI + " of Accumulate/Result against the counting formulas; no-store-on-error", ref="4/C19"),
 'C20': dict(
   text=("Sound effect argument: S4 (every forward write targets memory allocated by that call) + S8 (no reference-typed or post-init-written package state, distributions built without Src, no private generator) + S3 (no forward operation writes a field of an existing tensor/context) + S2c (the walk tests `tracked` before writing): concurrent forward computations only read shared tensors."),
   note=TRUST + " gonum's global source being locked is assumed.",
   technique="effect analysis: write provenance + shared-state inventory + field ownership over go/ssa", ref="4/C20"),
}


claimed.update({
 'C11': dict(
   text=("FC->{Sigmoid,Relu}->CE->BackPropagate->SGD.Update->ResetGradContext(true) interpreted through the REAL code for two steps (interface calls dispatched to the real cputensor methods, real walk) with symbolic widths and batch size symbolic or 1: every update succeeds, weights keep shape [Outputs], the step-2 update expression equals the step-1 expression with the weights renamed (no gradient, edge, spent flag or cached tensor leaks across steps), and with the reset omitted the next update reports the missing gradient. The VALUE of the trajectory (w - lr*dL/dw) is compositional over C01/C02/C07/C17; the C07 obligations of the expansions FC uses are re-run and carry known finding D2."),
   note=TRUST + " The numeric trajectory itself is not decided beyond the composition argument.",
   technique=AI + " of a two-step training loop through the real components, walk and optimizer (state, shape and step-equivalence clauses)", ref="4/C11"),
 'C13': dict(
   text=("The real Compute builds a real graph, the real BackPropagate is interpreted over it, and the gradient reaching the prediction (tracked leaf, or intermediate k*q of an upstream tracked op) must have the normal form 2(p-t)/N, ((1-t)/(1-p)-t/p)/N, -(t/p)/N inside the clipping interval and exactly 0 in the clipped regions incl. predictions exactly 0 or 1; prediction's shape; interval-finite; untracked target gets nothing; the Eq tolerance extracted from the kernel must be below the clipping epsilon."),
   note=TRUST + " Predictions exactly at the clipping bounds are excluded by the quantifier.",
   technique=AI + " of loss graphs and the real back-propagation walk against analytic derivatives (order-case split at the clip bounds)", ref="4/C13"),
 'C15': dict(
   text=("x (tracked leaf) -> h = k*x -> activation -> *G (arbitrary upstream weighting) -> real BackPropagate: x's gradient must be G*k*act'(h): 1|0 (1|m for LeakyRelu with symbolic, >1, negative, default slopes) by the sign of h, a value between them at h=0, the symbolic derivative of the composite for Sigmoid/Tanh, p_i(g_i - sum_j p_j g_j) for Softmax along every dim (today: known finding, inherits D2); finite; input's shape; ranks 0..2 (thorough 4)."),
   note=TRUST,
   technique=AI + " of activation graphs and the real walk against analytic derivatives (sign-case split at 0)", ref="4/C15"),
})
STATELESS = " Premise re-run in this check: statelessness of operations (S3 field-write ownership, S8 no mutable package state%s), so that per-call verdicts extend to call sequences."
PREMOPS = " Premise re-run in this check: the Tensor methods this package invokes (resolved from its interface-call sites) are re-checked in labelled-element mode, incl. sizes straddling every block/chunk constant harvested from the implementation."
for k in ('C01', 'C02', 'C07'):
    claimed[k]['text'] += STATELESS % ""
for k in ('C11', 'C13', 'C15', 'C16'):
    claimed[k]['text'] += STATELESS % ", S13 no tensor parked in component state"
for k in ('C12', 'C14', 'C16', 'C17', 'C19'):
    claimed[k]['text'] += PREMOPS
claimed['C01']['text'] += " The C02 local-rule obligations are re-run as a premise."
claimed['C11']['text'] += " The C13/C15 gradient obligations are re-run as premises; Softmax's inherited D2 manifestation is a second known finding."
claimed['C15']['text'] += " The gradient is compared at the leaf AND at the intermediate input h; an extreme-range probe (|x| <= 700) requires a NaN-free gradient interval."
claimed['C14']['text'] += " The caller's config struct is changed after construction: Forward must keep the construction-time values."
claimed['C18']['text'] += " S13: Init does not park the tensor it returns (each call returns a fresh object)."
claimed['C10']['text'] += " S13 (no tensor parked in component state)."
# round-5 additions
for k in ('C03', 'C04', 'C05', 'C06'):
    claimed[k]['text'] += " Result probes: the result object of every labelled instance is handed, as built by the implementation, to Scale(c), Sum(), Add(itself) and - after one element was replaced through Patch - again to Scale and Sum; all must see the specified elements (private bookkeeping carried by results cannot disagree with the data)."
claimed['C02']['text'] += " Premises re-run: the Tensor methods the backward rules invoke accept what their specification accepts (A4.pre rejects-valid, A4.shape, S6.panic with symbolic sizes); the walk on the DAG templates spends exactly the tracked ancestors of the root (C08.bp), ResetGradContext leaves a fresh leaf."
claimed['C07']['text'] += " The reducers the Broadcast rule is composed of are re-checked in labelled-element mode, incl. all-+Inf operands (a sum of equal infinities is that infinity: 'all upstream gradients')."
claimed['C08']['text'] += " S3.result-fresh: every tensor-producing method returns an object allocated by that call. Zero-gradient templates (x.Pow(0) above a product of tracked leaves). Statelessness premises (S8, package-state part of S4, S5) as in the other properties."
claimed['C09']['text'] += " Plus: a labelled run of every method on the shapes straddling the implementation's own size constants (S6.panic/S6.hang), the statelessness rules, and S16 lock pairing (every Lock is released or deferred on every path to a return; acquire/release helpers summarised; exercised on an embedded example on every run because today's tree takes no lock)."
claimed['C10']['text'] += " S3.result-fresh: no operation returns an operand as its result."
claimed['C20']['text'] += " S3.result-fresh (no operation returns an operand as its result) and S16 lock pairing."
for k in ('C12', 'C14', 'C16', 'C17', 'C19'):
    claimed[k]['text'] += " The invoked methods are also re-checked with symbolic sizes (accept what the specification accepts), and every failing tensor operation is shown to return an untyped nil (the components' nil checks rely on it)."
for k in ('C11', 'C13', 'C15', 'C16'):
    claimed[k]['text'] += " The C02 obligations of the differentiable methods the package invokes, the precondition / shape / element agreement of the methods THOSE rules invoke, the walk templates and C08.reset are re-run as premises."
# round-6 additions
claimed['C10']['text'] += " S8 (no mutable package state) is run here as well; S3.result-fresh also covers the exported constructors of the tensor package."
claimed['C09']['text'] += " The walk templates (incl. zero-gradient branches) are interpreted here too: BackPropagate on well-formed graphs returns without panic or error."
claimed['C20']['text'] += " S16 also reports a lock taken while a lock of the same kind may be held (no global order: swapped operands deadlock)."
for k in ('C03', 'C04', 'C05'):
    claimed[k]['text'] += " Premise: the store observer (C10.mutation) over the labelled instances of every other public method - operands stay intact between operations."
# round-7 additions
for k in ('C03', 'C04', 'C05', 'C06'):
    claimed[k]['text'] += " S4 write provenance over the data layer counts here as in C10 (an append into an operand's spare capacity changes what an earlier result shows). When normal forms differ and no ordinary point separates them, uniform points from the path condition's constants and non-finite points (0, finite, +-Inf; float64 classes finite/Inf/NaN) are tried; a constant 0 where a one-term definition is a normal non-zero float64 is a flush-to-zero difference. Size constants include strides, power-of-two masks/shifts and min/max clamps."
claimed['C07']['text'] += " MatMul and Dot (whose implicit batch expansion and backward rules are contractions again) are re-checked in labelled-element mode, incl. non-finite points."
claimed['C18']['text'] += " The per-element draw check also runs at element counts just beyond every size constant harvested from the implementation (look-ahead buffers, blocked sampling)."
reasons_na = {
 'C11': "compositional over C01, C02, C07, C08, C10, C16, C17 (each claimed separately); the end-to-end trajectory clause is not yet decided by its own check - build in progress",
 'C13': "compositional over C12, C01, C02 (each claimed separately); an end-to-end check of the loss gradients through the real BackPropagate is being built",
 'C15': "compositional over C14, C01, C02 (each claimed separately); an end-to-end check of activation gradients through the real BackPropagate is being built",
}
checks = []
for pid in ids:
    if pid not in claimed:
        continue
    c = claimed[pid]
    checks.append({
        "property_id": pid,
        "quick_cmd": f"/verif/bin/qverif check -prop {pid} -tier quick",
        "thorough_cmd": f"/verif/bin/qverif check -prop {pid} -tier thorough",
        "evidence_file": f"/verif/evidence/{pid}.json",
        "replay_cmd_template": "/verif/bin/qverif replay {path}",
        "engine": "qverif",
        "level_claimed": {"category": "other", "text": c['text'], "design_ref": "DESIGN.md section " + c['ref']},
        "level_note": c['note'],
        "technique": c['technique'],
    })
na = []
for pid in ids:
    if pid in claimed:
        continue
    na.append({"property_id": pid, "reason": reasons_na.get(pid, "checker for this property not built yet (build in progress; see DESIGN.md section 4 for the planned rules)")})

m = {
 "version": 1,
 "setup_cmd": "cd /verif/checker && env -u GOWORK GOFLAGS=-mod=vendor GOPROXY=off GOSUMDB=off GOTOOLCHAIN=local go build -o /verif/bin/qverif ./cmd/qverif",
 "hooks": {"guard": "verif",
           "enable": "no hooks: the checker only reads /repo's source through go/packages; nothing in /repo is instrumented or built with a tag",
           "baseline_off_cmd": "cd /repo && go test -vet=off -count=1 ./...",
           "source_commits": [], "add_only": True},
 "engines": [{"name": "qverif", "path": "/verif/checker", "serves_properties": [c['property_id'] for c in checks],
              "kind_free_text": "Go static analyser: go/packages + go/ssa loader, structural dataflow rules, and an abstract interpreter over SSA with symbolic shapes, element expressions and intervals"}],
 "checks": checks,
 "notes": "Every check re-loads /repo's working tree. exit 0 = all obligations discharged (listed known findings print KNOWN-FINDING); exit 1 + VIOLATION line = definite violation with construct and witness; exit 2 + UNDECIDED = loader/anchor failure or an idiom outside the analysed fragment (never a violation claim). Genuine defects repaired in /repo are the 'fix:' commits listed in known_findings.jsonl.",
 "not_applicable": na,
}
json.dump(m, open(os.path.join(ROOT, 'MANIFEST.json'), 'w'), indent=1)
print("claimed", [c['property_id'] for c in checks], "n/a", len(na))
