#!/usr/bin/env python3
"""Regenerates /verif/MANIFEST.json from the table below (kept next to the checker so they stay in sync)."""
import json, os
ROOT = os.path.dirname(os.path.dirname(os.path.abspath(__file__)))
props = [json.loads(l) for l in open(os.path.join(ROOT, 'properties.jsonl'))]
ids = [p['id'] for p in props]

TRUST = ("Trusted base: go/packages+go/types+go/ssa (x/tools v0.29.0, vendored) as a faithful reading of /repo's source; "
         "the specification tables of DESIGN.md Appendix A/B (typing rules, element semantics, VJP table) encoded in checker/spec; "
         "the checker's own algebra (polynomial normaliser, Fourier-Motzkin refutation). No repository code is executed.")

claimed = {
 'C02': dict(
   text=("Abstract interpretation of the real public method (validators, dims helpers, gradient-context constructor) and of every backward closure it wires, "
         "per operation and per symbolic-shape instance: no error/panic path, gradient shape == operand shape for all sizes (FM-decided), element expression equal "
         "(normal form) to the operation's vector-Jacobian product, interval-finite on the differentiable range incl. Pow(0|1|2) at base 0. Universal over dimension "
         "sizes; ranks/argument forms enumerated to the tier bound. Structural necessary-and-more condition of C02, not a proof about floating point."),
   note=TRUST + " Element positions produced by the data layer are not decided (C03-C06 scope).",
   technique="abstract interpretation of go/ssa (symbolic shapes + element expressions + intervals) against a VJP table",
   ref="4/C02, 3.2"),
 'C07': dict(
   text=("Same engine on Broadcast: for every source/target pattern (new leading axes, expanded unit axes, both, factor 1) the closure's element expression must equal "
         "the SUM of the upstream gradient over the expanded copies, with the source's shape; plus the routing rule that every implicit expansion in Add/Sub/Mul/Div/Dot/MatMul "
         "reaches the operand through a tensor produced by the public Broadcast. Today's tree averages instead of summing (known finding D2, pinned by TestBroadcast)."),
   note=TRUST,
   technique="abstract interpretation of go/ssa: reducer kind and axes of the Broadcast backward closure; def-use routing of implicit expansions",
   ref="4/C07"),
}

reasons_na = {}
checks = []
for pid in ids:
    if pid not in claimed:
        continue
    c = claimed[pid]
    checks.append({
        "property_id": pid,
        "quick_cmd": f"/verif/bin/qverif check -prop {pid} -tier quick",
        "thorough_cmd": f"/verif/bin/qverif check -prop {pid} -tier thorough",
        "evidence_file": f"/verif/evidence/{pid}.json",
        "engine": "qverif",
        "level_claimed": {"category": "other", "text": c['text'], "design_ref": "DESIGN.md section " + c['ref']},
        "level_note": c['note'],
        "technique": c['technique'],
    })
na = []
for pid in ids:
    if pid in claimed:
        continue
    na.append({"property_id": pid, "reason": reasons_na.get(pid, "checker for this property not built yet (build in progress; see DESIGN.md section 4 for the planned rules)")})

m = {
 "version": 1,
 "setup_cmd": "cd /verif/checker && env -u GOWORK GOFLAGS=-mod=vendor GOPROXY=off GOSUMDB=off GOTOOLCHAIN=local go build -o /verif/bin/qverif ./cmd/qverif",
 "hooks": {"guard": "verif",
           "enable": "no hooks: the checker only reads /repo's source through go/packages; nothing in /repo is instrumented or built with a tag",
           "baseline_off_cmd": "cd /repo && go test -vet=off -count=1 ./...",
           "source_commits": [], "add_only": True},
 "engines": [{"name": "qverif", "path": "/verif/checker", "serves_properties": [c['property_id'] for c in checks],
              "kind_free_text": "Go static analyser: go/packages + go/ssa loader, structural dataflow rules, and an abstract interpreter over SSA with symbolic shapes, element expressions and intervals"}],
 "checks": checks,
 "notes": "Every check re-loads /repo's working tree. exit 0 = all obligations discharged (listed known findings print KNOWN-FINDING); exit 1 + VIOLATION line = definite violation with construct and witness; exit 2 + UNDECIDED = loader/anchor failure or an idiom outside the analysed fragment (never a violation claim). Genuine defects repaired in /repo are the 'fix:' commits listed in known_findings.jsonl.",
 "not_applicable": na,
}
json.dump(m, open(os.path.join(ROOT, 'MANIFEST.json'), 'w'), indent=1)
print("claimed", [c['property_id'] for c in checks], "n/a", len(na))
