#!/bin/bash
# usage: try_mutant_wt.sh <patch.diff> <prop> [<prop>...] — like try_mutant.sh, but on a private scratch worktree of /repo
# (so several can run in parallel and /repo is never touched).  QVERIF overrides the binary.
patch="$1"; shift
bin=${QVERIF:-/verif/bin/qverif}
wt=$(mktemp -d /tmp/wt_mut_XXXXXX); rmdir $wt
git -C /repo worktree add -q --detach $wt HEAD || exit 9
sc=$(mktemp -d /tmp/verif_scratch_XXXXXX)
trap 'git -C /repo worktree remove --force '$wt' >/dev/null 2>&1; rm -rf '$sc EXIT
( cd $wt && git apply "$patch" ) || { echo "patch does not apply"; exit 8; }
cp /verif/known_findings.jsonl $sc/
for p in "$@"; do
  out=$($bin check -prop "$p" -repo $wt -verif $sc 2>&1); code=$?
  echo "== $p exit=$code"
  echo "$out" | grep -E '^(VIOLATION|UNDECIDED|  violated)' | cut -c1-420 | head -6
done
