#!/bin/bash
# usage: try_mutant.sh <patch.diff> <prop> [<prop>...] — applies the patch to /repo, runs the quick checks, and always reverts.
patch="$1"; shift
cd /repo || exit 9
if ! git diff --quiet; then echo "REPO DIRTY, abort"; exit 9; fi
git apply "$patch" || { echo "patch does not apply"; exit 8; }
mkdir -p /tmp/verif_scratch && cp /verif/known_findings.jsonl /tmp/verif_scratch/
trap 'git -C /repo checkout -- . ; git -C /repo clean -fdq' EXIT
for p in "$@"; do
  out=$(/verif/bin/qverif check -prop "$p" -verif /tmp/verif_scratch 2>&1); code=$?
  echo "== $p exit=$code"
  echo "$out" | grep -E '^(VIOLATION|UNDECIDED|  violated)' | cut -c1-420 | head -6
done
