#!/bin/bash
# usage: try_benign_wt.sh <patch.diff> [prop...] — applies a behaviour-preserving patch to a scratch worktree and runs the checks (default all 20)
patch="$1"; shift
props=${@:-C01 C02 C03 C04 C05 C06 C07 C08 C09 C10 C11 C12 C13 C14 C15 C16 C17 C18 C19 C20}
bin=${QVERIF:-/verif/bin/qverif}
wt=$(mktemp -d /tmp/wt_ben_XXXXXX); rmdir $wt
git -C /repo worktree add -q --detach $wt HEAD || exit 9
sc=$(mktemp -d /tmp/verif_scratch_XXXXXX); cp /verif/known_findings.jsonl $sc/
trap 'git -C /repo worktree remove --force '$wt' >/dev/null 2>&1; rm -rf '$sc EXIT
( cd $wt && git apply "$patch" ) || { echo "patch does not apply"; exit 8; }
for p in $props; do
  out=$($bin check -prop $p -repo $wt -verif $sc 2>&1); code=$?
  if [ $code -ne 0 ]; then echo "== $p exit=$code"; echo "$out" | grep -E '^(VIOLATION|UNDECIDED|  violated)' | cut -c1-${WIDTH:-400} | head -${LINES_MAX:-5}; fi
done
echo done
