#!/bin/bash
# round_try.sh <src-root> <Cxx> — confirm the three changes under <src-root>/<Cxx>/k and run that property's check on each (QVERIF = binary)
src=$1; p=$2
for k in 1 2 3; do
  d=$src/$p/$k
  [ -f $d/patch.diff ] || { echo "$p/$k: no patch"; continue; }
  echo "$p/$k: $(/verif/tools/confirm_mutant.sh $d)"
  /verif/tools/try_mutant_wt.sh $d/patch.diff $p 2>&1 | cut -c1-${WIDTH:-260} | head -${LINES_MAX:-3}
done
