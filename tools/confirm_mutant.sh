#!/bin/bash
# usage: confirm_mutant.sh <mutdir> — confirms in a scratch worktree: clean tree demo passes; with patch: build ok, suite passes, demo fails.
export GOFLAGS=-mod=mod GOPROXY=off GOSUMDB=off GOTOOLCHAIN=local
d="$1"; wt=/tmp/wt_confirm_$$
git -C /repo worktree add -q --detach $wt HEAD || exit 9
trap 'git -C /repo worktree remove --force '$wt' >/dev/null 2>&1' EXIT
cd $wt; mkdir demo; cp "$d"/demo_test.go demo/
clean_demo=$(go test -vet=off -count=1 ./demo/ >/dev/null 2>&1 && echo pass || echo FAIL)
git apply "$d/patch.diff" || { echo "apply failed"; exit 8; }
build=$(go build ./... >/dev/null 2>&1 && echo ok || echo FAIL)
suite=$(go test -vet=off -count=1 $(go list ./... | grep -v /demo) 2>&1 | grep -v 'no test files' | grep -vc '^ok')
mut_demo=$(timeout 120 go test -vet=off -count=1 ./demo/ >/dev/null 2>&1 && echo pass || echo FAIL)
echo "clean_demo=$clean_demo build=$build suite_nonok_lines=$suite mutant_demo=$mut_demo"
