#!/usr/bin/env python3
"""store_mutants.py <src-root> <prefix> <round> <Cxx>...  — for each <src-root>/<Cxx>/<k>/ run the property's check on
the patched tree (tools/try_mutant.sh) and store patch, demo, README and meta.json under /verif/seeded/<prefix><Cxx>-<k>/."""
import json, os, re, shutil, subprocess, sys
src, prefix, rnd = sys.argv[1], sys.argv[2], int(sys.argv[3])
for prop in sys.argv[4:]:
    d = os.path.join(src, prop)
    for k in sorted(os.listdir(d)):
        sd = os.path.join(d, k)
        if not os.path.isfile(os.path.join(sd, "patch.diff")):
            continue
        out = subprocess.run(["/verif/tools/try_mutant_wt.sh", os.path.join(sd, "patch.diff"), prop], capture_output=True, timeout=1800).stdout.decode("utf-8", "replace")
        m = re.search(r"== %s exit=(\d+)" % prop, out)
        code = int(m.group(1)) if m else -1
        viol = re.findall(r"violated: \[([^\]]+)\]", out)
        und = re.findall(r"UNDECIDED property=\S+ (\S+)", out)
        if code == 1 and viol:
            det = "%s (%s)" % (prop, "; ".join(sorted(set(viol))[:4]))
        elif code == 2:
            det = "UNDECIDED only (exit 2): " + "; ".join(sorted(set(und))[:3])
        else:
            det = "MISSED (exit %d)" % code
        dst = "/verif/seeded/%s%s-%s" % (prefix, prop, k)
        os.makedirs(dst, exist_ok=True)
        for f in os.listdir(sd):
            if os.path.isfile(os.path.join(sd, f)):
                shutil.copy(os.path.join(sd, f), dst)
        readme = ""
        if os.path.exists(os.path.join(sd, "README.md")):
            readme = " ".join(open(os.path.join(sd, "README.md")).read().split())[:600]
        meta = {"property": prop, "round": rnd,
                "source": "independent sub-agent given the property text, the list of earlier attempts to avoid, and a scratch worktree of /repo",
                "needs_to_manifest": readme,
                "confirmed": "tools/confirm_mutant.sh in a scratch worktree: clean tree demo passes; with patch: go build ok, existing suite passes, demo fails",
                "checks_run": "tools/try_mutant.sh <patch> <property>",
                "detected_by": det}
        json.dump(meta, open(os.path.join(dst, "meta.json"), "w"), indent=1)
        print(prop, k, "->", det[:150])
