#!/bin/bash
# benign_props.sh <from> <to> <jobs> <prop...> — run the given checks on benign/<from>..<to> on scratch worktrees, in parallel
cd /verif
from=$1; to=$2; jobs=$3; shift 3
export PROPS="$*"
one() {
  k=$1; out=$(LINES_MAX=2 WIDTH=260 /verif/tools/try_benign_wt.sh /verif/benign/$k/patch.diff $PROPS 2>&1 | grep -v "^done")
  if [ -z "$out" ]; then echo "benign $k: [$PROPS] exit 0"; else echo "benign $k: FALSE ALARM"; echo "$out" | sed 's/^/    /'; fi
}
export -f one
seq $from $to | xargs -P $jobs -I{} bash -c 'one {}'
