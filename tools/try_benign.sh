#!/bin/bash
# usage: try_benign.sh <patch.diff> — applies a behaviour-preserving patch to /repo, runs EVERY quick check, reverts. Any non-zero exit is a false alarm.
patch="$1"
cd /repo || exit 9
if ! git diff --quiet; then echo "REPO DIRTY, abort"; exit 9; fi
git apply "$patch" || { echo "patch does not apply"; exit 8; }
mkdir -p /tmp/verif_scratch && cp /verif/known_findings.jsonl /tmp/verif_scratch/
trap 'git -C /repo checkout -- . ; git -C /repo clean -fdq' EXIT
bad=0
for p in C01 C02 C03 C04 C05 C06 C07 C08 C09 C10 C11 C12 C13 C14 C15 C16 C17 C18 C19 C20; do
  out=$(/verif/bin/qverif check -prop "$p" -verif /tmp/verif_scratch 2>&1); code=$?
  if [ $code -ne 0 ]; then bad=1; echo "== $p exit=$code"; echo "$out" | grep -E '^(VIOLATION|UNDECIDED|  violated)' | cut -c1-400 | head -5; fi
done
[ $bad -eq 0 ] && echo "all 20 checks exit 0"
