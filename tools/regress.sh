#!/bin/bash
# regress.sh [pattern] — re-run every stored seeded change against its property's check and the benign corpus against all checks.
# Prints one line per change: CAUGHT / UNDECIDED / MISSED (+ whether that matches meta.json), and FALSE-ALARM lines for benign patches.
cd /verif; V=/verif
pat=${1:-.}
for d in seeded/*/; do
  n=$(basename $d)
  echo "$n" | grep -qE "$pat" || continue
  p=$(python3 -c "import json;print(json.load(open('$d/meta.json'))['property'])")
  exp=$(python3 -c "import json;m=json.load(open('$d/meta.json'))['detected_by'];print('MISSED' if m.startswith('MISSED') or m.upper().startswith('NOT DETECTED') else ('UNDECIDED' if m.startswith('UNDECIDED') else 'CAUGHT'))")
  out=$(timeout 1800 ./tools/try_mutant.sh /verif/$d/patch.diff $p 2>&1)
  code=$(echo "$out" | sed -n "s/^== $p exit=\([0-9]*\).*/\1/p")
  case "$code" in 1) got=CAUGHT;; 2) got=UNDECIDED;; 0) got=MISSED;; *) got="ERROR($code)";; esac
  flag=""; [ "$got" != "$exp" ] && flag="   <<< expected $exp"
  echo "$n $p $got$flag"
done
if [ "$pat" = "." ] || [ "$pat" = "benign" ]; then
  for d in benign/*/; do
    [ -f $d/patch.diff ] || continue
    out=$(./tools/try_benign.sh /verif/$d/patch.diff 2>&1 | tail -3 | tr '\n' ' ')
    echo "benign $(basename $d): $out"
  done
fi
