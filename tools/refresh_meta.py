#!/usr/bin/env python3
"""refresh_meta.py <seeded-dir-name>... — re-run the property's check on the stored change and rewrite detected_by in its meta.json"""
import json, os, re, subprocess, sys
for n in sys.argv[1:]:
    d = "/verif/seeded/" + n
    m = json.load(open(d + "/meta.json"))
    prop = m["property"]
    out = subprocess.run(["/verif/tools/try_mutant_wt.sh", d + "/patch.diff", prop], capture_output=True, timeout=1800).stdout.decode("utf-8", "replace")
    mm = re.search(r"== %s exit=(\d+)" % prop, out)
    code = int(mm.group(1)) if mm else -1
    viol = re.findall(r"violated: \[([^\]]+)\]", out)
    und = re.findall(r"UNDECIDED property=\S+ (\S+)", out)
    if code == 1 and viol:
        det = "%s (%s)" % (prop, "; ".join(sorted(set(viol))[:4]))
    elif code == 2:
        det = "UNDECIDED only (exit 2): " + "; ".join(sorted(set(und))[:3])
    else:
        det = "MISSED (exit %d)" % code
    m["detected_by"] = det
    json.dump(m, open(d + "/meta.json", "w"), indent=1)
    print(n, "->", det[:160])
